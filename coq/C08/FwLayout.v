(* C08/FwLayout.v — HAND-WRITTEN SPECIFICATION.  This is the file a reader must audit.

   Three things are written down here, from the firmware's packed structs (crazyflie-firmware:
   crtp_commander_rpyt.c, crtp_commander_generic.c, crtp_commander_high_level.c, crtp_localization_service.c,
   platformservice.c; lps-node-firmware lpp.c) and from cflib's documentation of each method:

   1. fw_table / fw_decode — the firmware's receiving side: per CRTP port, channel and type byte the
      packed struct it casts the payload to, and which fields it negates when it copies them into its
      setpoint (the sign conventions), and from which protocol version on the type exists.
   2. api_action — what each library method is documented to mean: the values (in the order of the
      firmware struct) that the firmware must end up with, as expressions over the caller's arguments.
   3. fw_action — the wire layout the library has to produce for each command and protocol version
      (compared syntactically with the layout extracted from the code, Gen_Layout.v).

   Nothing here is generated.  Executable definitions only. *)
From CF Require Import Common.Bytes.
From CF Require Import Common.Struct.
From CF Require Import C08.PyVal.
From CF Require Import C08.Model.
Open Scope Z_scope.

(* ================================================================ 1. the firmware's side *)

(* a field of a packed struct: a constant the dispatcher switches on, a value copied as is, or a
   float value the decoder negates when it copies it *)
Inductive fsrc := SConst (z : Z) | SVal | SNeg.
Definition desc := list (fld * fsrc).

Definition flip32 (w : Z) : Z := if w <? 2147483648 then w + 2147483648 else w - 2147483648.

Fixpoint collect (d : desc) (ws : list Z) : option (list (fld * Z)) :=
  match d, ws with
  | [], [] => Some []
  | (f, SConst k) :: d', w :: ws' => if w =? k then collect d' ws' else None
  | (f, SVal) :: d', w :: ws' => option_map (cons (f, w)) (collect d' ws')
  | (f, SNeg) :: d', w :: ws' => option_map (cons (f, flip32 w)) (collect d' ws')
  | _, _ => None
  end.

(* cast the payload to the struct (exact length required) and read the value fields *)
Definition decode_by (d : desc) (b : list Z) : option (list (fld * Z)) :=
  match unpack (map fst d) b with Some ws => collect d ws | None => None end.

Definition c8 (k : Z) : fld * fsrc := (U8, SConst k).
Definition v (f : fld) : fld * fsrc := (f, SVal).

(* the dispatcher: port, channel, first payload byte t0 (packet type / command), and for short LPP
   packets the third byte t2 (LPP type).  Result: which command it is, the struct, and the first
   protocol version that knows the type (None: every version). *)
Definition fw_table (port chan t0 t2 : Z) : option (cmd * desc * option Z) :=
  if port =? 3 then                                  (* CRTP_PORT_SETPOINT *)
    if chan =? 0 then
      (* struct CommanderCrtpLegacyValues { float roll; float pitch; float yaw; uint16_t thrust; };
         pitch arrives negated (legacy frame) *)
      Some (CSetpoint, [v F32; (F32, SNeg); v F32; v U16], None)
    else None
  else if port =? 7 then                             (* CRTP_PORT_SETPOINT_GENERIC *)
    if chan =? 0 then
      if t0 =? 0 then Some (CStopSetpoint, [c8 0], None)
      (* legacy decoders (types 1, 2, 5) negate the yaw rate; the types of protocol version 9 do not *)
      else if t0 =? 1 then Some (CVelocityWorld, [c8 1; v F32; v F32; v F32; (F32, SNeg)], None)
      else if t0 =? 2 then Some (CZDistance, [c8 2; v F32; v F32; (F32, SNeg); v F32], None)
      else if t0 =? 5 then Some (CHover, [c8 5; v F32; v F32; (F32, SNeg); v F32], None)
      (* struct fullStatePacket_s: int16 x y z (mm) vx vy vz (mm/s) ax ay az (mm/s^2); int32 quat;
         int16 rateRoll ratePitch rateYaw (millirad/s) *)
      else if t0 =? 6 then Some (CFullState, [c8 6; v I16; v I16; v I16; v I16; v I16; v I16; v I16; v I16; v I16;
                                              v U32; v I16; v I16; v I16], None)
      else if t0 =? 7 then Some (CPosition, [c8 7; v F32; v F32; v F32; v F32], None)
      else if t0 =? 8 then Some (CVelocityWorld, [c8 8; v F32; v F32; v F32; v F32], Some 9)
      else if t0 =? 9 then Some (CZDistance, [c8 9; v F32; v F32; v F32; v F32], Some 9)
      else if t0 =? 10 then Some (CHover, [c8 10; v F32; v F32; v F32; v F32], Some 9)
      else None
    else if chan =? 1 then                           (* meta commands *)
      if t0 =? 0 then Some (CNotifyStop, [c8 0; v U32], None) else None
    else None
  else if port =? 8 then                             (* CRTP_PORT_SETPOINT_HL *)
    if chan =? 0 then
      if t0 =? 0 then Some (CHlGroupMask, [c8 0; v U8], None)
      else if t0 =? 3 then Some (CHlStop, [c8 3; v U8], None)
      (* struct data_go_to { groupMask; relative; x y z yaw duration } *)
      else if t0 =? 4 then Some (CHlGoTo, [c8 4; v U8; v U8; v F32; v F32; v F32; v F32; v F32], None)
      (* struct data_start_trajectory { groupMask; relative; reversed; trajectoryId; timescale } *)
      else if t0 =? 5 then Some (CHlStartTraj, [c8 5; v U8; v U8; v U8; v U8; v F32], None)
      (* struct data_define_trajectory { trajectoryId; {location; type; offset(u32); n_pieces} } *)
      else if t0 =? 6 then Some (CHlDefineTraj, [c8 6; v U8; c8 1; v U8; v U32; v U8], None)
      (* struct data_takeoff_2 / data_land_2 { groupMask; height; yaw; useCurrentYaw; duration } *)
      else if t0 =? 7 then Some (CHlTakeoff, [c8 7; v U8; v F32; v F32; v Bool8; v F32], None)
      else if t0 =? 8 then Some (CHlLand, [c8 8; v U8; v F32; v F32; v Bool8; v F32], None)
      (* struct data_spiral { groupMask; sideways; clockwise; phi; r0; rf; dz; duration } *)
      else if t0 =? 11 then Some (CHlSpiral, [c8 11; v U8; v U8; v U8; v F32; v F32; v F32; v F32; v F32], Some 8)
      (* struct data_go_to_2 { groupMask; relative; linear; x y z yaw duration } *)
      else if t0 =? 12 then Some (CHlGoTo, [c8 12; v U8; v U8; v U8; v F32; v F32; v F32; v F32; v F32], Some 8)
      else None
    else None
  else if port =? 6 then                             (* CRTP_PORT_LOCALIZATION *)
    if chan =? 0 then Some (CLocExtPos, [v F32; v F32; v F32], None)       (* struct CrtpExtPosition *)
    else if chan =? 1 then
      if t0 =? 2 then                                (* LPS_SHORT_LPP_PACKET: destination, then the LPP message *)
        if t2 =? 1 then Some (CLpsSetPosition, [c8 2; v U8; c8 1; v F32; v F32; v F32], None)
        else if t2 =? 2 then Some (CLpsReboot, [c8 2; v U8; c8 2; v U8], None)
        else if t2 =? 3 then Some (CLpsSetMode, [c8 2; v U8; c8 3; v U8], None)
        else None
      else if t0 =? 3 then Some (CLocEmergencyStop, [c8 3], None)
      else if t0 =? 4 then Some (CLocEmergencyWatchdog, [c8 4], None)
      (* struct CrtpExtPose { x y z qx qy qz qw } *)
      else if t0 =? 8 then Some (CLocExtPose, [c8 8; v F32; v F32; v F32; v F32; v F32; v F32; v F32], None)
      (* LH_PERSIST_DATA: uint16 geometry mask, uint16 calibration mask *)
      else if t0 =? 11 then Some (CLocLhPersist, [c8 11; v U16; v U16], None)
      else None
    else None
  else if port =? 13 then                            (* CRTP_PORT_PLATFORM, platformCommand *)
    if chan =? 0 then
      if t0 =? 0 then Some (CPlatContWave, [c8 0; v U8], None)
      else if t0 =? 1 then Some (CPlatArming, [c8 1; v U8], None)
      else if t0 =? 2 then Some (CPlatCrashRecovery, [c8 2], None)
      else None
    else None
  else None.

Definition ver_knows (ver : Z) (mv : option Z) : bool :=
  match mv with None => true | Some m => m <=? ver end.

(* channels whose payload has no type byte, and the one type that is followed by a second tag *)
Definition untagged (port chan : Z) : bool := ((port =? 3) && (chan =? 0)) || ((port =? 6) && (chan =? 0)).
Definition needs_t2 (port chan t0 : Z) : bool := (port =? 6) && (chan =? 1) && (t0 =? 2).

Definition fw_decode (ver port chan : Z) (b : list Z) : option (cmd * list (fld * Z)) :=
  let t0 := if untagged port chan then 0 else nth 0 b 0 in
  let t2 := if needs_t2 port chan t0 then nth 2 b 0 else 0 in
  match fw_table port chan t0 t2 with
  | Some (c, d, mv) =>
      if ver_knows ver mv then option_map (pair c) (decode_by d b) else None
  | None => None
  end.

(* Extpos.send_extpos / send_extpose are documented as the same commands as Localization's *)
Definition canon_cmd (c : cmd) : cmd :=
  match c with CExtposPos => CLocExtPos | CExtposPose => CLocExtPose | _ => c end.

(* equality of decoded values: integers exactly; float32 fields as numbers (any NaN is NaN, -0 = +0) *)
Definition is_nan32 (w : Z) : bool := (Z.land (Z.shiftr w 23) 255 =? 255) && negb (Z.land w 8388607 =? 0).
Definition canon32 (w : Z) : Z := if is_nan32 w then nan32 else if w =? 2147483648 then 0 else w.
Definition canon_val (fw : fld * Z) : fld * Z :=
  match fw with (F32, w) => (F32, canon32 w) | _ => fw end.

(* ================================================================ 2. what the methods mean *)

Definition a32 (i : nat) : conv * expr := (KS F32, EArg i).
Definition a8 (i : nat) : conv * expr := (KS U8, EArg i).
Definition mm (i : nat) : conv * expr := (KS I16, EIntOf (EBin OMul (EArg i) (EInt 1000))).
Definition api (fs : list (conv * expr)) : action := AEmit 0 0 fs false.

Definition f_0707 : expr := EFloat 4604543309418378297.       (* the double nearest to 0.707 *)
Definition f_pi : expr := EFloat 4614256656552045848.         (* math.pi *)
Definition two_pi : expr := EBin OMul (EInt 2) f_pi.
Definition minus_two_pi : expr := EBin OMul (EInt (-2)) f_pi.
(* client-side X-mode ("recalculates the setpoints before sending them"): the 45 degree rotation *)
Definition xm_roll : expr := EBin OMul f_0707 (EBin OSub (EArg 0) (EArg 1)).
Definition xm_pitch : expr := EBin OMul f_0707 (EBin OAdd (EArg 0) (EArg 1)).

Definition spiral_api (angle r0 rF : expr) : action :=
  api [a8 7; a8 5; a8 6; (KS F32, angle); (KS F32, r0); (KS F32, rF); a32 3; a32 4].
Definition spiral_radii (mk : expr -> expr -> action) : action :=
  AIf (CLt (EArg 1) (EInt 0))
    (AIf (CLt (EArg 2) (EInt 0)) (mk (EInt 0) (EInt 0)) (mk (EInt 0) (EArg 2)))
    (AIf (CLt (EArg 2) (EInt 0)) (mk (EArg 1) (EInt 0)) (mk (EArg 1) (EArg 2))).
Definition spiral_tree (mk : expr -> expr -> expr -> action) : action :=
  AIf (CGt (EArg 0) two_pi) (spiral_radii (mk two_pi))
    (AIf (CLt (EArg 0) minus_two_pi) (spiral_radii (mk minus_two_pi)) (spiral_radii (mk (EArg 0)))).

(* argument slots are the method's parameters in signature order (vectors flattened) *)
Definition api_action (c : cmd) : action :=
  match c with
  (* send_setpoint(roll, pitch, yawrate, thrust) *)
  | CSetpoint => AIf CXMode (api [(KS F32, xm_roll); (KS F32, xm_pitch); a32 2; (KS U16, EArg 3)])
                            (api [a32 0; a32 1; a32 2; (KS U16, EArg 3)])
  (* send_notify_setpoint_stop(remain_valid_milliseconds) *)
  | CNotifyStop => api [(KS U32, EArg 0)]
  | CStopSetpoint => api []
  (* (vx, vy, vz, yawrate) / (roll, pitch, yawrate, zdistance) / (vx, vy, yawrate, zdistance) / (x, y, z, yaw):
     the same meaning on every protocol version *)
  | CVelocityWorld | CZDistance | CHover | CPosition => api [a32 0; a32 1; a32 2; a32 3]
  (* send_full_state_setpoint(pos[3], vel[3], acc[3], orientation -> codec, rollrate, pitchrate, yawrate):
     thousandths, truncated toward zero *)
  | CFullState => api [mm 0; mm 1; mm 2; mm 3; mm 4; mm 5; mm 6; mm 7; mm 8; (KS U32, ECodec 0); mm 9; mm 10; mm 11]
  | CHlGroupMask | CHlStop => api [a8 0]
  (* takeoff/land(absolute_height_m, duration_s, group_mask, yaw): yaw None = keep the current yaw *)
  | CHlTakeoff | CHlLand =>
      AIf (CIsNone (EArg 3))
        (api [a8 2; a32 0; (KS F32, EFloat 0); (KS Bool8, EBoolC true); a32 1])
        (api [a8 2; a32 0; a32 3; (KS Bool8, EBoolC false); a32 1])
  (* go_to(x, y, z, yaw, duration_s, relative, linear, group_mask): `linear` exists from version 8 on *)
  | CHlGoTo => AIf (CVerLt 8) (api [a8 7; a8 5; a32 0; a32 1; a32 2; a32 3; a32 4])
                              (api [a8 7; a8 5; a8 6; a32 0; a32 1; a32 2; a32 3; a32 4])
  (* spiral(angle, r0, rF, ascent, duration_s, sideways, clockwise, group_mask): angle limited to
     +-2pi, radii to >= 0 *)
  | CHlSpiral => spiral_tree spiral_api
  (* start_trajectory(trajectory_id, time_scale, relative, reversed, group_mask) *)
  | CHlStartTraj => api [a8 4; a8 2; a8 3; a8 0; a32 1]
  (* define_trajectory(trajectory_id, offset, n_pieces, type) *)
  | CHlDefineTraj => api [a8 0; a8 3; (KS U32, EArg 1); a8 2]
  | CLocExtPos | CExtposPos => api [a32 0; a32 1; a32 2]
  | CLocExtPose | CExtposPose => api [a32 0; a32 1; a32 2; a32 3; a32 4; a32 5; a32 6]
  | CLocShortLpp => api [a8 0]
  | CLocEmergencyStop | CLocEmergencyWatchdog | CPlatCrashRecovery => api []
  (* send_lh_persist_data_packet(geo_list, calib_list): bit b set iff b is in the list *)
  | CLocLhPersist => api [(KS U16, EMaskOr 0); (KS U16, EMaskOr 1)]
  | CPlatContWave | CPlatArming => api [(KT, EArg 0)]
  (* set_position(anchor_id, position[3]) / reboot(anchor_id, mode) / set_mode(anchor_id, mode) *)
  | CLpsSetPosition => api [a8 0; a32 1; a32 2; a32 3]
  | CLpsReboot | CLpsSetMode => api [a8 0; a8 1]
  end.

(* run the documented meaning: the values the firmware is supposed to receive; None when the method
   is documented not to send (or an argument cannot be converted) *)
Fixpoint run_api (a : action) (cf : config) (en : env) : option (list (fld * Z)) :=
  match a with
  | AEmit _ _ fs _ => match bind (eval_fields en fs) convert_fields with Ok ws => Some ws | Raise _ => None end
  | AIf c a1 a2 => match eval_cond cf en c with
                   | Ok true => run_api a1 cf en | Ok false => run_api a2 cf en | Raise _ => None end
  | ACheck _ k | APack _ k => run_api k cf en
  | ARaise _ | ASkip => None
  end.

Definition intended (c : cmd) (cf : config) (en : env) : option (list (fld * Z)) :=
  run_api (api_action c) cf en.

(* ================================================================ 3. the wire layout per command *)

Definition k8 (z : Z) : conv * expr := (KS U8, EInt z).
Definition n32 (i : nat) : conv * expr := (KS F32, ENeg (EArg i)).

Definition spiral_emit (angle r0 rF : expr) : action :=
  AEmit 8 0 [k8 11; a8 7; a8 5; a8 6; (KS F32, angle); (KS F32, r0); (KS F32, rF); a32 3; a32 4] false.

Definition hl2 (t : Z) : action :=
  AIf (CIsNone (EArg 3))
    (AEmit 8 0 [k8 t; a8 2; a32 0; (KS F32, EFloat 0); (KS Bool8, EBoolC true); a32 1] false)
    (AEmit 8 0 [k8 t; a8 2; a32 0; a32 3; (KS Bool8, EBoolC false); a32 1] false).

Definition fw_action (c : cmd) : action :=
  match c with
  | CSetpoint =>
      AIf (COr (CGt (EArg 3) (EInt 65535)) (CLt (EArg 3) (EInt 0))) (ARaise EValue)
        (AIf CXMode
           (AEmit 3 0 [(KS F32, xm_roll); (KS F32, ENeg xm_pitch); a32 2; (KS U16, EArg 3)] false)
           (AEmit 3 0 [a32 0; n32 1; a32 2; (KS U16, EArg 3)] false))
  | CNotifyStop => AEmit 7 1 [k8 0; (KS U32, EArg 0)] false
  | CStopSetpoint => AEmit 7 0 [k8 0] false
  | CVelocityWorld => AIf (CVerLe 8) (AEmit 7 0 [k8 1; a32 0; a32 1; a32 2; n32 3] false)
                                     (AEmit 7 0 [k8 8; a32 0; a32 1; a32 2; a32 3] false)
  | CZDistance => AIf (CVerLe 8) (AEmit 7 0 [k8 2; a32 0; a32 1; n32 2; a32 3] false)
                                 (AEmit 7 0 [k8 9; a32 0; a32 1; a32 2; a32 3] false)
  | CHover => AIf (CVerLe 8) (AEmit 7 0 [k8 5; a32 0; a32 1; n32 2; a32 3] false)
                             (AEmit 7 0 [k8 10; a32 0; a32 1; a32 2; a32 3] false)
  | CFullState => AEmit 7 0 [k8 6; mm 0; mm 1; mm 2; mm 3; mm 4; mm 5; mm 6; mm 7; mm 8;
                             (KS U32, ECodec 0); mm 9; mm 10; mm 11] false
  | CPosition => AEmit 7 0 [k8 7; a32 0; a32 1; a32 2; a32 3] false
  | CHlGroupMask => AEmit 8 0 [k8 0; a8 0] false
  | CHlTakeoff => hl2 7
  | CHlLand => hl2 8
  | CHlStop => AEmit 8 0 [k8 3; a8 0] false
  | CHlGoTo => AIf (CVerLt 8) (AEmit 8 0 [k8 4; a8 7; a8 5; a32 0; a32 1; a32 2; a32 3; a32 4] false)
                              (AEmit 8 0 [k8 12; a8 7; a8 5; a8 6; a32 0; a32 1; a32 2; a32 3; a32 4] false)
  | CHlSpiral => AIf (CVerLt 8) ASkip (spiral_tree spiral_emit)
  | CHlStartTraj => AEmit 8 0 [k8 5; a8 4; a8 2; a8 3; a8 0; a32 1] false
  | CHlDefineTraj => AEmit 8 0 [k8 6; a8 0; k8 1; a8 3; (KS U32, EArg 1); a8 2] false
  | CLocExtPos | CExtposPos => AEmit 6 0 [a32 0; a32 1; a32 2] false
  | CLocExtPose | CExtposPose => AEmit 6 1 [k8 8; a32 0; a32 1; a32 2; a32 3; a32 4; a32 5; a32 6] false
  | CLocShortLpp => AEmit 6 1 [k8 2; a8 0] true
  | CLocEmergencyStop => AEmit 6 1 [k8 3] false
  | CLocEmergencyWatchdog => AEmit 6 1 [k8 4] false
  | CLocLhPersist =>
      AIf (CListOutside 0 0 15) (ARaise EOther)
        (AIf (CListOutside 1 0 15) (ARaise EOther)
           (AEmit 6 1 [k8 11; (KS U16, EMaskOr 0); (KS U16, EMaskOr 1)] false))
  | CPlatContWave => AEmit 13 0 [(KT, EInt 0); (KT, EArg 0)] false
  | CPlatArming => AEmit 13 0 [(KT, EInt 1); (KT, EArg 0)] false
  | CPlatCrashRecovery => AEmit 13 0 [(KT, EInt 2)] false
  | CLpsSetPosition => AEmit 6 1 [k8 2; a8 0; k8 1; a32 1; a32 2; a32 3] false
  | CLpsReboot => AEmit 6 1 [k8 2; a8 0; k8 2; a8 1] false
  | CLpsSetMode => AEmit 6 1 [k8 2; a8 0; k8 3; a8 1] false
  end.

(* [scalar slots; list parameters; codec parameters; raw tail] *)
Definition fw_sig (c : cmd) : list Z :=
  match c with
  | CSetpoint | CVelocityWorld | CZDistance | CHover | CPosition => [4; 0; 0; 0]
  | CNotifyStop | CHlGroupMask | CHlStop | CPlatContWave | CPlatArming => [1; 0; 0; 0]
  | CStopSetpoint | CLocEmergencyStop | CLocEmergencyWatchdog | CPlatCrashRecovery => [0; 0; 0; 0]
  | CFullState => [12; 0; 1; 0]
  | CHlTakeoff | CHlLand | CHlDefineTraj | CLpsSetPosition => [4; 0; 0; 0]
  | CHlGoTo | CHlSpiral => [8; 0; 0; 0]
  | CHlStartTraj => [5; 0; 0; 0]
  | CLocExtPos | CExtposPos => [3; 0; 0; 0]
  | CLocExtPose | CExtposPose => [7; 0; 0; 0]
  | CLocShortLpp => [1; 0; 0; 1]
  | CLocLhPersist => [0; 2; 0; 0]
  | CLpsReboot | CLpsSetMode => [2; 0; 0; 0]
  end.
