(* C08/Property.v — property C08 (every command packet decodes to the caller's arguments under the
   firmware layout), theorems only.  impl_action / impl_sig are GENERATED from the current source
   (Gen_Layout.v) on every run; fw_table / fw_decode / api_action / fw_action are the hand-written
   specification (FwLayout.v).  run is the interpreter of Model.v over the Python value model PyVal.v. *)
From CF Require Import Common.Bytes.
From CF Require Import Common.Struct.
From CF Require Import C08.PyVal.
From CF Require Import C08.Model.
From CF Require Import C08.FwLayout.
From CF Require Import C08.Gen_Layout.
From CF Require Import C08.Proofs_a.
From CF Require Import C08.Check.
From CF Require Import C08.Proofs_core.
From CF Require Import C08.Proofs.
From Coq Require Import Floats.SpecFloat.
Open Scope Z_scope.

(* 1. The layout extracted from the source of every command method (evaluate-for-effect nodes removed)
   is the wire layout of the specification, and the argument slots are those of the specification.
   All protocol-version switches (<= 8 legacy setpoints, < 8 go-to/spiral) are conditions inside the trees. *)
Theorem C08_layout_matches_fw : forall c, strip (impl_action c) = fw_action c /\ impl_sig c = fw_sig c.
Proof. exact layout_matches_fw. Qed.
Print Assumptions C08_layout_matches_fw.

(* 2. For every command (the raw short-LPP pass-through is theorem 9), protocol version, X-mode setting
   and arguments (any ints, any binary64, bools, None): a packet that is sent is accepted by the firmware
   side under that protocol version as that command, and the decoded fields are, as numbers, the
   conversions of the caller's arguments that the method is documented to transmit (intended):
   float32 of the argument, int(x*1000) in an int16, the integer itself; the firmware's sign flips
   (pitch in RPYT, yaw rate in the three legacy setpoints) are undone; X-mode rotation, spiral clamps and
   yaw=None -> useCurrentYaw are as documented. *)
Theorem C08_decode_encode : forall c cf en p ch b, c <> CLocShortLpp ->
  run (impl_action c) cf en = Sent p ch b ->
  exists aws dws, intended c cf en = Some aws /\
                  fw_decode (c_ver cf) p ch b = Some (canon_cmd c, dws) /\
                  map canon_val dws = map canon_val aws.
Proof. exact decode_encode. Qed.
Print Assumptions C08_decode_encode.

(* 3. One packet: at most 30 payload bytes, all of them bytes, on the documented port and channel. *)
Theorem C08_payload_le_30 : forall c cf en p ch b, run (impl_action c) cf en = Sent p ch b ->
  Z.of_nat (length b) <= 30 /\ (bytes (e_tail en) -> bytes b) /\ (p, ch) = doc_port c /\ 0 <= p < 16 /\ 0 <= ch < 4.
Proof. exact payload_ok. Qed.
Print Assumptions C08_payload_le_30.

(* 4. Thrust outside 0..65535 raises (ValueError on the specification tree, which the code's tree equals up
   to evaluation-for-effect nodes); a thrust that is not an int is never sent. *)
Theorem C08_thrust_range_raises : forall cf en t,
  nth_error (e_args en) 3 = Some (PInt t) -> (t < 0 \/ 65535 < t) ->
  run (fw_action CSetpoint) cf en = Raised EValue /\ exists x, run (impl_action CSetpoint) cf en = Raised x.
Proof. exact thrust_range_raises. Qed.
Print Assumptions C08_thrust_range_raises.

Theorem C08_thrust_not_an_int_not_sent : forall cf en v p ch b,
  nth_error (e_args en) 3 = Some v -> (forall z, v <> PInt z) -> (forall z, v <> PBool z) ->
  run (impl_action CSetpoint) cf en <> Sent p ch b.
Proof. exact setpoint_thrust_nonint. Qed.
Print Assumptions C08_thrust_not_an_int_not_sent.

(* 5. Nothing is sent wrapped or clipped.  (a) if a documented field has no representation, no packet is
   sent; (b) every conversion that succeeds is inside the field's range; (c) an int argument of an integer
   field is transmitted as itself when in range and raises struct.error otherwise; floats and None raise. *)
Theorem C08_unrepresentable_raises : forall c cf en, c <> CLocShortLpp ->
  intended c cf en = None -> forall p ch b, run (impl_action c) cf en <> Sent p ch b.
Proof. exact unrepresentable_not_sent. Qed.
Print Assumptions C08_unrepresentable_raises.

Theorem C08_persist_outside_raises : forall cf en G C,
  e_lists en = [G; C] ->
  ~ (Forall (fun b => 0 <= b <= 15) G /\ Forall (fun b => 0 <= b <= 15) C) ->
  run (fw_action CLocLhPersist) cf en = Raised EOther /\ exists x, run (impl_action CLocLhPersist) cf en = Raised x.
Proof. exact persist_outside_raises. Qed.
Print Assumptions C08_persist_outside_raises.

(* 9. Short LPP pass-through: the payload is [2, destination] followed by the caller's bytes. *)
Theorem C08_short_lpp : forall cf en p ch b, run (impl_action CLocShortLpp) cf en = Sent p ch b ->
  p = 6 /\ ch = 1 /\ exists v dest, nth_error (e_args en) 0 = Some v /\ to_wire (KS U8) v = Ok dest /\
                                   0 <= dest < 256 /\ b = [2; dest] ++ e_tail en.
Proof. exact short_lpp. Qed.
Print Assumptions C08_short_lpp.

(* 14. Sessions.  The packets of a history of calls on one Crazyflie (the protocol version changing between calls:
   -1 before the firmware's answer, then the negotiated version; another version after a reconnect) are the
   pointwise runs, and each one that is sent decodes under the version in force WHEN IT WAS SENT.  That the
   methods have no other state to depend on is checked structurally by the translator on every run. *)
Theorem C08_session_decodes : forall h : list step,
  Forall2 (fun (st : step) (o : outcome) =>
             let '(cf, c, en) := st in
             o = run (impl_action c) cf en /\
             (c <> CLocShortLpp -> forall p ch b, o = Sent p ch b ->
                exists aws dws, intended c cf en = Some aws /\
                                fw_decode (c_ver cf) p ch b = Some (canon_cmd c, dws) /\
                                map canon_val dws = map canon_val aws))
          h (run_session impl_action h).
Proof. exact session_decodes. Qed.
Print Assumptions C08_session_decodes.
