(* C08/Version.v — where the protocol version that the emitting methods use comes from.
   PlatformService keeps _protocolVersion: -1 when platform information is (re)fetched, then updated from
   packets received on the platform port (13).  Model of PlatformService._platform_callback on the current
   source: only a packet on channel VERSION_COMMAND (1) whose first byte is VERSION_GET_PROTOCOL (0) and
   that carries a second byte changes the version (to that byte); every other port-13 packet - echoes of
   platform commands on channel 0 (PLATFORM_SET_CONT_WAVE has the same code 0), app-channel data (2), other
   version-channel commands, malformed packets (the IndexError is swallowed by the dispatcher) - leaves it.
   Tied to the real class differentially on every run (harness/props/c08.py, platform traffic). *)
From CF Require Import Common.Bytes.
Open Scope Z_scope.

Definition ppk : Type := Z * list Z.          (* channel, data of a packet received on port 13 *)

Definition genuine (pk : ppk) : option Z :=    (* the version a genuine protocol-version reply reports *)
  match pk with
  | (ch, c :: v :: _) => if (ch =? 1) && (c =? 0) then Some v else None
  | _ => None
  end.

(* PlatformService._platform_callback *)
Definition vstep (ver : Z) (pk : ppk) : Z :=
  let '(ch, d) := pk in
  if ch =? 1 then
    match d with
    | c :: rest => if c =? 0 then match rest with v :: _ => v | [] => ver end else ver
    | [] => ver
    end
  else ver.

Definition vrun (h : list ppk) (ver : Z) : Z := fold_left vstep h ver.

(* specification: the version in the last genuine reply of the history, else the one before it *)
Fixpoint last_genuine (h : list ppk) (ver : Z) : Z :=
  match h with
  | [] => ver
  | pk :: r => last_genuine r (match genuine pk with Some v => v | None => ver end)
  end.

(* the seeded variant: a callback that only filters the app channel out *)
Definition vstep_app_filter (ver : Z) (pk : ppk) : Z :=
  let '(ch, d) := pk in
  if ch =? 2 then ver
  else match d with
       | c :: rest => if c =? 0 then match rest with v :: _ => v | [] => ver end else ver
       | [] => ver
       end.

(* ---------------------------------------------------------------- proofs *)
Lemma vstep_genuine ver pk : vstep ver pk = match genuine pk with Some v => v | None => ver end.
Proof.
  destruct pk as [ch d]. unfold vstep, genuine.
  destruct d as [|c [|v r]]; destruct (ch =? 1); cbn [andb]; try reflexivity; destruct (c =? 0); reflexivity.
Qed.

Lemma vrun_last_genuine : forall h ver, vrun h ver = last_genuine h ver.
Proof.
  induction h as [|pk r IH]; intros ver; [reflexivity|].
  cbn [vrun fold_left last_genuine]. rewrite vstep_genuine. apply IH.
Qed.

Lemma other_traffic_keeps_version ver pk : genuine pk = None -> vstep ver pk = ver.
Proof. intros H. rewrite vstep_genuine, H. reflexivity. Qed.

Lemma noise_invisible : forall h ver, Forall (fun pk => genuine pk = None) h -> vrun h ver = ver.
Proof.
  induction h as [|pk r IH]; intros ver H; [reflexivity|]. inversion H; subst.
  cbn [vrun fold_left]. rewrite other_traffic_keeps_version by assumption. now apply IH.
Qed.

Lemma app_filter_refuted :
  exists h, fold_left vstep_app_filter h (-1) <> last_genuine h (-1) /\
            h = [(1, [0; 10]); (0, [0; 1])].
Proof. eexists. split; [|reflexivity]. vm_compute. discriminate. Qed.
