(* C08/PropertyCore.v — the theorems of property C08 that do not mention the generated layout: they are
   about the Python value model (PyVal.v), the firmware-side specification (FwLayout.v) and the CRTP header.
   Checked even when the translator fails closed.  Theorems only; all closed under the global context. *)
From CF Require Import Common.Bytes.
From CF Require Import Common.Struct.
From CF Require Import C08.PyVal.
From CF Require Import C08.Model.
From CF Require Import C08.FwLayout.
From CF Require Import C08.Proofs_a.
From CF Require Import C08.Check.
From CF Require Import C08.Proofs_core.
From Coq Require Import Floats.SpecFloat.
Open Scope Z_scope.

Theorem C08_conversion_in_range : forall k v w, to_wire k v = Ok w -> fld_lo (conv_fld k) <= w < fld_hi (conv_fld k).
Proof. exact conversion_in_range. Qed.
Print Assumptions C08_conversion_in_range.

Theorem C08_integer_fields_exact : forall f z, is_float_fld f = false -> f <> Bool8 ->
  (fld_lo f <= z < fld_hi f -> to_wire (KS f) (PInt z) = Ok z) /\
  (~ (fld_lo f <= z < fld_hi f) -> to_wire (KS f) (PInt z) = Raise EStruct) /\
  (forall d, to_wire (KS f) (PFloat d) = Raise EStruct) /\ to_wire (KS f) PNone = Raise EStruct.
Proof. exact integer_fields_exact. Qed.
Print Assumptions C08_integer_fields_exact.

(* 6. Header byte: lossless for all 16 x 4 port/channel pairs, reserved bits 11. *)
Theorem C08_header_lossless : forall p c, 0 <= p < 16 -> 0 <= c < 4 ->
  let h := crtp_header p c in
  crtp_port h = p /\ crtp_chan h = c /\ 0 <= h < 256 /\ Z.land (Z.shiftr h 2) 3 = 3.
Proof. exact header_lossless. Qed.
Print Assumptions C08_header_lossless.

(* 7. Client X-mode: what send_setpoint is documented to transmit is (roll, pitch, yawrate, thrust), or with
   X-mode on (0.707*(roll-pitch), 0.707*(roll+pitch), yawrate, thrust) in binary64 arithmetic. *)
Theorem C08_xmode : forall cf en,
  intended CSetpoint cf en =
  match (if c_xmode cf
         then vals en [(KS F32, xm_roll); (KS F32, xm_pitch); (KS F32, EArg 2); (KS U16, EArg 3)]
         else vals en [(KS F32, EArg 0); (KS F32, EArg 1); (KS F32, EArg 2); (KS U16, EArg 3)])
  with Ok ws => Some ws | Raise _ => None end.
Proof. exact xmode_intended. Qed.
Print Assumptions C08_xmode.

(* 8. Lighthouse persist: bit b of a mask is set iff b is in the list; what is sent are exactly these masks;
   a list with an entry outside 0..15 raises. *)
Theorem C08_persist_masks : forall l i, Forall (fun b => 0 <= b) l -> 0 <= i ->
  (Z.testbit (mask_or l) i = true <-> In i l).
Proof. exact mask_or_bits. Qed.
Print Assumptions C08_persist_masks.

Theorem C08_persist_sends_masks : forall cf en G C aws,
  e_lists en = [G; C] -> intended CLocLhPersist cf en = Some aws ->
  aws = [(U16, mask_or G); (U16, mask_or C)] /\ Forall (fun b => 0 <= b) G /\ Forall (fun b => 0 <= b) C /\
  0 <= mask_or G < 65536 /\ 0 <= mask_or C < 65536.
Proof. exact persist_intended. Qed.
Print Assumptions C08_persist_sends_masks.

(* 10. Fixed point: int(y) of a finite binary64 y = (-1)^s m 2^e truncates toward zero, error below one unit;
   NaN and infinities raise.  (y is the binary64 product x*1000 of the model.) *)
Theorem C08_fixed_point_truncates : forall s m e,
  py_int (PFloat (S754_finite s m e)) = Ok (PInt (trunc_sf s m e)) /\
  let n := trunc_sf s m e in
  (0 <= e -> n = (if s then -1 else 1) * (Zpos m * 2 ^ e)) /\
  (e < 0 -> Z.abs n * 2 ^ (- e) <= Zpos m < (Z.abs n + 1) * 2 ^ (- e)) /\
  (if s then n <= 0 else 0 <= n).
Proof. exact fixed_point_truncates. Qed.
Print Assumptions C08_fixed_point_truncates.

(* 11. Sign conventions: the float32 pattern of -x, negated again by the firmware, is the pattern of x
   (as a number: NaN stays NaN, the two zeros are equal); -x is sent iff x can be sent. *)
Theorem C08_float_negation : forall v v' w', py_neg v = Ok v' -> wire_f32 v' = Ok w' ->
  exists w, wire_f32 v = Ok w /\ canon32 (flip32 w') = canon32 w.
Proof. exact wire_f32_neg. Qed.
Print Assumptions C08_float_negation.

(* 12. The firmware side knows the un-negated setpoint types 8, 9, 10 only from protocol version 9 on and
   go-to-2 / spiral only from version 8 on: a library that used them earlier would not be understood. *)
Theorem C08_new_types_need_new_firmware : forall ver t rest,
  (ver < 9 -> (t = 8 \/ t = 9 \/ t = 10) -> fw_decode ver 7 0 (t :: rest) = None) /\
  (ver < 8 -> (t = 11 \/ t = 12) -> fw_decode ver 8 0 (t :: rest) = None).
Proof. exact new_types_need_new_firmware. Qed.
Print Assumptions C08_new_types_need_new_firmware.

(* 13. Float32 resolution: a caller's float whose value is a normal binary32 number (-1)^s * k * 2^e (k a 24-bit
   mantissa; as a binary64 its mantissa is k * 2^29 = widen k and its exponent e - 29) is transmitted without
   error, as the IEEE-754 binary32 encoding of that number; so are zeros, infinities and NaN.  Every other
   finite float goes through the standard library's round-to-nearest-even (binary_round 24 128) or raises
   OverflowError when that rounds to infinity (definition of f32_of_sf64). *)
Theorem C08_float32_values_exact : forall s k e,
  digits2_pos k = 24%positive -> -149 <= e <= 104 ->
  f32_of_sf64 (S754_finite s (widen k) (e - 29)) = Ok (sign32 s + ((e + 150) * 8388608 + (Zpos k - 8388608))) /\
  8388608 <= Zpos k < 16777216 /\ 1 <= e + 150 <= 254.
Proof. exact f32_exact. Qed.
Print Assumptions C08_float32_values_exact.

Theorem C08_float32_specials_exact :
  (forall s, f32_of_sf64 (S754_zero s) = Ok (sign32 s)) /\
  (forall s, f32_of_sf64 (S754_infinity s) = Ok (sign32 s + inf32)) /\
  f32_of_sf64 S754_nan = Ok nan32.
Proof. exact f32_exact_special. Qed.
Print Assumptions C08_float32_specials_exact.

(* Spiral saturation and NaN.  With NaN for angle, r0 and rF (protocol version >= 8) every comparison of the saturation
   is false: the specification tree sends the arguments unchanged, the documented meaning is the unchanged arguments,
   and a NaN argument is transmitted as NaN (the float field decodes to the caller's argument). *)
Theorem C08_spiral_nan_passes_through : forall cf en,
  8 <= c_ver cf ->
  nth_error (e_args en) 0 = Some nan_arg -> nth_error (e_args en) 1 = Some nan_arg ->
  nth_error (e_args en) 2 = Some nan_arg ->
  run (fw_action CHlSpiral) cf en = emit en 8 0 [k8 11; a8 7; a8 5; a8 6; a32 0; a32 1; a32 2; a32 3; a32 4] false /\
  run_api (api_action CHlSpiral) cf en =
    match vals en [a8 7; a8 5; a8 6; a32 0; a32 1; a32 2; a32 3; a32 4] with Ok ws => Some ws | Raise _ => None end /\
  to_wire (KS F32) nan_arg = Ok nan32.
Proof. exact spiral_nan_passes_through. Qed.
Print Assumptions C08_spiral_nan_passes_through.

(* The comparison-based saturation of the source keeps NaN; a saturation max(lower, min(upper, value)) with Python's
   min/max (first argument wins when the comparison is false) is refuted: NaN becomes +2*pi (0x40c90fdb on the wire),
   and NaN with limits [0, inf) becomes +inf. *)
Theorem C08_saturation_on_nan_refutes_minmax :
  saturate_cmp nan_arg pf_minus_two_pi pf_two_pi = Ok nan_arg /\
  saturate_minmax nan_arg pf_minus_two_pi pf_two_pi = Ok pf_two_pi /\
  bind (saturate_cmp nan_arg pf_minus_two_pi pf_two_pi) (to_wire (KS F32)) = Ok nan32 /\
  bind (saturate_minmax nan_arg pf_minus_two_pi pf_two_pi) (to_wire (KS F32)) = Ok 1086918619 /\
  saturate_minmax nan_arg (PFloat (S754_zero false)) (PFloat (S754_infinity false)) = Ok (PFloat (S754_infinity false)).
Proof. exact saturation_on_nan. Qed.
Print Assumptions C08_saturation_on_nan_refutes_minmax.
