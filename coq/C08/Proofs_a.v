(* C08/Proofs_a.v — facts about the Python value model (PyVal.v): every conversion that succeeds yields
   a value inside the field's range; integers are never wrapped or clipped; float32 negation commutes
   with the conversion; int() truncates toward zero. *)
From CF Require Import Common.Bytes.
From CF Require Import Common.Struct.
From CF Require Import C08.PyVal.
From CF Require Import C08.Model.
From CF Require Import C08.FwLayout.
From Coq Require Import Floats.SpecFloat.
From Coq Require Import ZifyBool.
Ltac Zify.zify_post_hook ::= Z.to_euclidean_division_equations.
Open Scope Z_scope.

(* ---------------------------------------------------------------- ranges *)
Lemma sign32_cases s : sign32 s = 0 \/ sign32 s = 2147483648.
Proof. destruct s; [right|left]; reflexivity. Qed.

Lemma mag32_range m e : 0 <= mag32 m e < 2147483648.
Proof. unfold mag32. apply Z.mod_pos_bound. lia. Qed.

Lemma bits32_range x : 0 <= bits32_of_sf x < 4294967296.
Proof.
  destruct x as [s|s| |s m e]; cbn [bits32_of_sf].
  - destruct (sign32_cases s) as [-> | ->]; lia.
  - unfold inf32. destruct (sign32_cases s) as [-> | ->]; lia.
  - unfold nan32. lia.
  - pose proof (mag32_range m e). destruct (sign32_cases s) as [-> | ->]; lia.
Qed.

Lemma f32_of_sf64_range d w : f32_of_sf64 d = Ok w -> 0 <= w < 4294967296.
Proof.
  unfold f32_of_sf64. destruct d as [s|s| |s m e].
  - intros [= <-]. apply (bits32_range (S754_zero s)).
  - intros [= <-]. apply (bits32_range (S754_infinity s)).
  - intros [= <-]. apply (bits32_range S754_nan).
  - destruct (binary_round 24 128 s m e) as [s0|s0| |s0 m0 e0] eqn:E; try discriminate; intros [= <-].
    + apply (bits32_range (S754_zero s0)).
    + apply (bits32_range S754_nan).
    + apply (bits32_range (S754_finite s0 m0 e0)).
Qed.

Lemma wire_f32_range v w : wire_f32 v = Ok w -> 0 <= w < 4294967296.
Proof.
  destruct v as [z|b|d|]; cbn [wire_f32].
  - destruct (sf64_of_Z z) as [d|]; [|discriminate].
    destruct (f32_of_sf64 d) as [w0|x] eqn:E; [|discriminate]. intros [= <-]. eapply f32_of_sf64_range, E.
  - destruct b; intros [= <-]; lia.
  - apply f32_of_sf64_range.
  - discriminate.
Qed.

Lemma wire_int_ok f v w : wire_int f v = Ok w -> is_float_fld f = false -> fld_ok f w = true.
Proof.
  destruct v as [z|b|d|]; cbn [wire_int]; try discriminate.
  - destruct (fld_ok f z) eqn:E; [|discriminate]. intros [= <-] _. exact E.
  - intros [= <-] _. destruct b, f; reflexivity.
Qed.

(* every successful conversion lands inside the field: nothing is sent wrapped *)
Lemma to_wire_ok k v w : to_wire k v = Ok w -> fld_ok (conv_fld k) w = true.
Proof.
  destruct k as [f|]; cbn [to_wire conv_fld].
  - destruct f; try discriminate;
      try (intros H; apply (wire_int_ok _ _ _ H); reflexivity).
    + (* F32 *) intros H. apply wire_f32_range in H. unfold fld_ok, fld_lo, fld_hi. cbn. lia.
    + (* Bool8 *) intros [= <-]. destruct (py_truth v); reflexivity.
  - destruct v as [z|b|d|]; cbn [wire_tuple]; try discriminate.
    + destruct ((0 <=? z) && (z <? 256)) eqn:E; [|discriminate]. intros [= <-].
      unfold fld_ok, fld_lo, fld_hi. cbn. lia.
    + intros [= <-]. destruct b; reflexivity.
Qed.

(* integer codes: an int argument is sent as itself or not at all *)
Lemma wire_int_exact f z : is_float_fld f = false -> f <> Bool8 ->
  (fld_lo f <= z < fld_hi f -> to_wire (KS f) (PInt z) = Ok z) /\
  (~ (fld_lo f <= z < fld_hi f) -> to_wire (KS f) (PInt z) = Raise EStruct).
Proof.
  intros Hf Hb. assert (E : to_wire (KS f) (PInt z) = if fld_ok f z then Ok z else Raise EStruct).
  { destruct f; try discriminate; try contradiction; reflexivity. }
  rewrite E. unfold fld_ok. split; intros H.
  - replace ((fld_lo f <=? z) && (z <? fld_hi f)) with true by lia. reflexivity.
  - replace ((fld_lo f <=? z) && (z <? fld_hi f)) with false by lia. reflexivity.
Qed.

Lemma wire_int_nonint f d : is_float_fld f = false -> f <> Bool8 ->
  to_wire (KS f) (PFloat d) = Raise EStruct /\ to_wire (KS f) PNone = Raise EStruct.
Proof. intros Hf Hb. destruct f; try discriminate; try contradiction; split; reflexivity. Qed.

(* ---------------------------------------------------------------- negation *)
Lemma binary_round_aux_opp s mx ex lx :
  binary_round_aux 24 128 (negb s) mx ex lx = SFopp (binary_round_aux 24 128 s mx ex lx).
Proof.
  unfold binary_round_aux.
  destruct (shr_fexp 24 128 mx ex lx) as [mrs' e'].
  destruct (shr_fexp 24 128 (round_nearest_even (shr_m mrs') (loc_of_shr_record mrs')) e' loc_Exact) as [mrs'' e''].
  destruct (shr_m mrs''); try reflexivity.
  destruct (Zle_bool e'' (128 - 24)); reflexivity.
Qed.

Lemma binary_round_opp s m e :
  binary_round 24 128 (negb s) m e = SFopp (binary_round 24 128 s m e).
Proof.
  unfold binary_round. destruct (shl_align m e (fexp 24 128 (Z.pos (digits2_pos m) + e))) as [mz ez].
  apply binary_round_aux_opp.
Qed.

Lemma binary_round_aux_opp64 s mx ex lx :
  binary_round_aux 53 1024 (negb s) mx ex lx = SFopp (binary_round_aux 53 1024 s mx ex lx).
Proof.
  unfold binary_round_aux.
  destruct (shr_fexp 53 1024 mx ex lx) as [mrs' e'].
  destruct (shr_fexp 53 1024 (round_nearest_even (shr_m mrs') (loc_of_shr_record mrs')) e' loc_Exact) as [mrs'' e''].
  destruct (shr_m mrs''); try reflexivity.
  destruct (Zle_bool e'' (1024 - 53)); reflexivity.
Qed.

Lemma binary_round_opp64 s m e :
  binary_round 53 1024 (negb s) m e = SFopp (binary_round 53 1024 s m e).
Proof.
  unfold binary_round. destruct (shl_align m e (fexp 53 1024 (Z.pos (digits2_pos m) + e))) as [mz ez].
  apply binary_round_aux_opp64.
Qed.

Lemma sign32_negb s : sign32 (negb s) = flip32 (sign32 s).
Proof. destruct s; reflexivity. Qed.

Lemma flip_sign_plus s x : 0 <= x < 2147483648 -> flip32 (sign32 (negb s) + x) = sign32 s + x.
Proof. intros H. unfold flip32. destruct s; cbn [negb sign32]; destruct (_ <? _) eqn:E; lia. Qed.

(* the pattern of the negated value, flipped back, is the pattern of the value (NaN stays NaN) *)
Lemma bits32_opp x : x <> S754_nan -> flip32 (bits32_of_sf (SFopp x)) = bits32_of_sf x.
Proof.
  destruct x as [s|s| |s m e]; intros Hn; cbn [SFopp bits32_of_sf].
  - replace (sign32 (negb s)) with (sign32 (negb s) + 0) by lia. rewrite flip_sign_plus by lia. lia.
  - apply flip_sign_plus. unfold inf32. lia.
  - contradiction.
  - apply flip_sign_plus. apply mag32_range.
Qed.

Lemma canon_flip_nan : canon32 (flip32 nan32) = canon32 nan32.
Proof. vm_compute. reflexivity. Qed.

Lemma f32_of_sf64_opp d w' :
  f32_of_sf64 (SFopp d) = Ok w' ->
  exists w, f32_of_sf64 d = Ok w /\ canon32 (flip32 w') = canon32 w.
Proof.
  destruct d as [s|s| |s m e]; cbn [SFopp f32_of_sf64].
  - intros [= <-]. eexists. split; [reflexivity|]. f_equal.
    apply (bits32_opp (S754_zero s)). discriminate.
  - intros [= <-]. eexists. split; [reflexivity|]. f_equal.
    apply (bits32_opp (S754_infinity s)). discriminate.
  - intros [= <-]. eexists. split; [reflexivity|]. apply canon_flip_nan.
  - rewrite binary_round_opp. destruct (binary_round 24 128 s m e) as [s0|s0| |s0 m0 e0] eqn:E; cbn [SFopp].
    + intros [= <-]. eexists. split; [reflexivity|]. f_equal.
      apply (bits32_opp (S754_zero s0)). discriminate.
    + discriminate.
    + intros [= <-]. eexists. split; [reflexivity|]. apply canon_flip_nan.
    + intros [= <-]. eexists. split; [reflexivity|]. f_equal.
      apply (bits32_opp (S754_finite s0 m0 e0)). discriminate.
Qed.

Lemma sf64_of_Z_opp z : z <> 0 ->
  sf64_of_Z (- z) = option_map (SFopp) (sf64_of_Z z).
Proof.
  intros Hz. unfold sf64_of_Z, binary_normalize. destruct z as [|p|p]; [contradiction| |]; cbn [Z.opp].
  - change (binary_round 53 1024 true p 0) with (binary_round 53 1024 (negb false) p 0).
    rewrite binary_round_opp64.
    destruct (binary_round 53 1024 false p 0); reflexivity.
  - change (binary_round 53 1024 false p 0) with (binary_round 53 1024 (negb true) p 0).
    rewrite binary_round_opp64.
    destruct (binary_round 53 1024 true p 0); reflexivity.
Qed.

(* struct.pack('f', -x) decoded and negated again by the firmware is struct.pack('f', x) *)
Lemma wire_f32_neg v v' w' :
  py_neg v = Ok v' -> wire_f32 v' = Ok w' ->
  exists w, wire_f32 v = Ok w /\ canon32 (flip32 w') = canon32 w.
Proof.
  destruct v as [z|b|d|]; cbn [py_neg num_of bind]; try discriminate.
  - intros [= <-]. cbn [wire_f32].
    destruct (Z.eq_dec z 0) as [->|Hz].
    + cbn. intros [= <-]. eexists. split; [reflexivity|]. vm_compute. reflexivity.
    + rewrite (sf64_of_Z_opp z Hz). destruct (sf64_of_Z z) as [d|]; cbn [option_map]; [|discriminate].
      destruct (f32_of_sf64 (SFopp d)) as [w0|x] eqn:E; [|discriminate]. intros [= <-].
      destruct (f32_of_sf64_opp d w0 E) as [w [Hw Hc]]. exists w. rewrite Hw. split; [reflexivity|exact Hc].
  - intros [= <-]. destruct b; cbn; intros [= <-]; eexists; (split; [reflexivity|]); vm_compute; reflexivity.
  - intros [= <-]. cbn [wire_f32]. apply f32_of_sf64_opp.
Qed.

(* ---------------------------------------------------------------- int(): truncation toward zero *)
(* |n| <= |value| < |n| + 1 and the sign is that of the value; value = (-1)^s * m * 2^e *)
Lemma trunc_sf_spec s m e :
  let n := trunc_sf s m e in
  (0 <= e -> n = (if s then -1 else 1) * (Zpos m * 2 ^ e)) /\
  (e < 0 -> Z.abs n * 2 ^ (- e) <= Zpos m < (Z.abs n + 1) * 2 ^ (- e)) /\
  (if s then n <= 0 else 0 <= n).
Proof.
  cbv zeta. unfold trunc_sf.
  destruct (0 <=? e) eqn:E.
  - assert (0 <= 2 ^ e) by (apply Z.pow_nonneg; lia).
    repeat split; try lia; destruct s; nia.
  - assert (Hp : 0 < 2 ^ (- e)) by (apply Z.pow_pos_nonneg; lia).
    set (q := 2 ^ (- e)) in *.
    assert (Hd : 0 <= Zpos m / q) by (apply Z.div_pos; lia).
    pose proof (Z.mul_div_le (Zpos m) q Hp) as H1.
    pose proof (Z.mul_succ_div_gt (Zpos m) q Hp) as H2.
    repeat split; try lia; destruct s; try lia;
      rewrite ?Z.abs_opp, Z.abs_eq by lia; nia.
Qed.

(* ---------------------------------------------------------------- float32 values are transmitted exactly *)
(* k * 2^29 as a positive: a 24-bit mantissa widened to the 53 bits of a normal binary64 *)
Definition widen (k : positive) : positive := Pos.iter xO k 29.

Lemma digits_widen k : digits2_pos (widen k) = (digits2_pos k + 29)%positive.
Proof. unfold widen. cbn [Pos.iter]. cbn [digits2_pos]. lia. Qed.

Lemma widen_value k : Zpos (widen k) = Zpos k * 2 ^ 29.
Proof. unfold widen. cbn [Pos.iter]. lia. Qed.

Lemma round_exact s k ee :
  digits2_pos k = 24%positive -> -149 <= ee + 29 <= 104 ->
  binary_round 24 128 s (widen k) ee = S754_finite s k (ee + 29).
Proof.
  intros Hd He. unfold binary_round.
  rewrite digits_widen, Hd.
  assert (F1 : fexp 24 128 (Z.pos (24 + 29) + ee) = ee + 29) by (unfold fexp, emin; lia).
  rewrite F1. unfold shl_align.
  replace (ee + 29 - ee) with 29 by lia. cbv iota beta.
  unfold binary_round_aux, shr_fexp. cbn [Zdigits2]. rewrite digits_widen, Hd, F1.
  replace (ee + 29 - ee) with 29 by lia.
  unfold shr. cbn [shr_record_of_loc].
  unfold widen. cbn [Pos.iter iter_pos shr_1 orb].
  cbn [shr_m loc_of_shr_record round_nearest_even Zdigits2]. rewrite Hd.
  assert (F2 : fexp 24 128 (Z.pos 24 + (ee + 29)) - (ee + 29) = 0) by (unfold fexp, emin; lia).
  rewrite F2. cbn [shr_m].
  replace (ee + 29 <=? 128 - 24) with true by lia. reflexivity.
Qed.

Lemma digits2_bounds p : 2 ^ (Zpos (digits2_pos p) - 1) <= Zpos p < 2 ^ (Zpos (digits2_pos p)).
Proof.
  induction p as [p IH|p IH|]; cbn [digits2_pos].
  - rewrite Pos2Z.inj_succ. replace (Z.succ (Z.pos (digits2_pos p)) - 1) with (Z.succ (Z.pos (digits2_pos p) - 1)) by lia.
    rewrite !Z.pow_succ_r by lia. lia.
  - rewrite Pos2Z.inj_succ. replace (Z.succ (Z.pos (digits2_pos p)) - 1) with (Z.succ (Z.pos (digits2_pos p) - 1)) by lia.
    rewrite !Z.pow_succ_r by lia. lia.
  - cbn. lia.
Qed.

(* A caller's float whose value is a normal binary32 number (-1)^s * k * 2^e, k a 24-bit mantissa,
   -149 <= e <= 104) is converted without error: the field is the IEEE-754 binary32 encoding of exactly
   that number (sign, biased exponent e + 150, fraction k - 2^23); zeros, infinities and NaN likewise. *)
Lemma f32_exact s k e :
  digits2_pos k = 24%positive -> -149 <= e <= 104 ->
  f32_of_sf64 (S754_finite s (widen k) (e - 29)) = Ok (sign32 s + ((e + 150) * 8388608 + (Zpos k - 8388608))) /\
  8388608 <= Zpos k < 16777216 /\ 1 <= e + 150 <= 254.
Proof.
  intros Hd He. pose proof (digits2_bounds k) as B. rewrite Hd in B. cbn in B.
  split; [|lia]. unfold f32_of_sf64. rewrite round_exact by (assumption || lia).
  replace (e - 29 + 29) with e by lia. cbn [bits32_of_sf]. unfold mag32.
  replace (Z.pos k <? 8388608) with false by lia.
  rewrite Z.mod_small by lia. reflexivity.
Qed.

Lemma f32_exact_special :
  (forall s, f32_of_sf64 (S754_zero s) = Ok (sign32 s)) /\
  (forall s, f32_of_sf64 (S754_infinity s) = Ok (sign32 s + inf32)) /\
  f32_of_sf64 S754_nan = Ok nan32.
Proof. repeat split. Qed.
