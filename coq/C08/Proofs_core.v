(* C08/Proofs_core.v — proofs that do NOT depend on the generated layout (Gen_Layout.v): header byte,
   conversions, lighthouse masks, documented meaning of send_setpoint, firmware-side version gating, the
   thrust guard of the specification tree.  They are still checked when the translator fails closed. *)
From CF Require Import Common.Bytes.
From CF Require Import Common.Struct.
From CF Require Import C08.PyVal.
From CF Require Import C08.Model.
From CF Require Import C08.FwLayout.
From CF Require Import C08.Proofs_a.
From CF Require Import C08.Check.
From Coq Require Import Floats.SpecFloat.
From Coq Require Import ZifyBool.
Ltac Zify.zify_post_hook ::= Z.to_euclidean_division_equations.
Open Scope Z_scope.

Fixpoint zrange (a : Z) (n : nat) : list Z :=
  match n with O => [] | S k => a :: zrange (a + 1) k end.

Lemma zrange_In a n z : In z (zrange a n) <-> a <= z < a + Z.of_nat n.
Proof.
  revert a; induction n as [|n IH]; intros a; cbn [zrange In].
  - lia.
  - rewrite IH. lia.
Qed.

Definition header_ok (p c : Z) : bool :=
  let h := crtp_header p c in
  (crtp_port h =? p) && (crtp_chan h =? c) && (0 <=? h) && (h <? 256) && (Z.land (Z.shiftr h 2) 3 =? 3).

Lemma header_all : forallb (fun p => forallb (header_ok p) (zrange 0 4)) (zrange 0 16) = true.
Proof. vm_compute. reflexivity. Qed.

Lemma header_lossless p c : 0 <= p < 16 -> 0 <= c < 4 ->
  let h := crtp_header p c in
  crtp_port h = p /\ crtp_chan h = c /\ 0 <= h < 256 /\ Z.land (Z.shiftr h 2) 3 = 3.
Proof.
  intros Hp Hc. pose proof header_all as H. rewrite forallb_forall in H.
  specialize (H p). rewrite zrange_In in H. specialize (H ltac:(lia)).
  rewrite forallb_forall in H. specialize (H c). rewrite zrange_In in H. specialize (H ltac:(lia)).
  unfold header_ok in H. cbv zeta. lia.
Qed.

Lemma setpoint_spec_thrust_raises cf en t :
  nth_error (e_args en) 3 = Some (PInt t) -> (t < 0 \/ 65535 < t) ->
  run (fw_action CSetpoint) cf en = Raised EValue.
Proof.
  intros Ha Ht. cbn [fw_action run eval_cond eval]. rewrite Ha. cbn [bind py_gt py_lt py_cmp num_of].
  destruct (t ?= 65535) eqn:E1; cbn [bind].
  - apply Z.compare_eq in E1. cbn [py_lt py_cmp bind num_of eval]. destruct (t ?= 0) eqn:E0; try reflexivity;
      rewrite ?Z.compare_eq_iff, ?Z.compare_gt_iff in E0; lia.
  - rewrite Z.compare_lt_iff in E1. destruct (t ?= 0) eqn:E0; try reflexivity;
      rewrite ?Z.compare_eq_iff, ?Z.compare_gt_iff in E0; lia.
  - reflexivity.
Qed.

Lemma testbit_1 k : Z.testbit 1 k = (k =? 0).
Proof. destruct k as [|q|q]; reflexivity. Qed.

Lemma testbit_shl1 b i : 0 <= b -> 0 <= i -> Z.testbit (Z.shiftl 1 b) i = (i =? b).
Proof.
  intros Hb Hi. rewrite Z.shiftl_spec by lia. rewrite testbit_1.
  destruct (i - b =? 0) eqn:E1, (i =? b) eqn:E2; try reflexivity; lia.
Qed.

Lemma mask_or_acc l : forall acc i, Forall (fun b => 0 <= b) l -> 0 <= i ->
  Z.testbit (fold_left (fun m b => Z.lor m (Z.shiftl 1 b)) l acc) i = Z.testbit acc i || existsb (Z.eqb i) l.
Proof.
  induction l as [|b l IH]; intros acc i Hl Hi; cbn [fold_left existsb].
  - now rewrite orb_false_r.
  - inversion Hl as [|? ? Hb Hl']; subst. rewrite IH by assumption.
    rewrite Z.lor_spec, testbit_shl1 by lia. now rewrite orb_assoc.
Qed.

Lemma mask_or_bits l i : Forall (fun b => 0 <= b) l -> 0 <= i ->
  (Z.testbit (mask_or l) i = true <-> In i l).
Proof.
  intros Hl Hi. unfold mask_or. rewrite mask_or_acc by assumption. rewrite Z.bits_0, orb_false_l.
  rewrite existsb_exists. split.
  - intros (x & Hx & E). apply Z.eqb_eq in E. now subst.
  - intros H. exists i. split; [exact H|apply Z.eqb_refl].
Qed.

Lemma list_outside_spec L lo hi : L <> [] ->
  ((list_min L <? lo) || (hi <? list_max L) = false <-> Forall (fun b => lo <= b <= hi) L).
Proof.
  intros Hne. unfold list_min, list_max.
  assert (G : forall d, (fold_right Z.min d L <? lo) || (hi <? fold_right Z.max d L) = false <->
                        (lo <= d <= hi /\ Forall (fun b => lo <= b <= hi) L)).
  { induction L as [|x L IH]; intros d; cbn [fold_right].
    - split; [intros H; split; [lia|constructor]|intros [H _]; lia].
    - destruct L as [|y L'].
      + cbn [fold_right]. split.
        * intros H. split; [lia|]. constructor; [lia|constructor].
        * intros [H1 H2]. inversion H2; subst. lia.
      + specialize (IH ltac:(discriminate) d). split.
        * intros H. assert (H' : (fold_right Z.min d (y :: L') <? lo) || (hi <? fold_right Z.max d (y :: L')) = false) by lia.
          apply IH in H'. destruct H' as [Hd HF]. split; [exact Hd|]. constructor; [lia|exact HF].
        * intros [Hd HF]. inversion HF as [|? ? Hx HF']; subst.
          pose proof (proj2 IH (conj Hd HF')) as H'. lia. }
  destruct L as [|x L]; [contradiction|]. cbn [hd]. rewrite G. split.
  - intros [_ H]. exact H.
  - intros H. split; [|exact H]. inversion H; subst. assumption.
Qed.

Lemma in_range_dec (G : list Z) :
  {Forall (fun b => 0 <= b <= 15) G} + {~ Forall (fun b => 0 <= b <= 15) G}.
Proof. apply Forall_dec. intros x. destruct (Z_le_dec 0 x), (Z_le_dec x 15); (left; lia) || (right; lia). Qed.

Lemma list_outside_eval cf en l L :
  nth_error (e_lists en) l = Some L ->
  eval_cond cf en (CListOutside l 0 15) = Ok (if in_range_dec L then false else true).
Proof.
  intros H. cbn [eval_cond]. rewrite H. destruct L as [|x L'].
  - destruct (in_range_dec []) as [_|N]; [reflexivity|]. exfalso. apply N. constructor.
  - pose proof (list_outside_spec (x :: L') 0 15 ltac:(discriminate)) as S.
    destruct (in_range_dec (x :: L')) as [Y|N].
    + f_equal. apply S, Y.
    + f_equal. destruct ((list_min (x :: L') <? 0) || (15 <? list_max (x :: L'))) eqn:E; [reflexivity|].
      exfalso. apply N. apply S. reflexivity.
Qed.

Lemma forallb_nonneg l : forallb (fun b => 0 <=? b) l = true -> Forall (fun b => 0 <= b) l.
Proof. rewrite forallb_forall, Forall_forall. intros H x Hx. specialize (H x Hx). lia. Qed.

(* what the firmware must end up with: exactly the OR-masks, never wrapped *)
Lemma persist_intended cf en G C aws :
  e_lists en = [G; C] -> intended CLocLhPersist cf en = Some aws ->
  aws = [(U16, mask_or G); (U16, mask_or C)] /\ Forall (fun b => 0 <= b) G /\ Forall (fun b => 0 <= b) C /\
  0 <= mask_or G < 65536 /\ 0 <= mask_or C < 65536.
Proof.
  intros He. unfold intended. cbn [api_action api run_api eval_fields eval bind]. rewrite He. cbn [nth_error].
  destruct (forallb (fun b => 0 <=? b) G) eqn:EG; cbn [bind]; [|discriminate].
  destruct (forallb (fun b => 0 <=? b) C) eqn:EC; cbn [bind]; [|discriminate].
  cbn [convert_fields to_wire wire_int bind].
  destruct (fld_ok U16 (mask_or G)) eqn:FG; cbn [bind]; [|discriminate].
  destruct (fld_ok U16 (mask_or C)) eqn:FC; cbn [bind]; [|discriminate].
  intros [= <-]. unfold fld_ok in FG, FC. cbn in FG, FC.
  repeat split; try (apply forallb_nonneg; assumption); try reflexivity; lia.
Qed.

Lemma xmode_intended cf en :
  intended CSetpoint cf en =
  match (if c_xmode cf
         then vals en [(KS F32, xm_roll); (KS F32, xm_pitch); (KS F32, EArg 2); (KS U16, EArg 3)]
         else vals en [(KS F32, EArg 0); (KS F32, EArg 1); (KS F32, EArg 2); (KS U16, EArg 3)])
  with Ok ws => Some ws | Raise _ => None end.
Proof. unfold intended. cbn [api_action run_api eval_cond]. destruct (c_xmode cf); reflexivity. Qed.

Lemma py_int_finite s m e :
  py_int (PFloat (S754_finite s m e)) = Ok (PInt (trunc_sf s m e)) /\
  py_int (PFloat S754_nan) = Raise EValue /\
  (forall s', py_int (PFloat (S754_infinity s')) = Raise EOverflow).
Proof. repeat split. Qed.

Lemma new_types_need_v9 ver t rest : ver < 9 -> (t = 8 \/ t = 9 \/ t = 10) ->
  fw_decode ver 7 0 (t :: rest) = None.
Proof.
  intros Hv Ht. unfold fw_decode. cbn [untagged needs_t2 nth].
  destruct Ht as [->|[->| ->]]; cbn; unfold ver_knows;
    (replace (9 <=? ver) with false by lia); reflexivity.
Qed.

Lemma go_to_2_needs_v8 ver t rest : ver < 8 -> (t = 11 \/ t = 12) -> fw_decode ver 8 0 (t :: rest) = None.
Proof.
  intros Hv Ht. unfold fw_decode. cbn [untagged needs_t2 nth].
  destruct Ht as [->| ->]; cbn; unfold ver_knows; (replace (8 <=? ver) with false by lia); reflexivity.
Qed.

Lemma conversion_in_range : forall k v w, to_wire k v = Ok w -> fld_lo (conv_fld k) <= w < fld_hi (conv_fld k).
Proof. intros k v w H. apply to_wire_ok in H. unfold fld_ok in H. lia. Qed.

Lemma integer_fields_exact : forall f z, is_float_fld f = false -> f <> Bool8 ->
  (fld_lo f <= z < fld_hi f -> to_wire (KS f) (PInt z) = Ok z) /\
  (~ (fld_lo f <= z < fld_hi f) -> to_wire (KS f) (PInt z) = Raise EStruct) /\
  (forall d, to_wire (KS f) (PFloat d) = Raise EStruct) /\ to_wire (KS f) PNone = Raise EStruct.
Proof.
  intros f z Hf Hb. destruct (wire_int_exact f z Hf Hb) as [A B].
  repeat split; try assumption.
  - intros d. apply (wire_int_nonint f d Hf Hb).
  - apply (wire_int_nonint f S754_nan Hf Hb).
Qed.

Lemma fixed_point_truncates : forall s m e,
  py_int (PFloat (S754_finite s m e)) = Ok (PInt (trunc_sf s m e)) /\
  let n := trunc_sf s m e in
  (0 <= e -> n = (if s then -1 else 1) * (Zpos m * 2 ^ e)) /\
  (e < 0 -> Z.abs n * 2 ^ (- e) <= Zpos m < (Z.abs n + 1) * 2 ^ (- e)) /\
  (if s then n <= 0 else 0 <= n).
Proof. intros s m e. split; [reflexivity|apply trunc_sf_spec]. Qed.

Lemma new_types_need_new_firmware : forall ver t rest,
  (ver < 9 -> (t = 8 \/ t = 9 \/ t = 10) -> fw_decode ver 7 0 (t :: rest) = None) /\
  (ver < 8 -> (t = 11 \/ t = 12) -> fw_decode ver 8 0 (t :: rest) = None).
Proof. intros ver t rest. split; [apply new_types_need_v9|apply go_to_2_needs_v8]. Qed.

(* ---------------------------------------------------------------- spiral saturation and NaN
   The saturation of spiral() is comparison based (`if angle > 2*pi: ... elif angle < -2*pi: ...`, `if r0 < 0: ...`):
   every comparison with NaN is false, so a NaN argument passes through unchanged and is transmitted as NaN.
   A saturation written with Python's min/max (max(lower, min(upper, value))) keeps the FIRST argument when the
   comparison with NaN is false and turns NaN into the upper limit. *)
Definition nan_arg : pyval := PFloat S754_nan.

Lemma spiral_nan_conditions cf en :
  nth_error (e_args en) 0 = Some nan_arg -> nth_error (e_args en) 1 = Some nan_arg ->
  nth_error (e_args en) 2 = Some nan_arg ->
  eval_cond cf en (CGt (EArg 0) two_pi) = Ok false /\ eval_cond cf en (CLt (EArg 0) minus_two_pi) = Ok false /\
  eval_cond cf en (CLt (EArg 1) (EInt 0)) = Ok false /\ eval_cond cf en (CLt (EArg 2) (EInt 0)) = Ok false.
Proof.
  intros H0 H1 H2. cbn [eval_cond eval]. rewrite H0, H1, H2. repeat split; reflexivity.
Qed.

Lemma spiral_nan_passes_through cf en :
  8 <= c_ver cf ->
  nth_error (e_args en) 0 = Some nan_arg -> nth_error (e_args en) 1 = Some nan_arg ->
  nth_error (e_args en) 2 = Some nan_arg ->
  run (fw_action CHlSpiral) cf en = emit en 8 0 [k8 11; a8 7; a8 5; a8 6; a32 0; a32 1; a32 2; a32 3; a32 4] false /\
  run_api (api_action CHlSpiral) cf en =
    match vals en [a8 7; a8 5; a8 6; a32 0; a32 1; a32 2; a32 3; a32 4] with Ok ws => Some ws | Raise _ => None end /\
  to_wire (KS F32) nan_arg = Ok nan32.
Proof.
  intros Hv H0 H1 H2. destruct (spiral_nan_conditions cf en H0 H1 H2) as (A & B & C & D).
  split; [|split; [|reflexivity]].
  - cbn [fw_action run]. cbn [eval_cond]. replace (c_ver cf <? 8) with false by lia.
    unfold spiral_tree, spiral_radii. cbn [run]. rewrite A, B. cbn [run]. rewrite C, D. reflexivity.
  - cbn [api_action]. unfold spiral_tree, spiral_radii. cbn [run_api]. rewrite A, B. cbn [run_api]. rewrite C, D.
    reflexivity.
Qed.

(* Python's two-argument min and max: the first argument unless the second compares smaller / larger *)
Definition py_min2 (a b : pyval) : res pyval := bind (py_lt b a) (fun c => Ok (if c then b else a)).
Definition py_max2 (a b : pyval) : res pyval := bind (py_gt b a) (fun c => Ok (if c then b else a)).
Definition saturate_minmax (v lo hi : pyval) : res pyval := bind (py_min2 hi v) (fun m => py_max2 lo m).
(* the comparison-based saturation of the current source *)
Definition saturate_cmp (v lo hi : pyval) : res pyval :=
  bind (py_gt v hi) (fun g => if g then Ok hi else bind (py_lt v lo) (fun l => Ok (if l then lo else v))).

Definition pf_two_pi : pyval := PFloat (sf64_of_bits 4618760256179416344).       (* 2*math.pi *)
Definition pf_minus_two_pi : pyval := PFloat (sf64_of_bits 13842132293034192152).  (* -2*math.pi *)

Lemma saturation_on_nan :
  saturate_cmp nan_arg pf_minus_two_pi pf_two_pi = Ok nan_arg /\
  saturate_minmax nan_arg pf_minus_two_pi pf_two_pi = Ok pf_two_pi /\
  bind (saturate_cmp nan_arg pf_minus_two_pi pf_two_pi) (to_wire (KS F32)) = Ok nan32 /\
  bind (saturate_minmax nan_arg pf_minus_two_pi pf_two_pi) (to_wire (KS F32)) = Ok 1086918619 /\
  saturate_minmax nan_arg (PFloat (S754_zero false)) (PFloat (S754_infinity false)) = Ok (PFloat (S754_infinity false)).
Proof. vm_compute. repeat split. Qed.

(* on everything that is not NaN the two agree (so only NaN tells them apart), shown on the limits themselves *)
Lemma saturation_agree_examples :
  saturate_cmp pf_two_pi pf_minus_two_pi pf_two_pi = saturate_minmax pf_two_pi pf_minus_two_pi pf_two_pi /\
  saturate_cmp (PFloat (S754_infinity false)) pf_minus_two_pi pf_two_pi = saturate_minmax (PFloat (S754_infinity false)) pf_minus_two_pi pf_two_pi /\
  saturate_cmp (PFloat (S754_infinity true)) pf_minus_two_pi pf_two_pi = saturate_minmax (PFloat (S754_infinity true)) pf_minus_two_pi pf_two_pi.
Proof. vm_compute. repeat split. Qed.
