(* C08/FloatProperty.v — the float32-resolution clause of property C08, related to the real numbers
   (Flocq).  Theorems only.  These depend on the standard library's axioms of the reals; the
   theorems of C08/Property.v do not.
   f32_of_sf64 is the model of struct.pack('<f', x) for a Python float x (PyVal.v), executed against
   CPython on every run; rval s m e = (-1)^s * m * 2^e is the exact value of the caller's binary64. *)
From Coq Require Import ZArith Reals Floats.SpecFloat.
From Flocq Require Import Core.Core IEEE754.BinarySingleNaN.
From CF Require Import C08.PyVal.
From CF Require Import C08.FloatProofs.
Open Scope Z_scope.

(* Every finite argument whose rounding stays below 2^128 is transmitted as a finite, valid binary32 whose
   value is the round-to-nearest-even of the argument in the binary32 format (24-bit precision, minimal
   exponent -149), with the argument's sign. *)
Theorem C08_float32_is_nearest_even : forall s m e,
  (Rabs (round radix2 (FLT_exp (-149) 24) ZnearestE (rval s m e)) < bpow radix2 128)%R ->
  exists z, f32_of_sf64 (S754_finite s m e) = Ok (bits32_of_sf z) /\
            valid_binary 24 128 z = true /\ is_finite_SF z = true /\ sign_SF z = s /\
            SF2R radix2 z = round radix2 (FLT_exp (-149) 24) ZnearestE (rval s m e).
Proof. exact f32_rounds. Qed.
Print Assumptions C08_float32_is_nearest_even.

(* Resolution: for EVERY finite argument x with 2^-126 <= |x| <= max float32 = (2^24 - 1) * 2^104 the
   transmitted value differs from x by at most 2^-24 * |x|. *)
Theorem C08_float32_resolution : forall s m e,
  let x := rval s m e in
  (bpow radix2 (-126) <= Rabs x <= max32)%R ->
  exists z, f32_of_sf64 (S754_finite s m e) = Ok (bits32_of_sf z) /\
            valid_binary 24 128 z = true /\ is_finite_SF z = true /\ sign_SF z = s /\
            SF2R radix2 z = round radix2 (FLT_exp (-149) 24) ZnearestE x /\
            (Rabs (SF2R radix2 z - x) <= bpow radix2 (-24) * Rabs x)%R.
Proof. exact f32_resolution. Qed.
Print Assumptions C08_float32_resolution.

(* Overflow: OverflowError exactly when the rounded magnitude reaches 2^128; in particular for every
   |x| >= 2^128, and never for |x| <= max float32 (nothing is clipped to +-max or sent as infinity). *)
Theorem C08_float32_overflow_raises : forall s m e,
  let x := rval s m e in
  ((bpow radix2 128 <= Rabs (round radix2 (FLT_exp (-149) 24) ZnearestE x))%R ->
     f32_of_sf64 (S754_finite s m e) = Raise EOverflow) /\
  ((bpow radix2 128 <= Rabs x)%R -> f32_of_sf64 (S754_finite s m e) = Raise EOverflow) /\
  ((Rabs x <= max32)%R -> exists w, f32_of_sf64 (S754_finite s m e) = Ok w).
Proof. exact f32_overflow_behaviour. Qed.
Print Assumptions C08_float32_overflow_raises.

(* ---------------------------------------------------------------- fixed-point fields, int(x * 1000) -> int16
   mm_wire d is the model's conversion of the caller's binary64 d for every thousandths field of the
   full-state setpoint (position, velocity, acceleration in mm, rates in thousandths): *)
From CF Require Import Common.Struct.
From CF Require Import C08.Model.
From CF Require Import C08.FwLayout.
Theorem C08_fixed_point_is_model_field : forall en i d, nth_error (e_args en) i = Some (PFloat d) ->
  bind (eval en (snd (mm i))) (to_wire (fst (mm i))) = mm_wire d.
Proof. exact mm_field. Qed.
Print Assumptions C08_fixed_point_is_model_field.

(* For every binary64 argument x with -32768 <= 1000 x <= 32767 (exact real product) the field is sent, lies
   between floor and ceiling of 1000 x and is less than one unit away from it. *)
Theorem C08_fixed_point_resolution : forall s m e, valid_binary 53 1024 (S754_finite s m e) = true ->
  let v := (rval s m e * 1000)%R in
  (-32768 <= v <= 32767)%R ->
  exists t, mm_wire (S754_finite s m e) = Ok t /\ -32768 <= t <= 32767 /\ (Rabs (IZR t - v) < 1)%R /\
            Zfloor v <= t <= Zceil v.
Proof. exact mm_in_range. Qed.
Print Assumptions C08_fixed_point_resolution.

(* At or beyond the int16 span (1000 x >= 32768 or <= -32769) an exception is raised: never a wrapped value. *)
Theorem C08_fixed_point_overflow_raises : forall s m e, valid_binary 53 1024 (S754_finite s m e) = true ->
  let v := (rval s m e * 1000)%R in
  (32768 <= v \/ v <= -32769)%R -> exists x, mm_wire (S754_finite s m e) = Raise x.
Proof. exact mm_overflow. Qed.
Print Assumptions C08_fixed_point_overflow_raises.

Theorem C08_fixed_point_not_finite_raises :
  mm_wire S754_nan = Raise EValue /\ (forall s, mm_wire (S754_infinity s) = Raise EOverflow).
Proof. exact mm_not_finite. Qed.
Print Assumptions C08_fixed_point_not_finite_raises.

(* ---------------------------------------------------------------- end to end for a float field
   For every finite binary64 argument x with 2^-126 <= |x| <= max float32: the 32-bit pattern w put on the wire,
   read back with Flocq's IEEE-754 binary32 decoder (IEEE754.Bits.b32_of_bits), is the round-to-nearest-even
   of x and differs from x by at most 2^-24 |x|. *)
From Flocq Require Import IEEE754.Binary IEEE754.Bits.
From CF Require Import C08.FloatBits.
Theorem C08_float32_wire_decodes_to_rounding : forall s m e,
  let x := rval s m e in
  (bpow radix2 (-126) <= Rabs x <= max32)%R ->
  exists w, f32_of_sf64 (S754_finite s m e) = Ok w /\ 0 <= w < 4294967296 /\
            Binary.B2R 24 128 (b32_of_bits w) = round radix2 (FLT_exp (-149) 24) ZnearestE x /\
            (Rabs (Binary.B2R 24 128 (b32_of_bits w) - x) <= bpow radix2 (-24) * Rabs x)%R.
Proof. exact wire_decodes_to_rounding. Qed.
Print Assumptions C08_float32_wire_decodes_to_rounding.
