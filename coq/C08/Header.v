(* C08/Header.v — CRTPPacket as a mutable object: port, channel and the header byte that the drivers read
   (pk.header).  Model of cflib/crtp/crtpstack.py on the current source: every mutator (constructor from a
   header byte, port=, channel=, set_header) recomputes the header attribute from the CURRENT fields, and
   get_header() does so again before returning it; so after every mutation history the header is the pure
   function crtp_header of the current port and channel.  A variant that caches the header and lets one
   mutator (set_header with an unchanged channel) skip the invalidation is refuted.
   Tied to the real class differentially on every run (harness/props/c08.py, packet mutation histories). *)
From CF Require Import Common.Bytes.
From Coq Require Import ZifyBool.
Open Scope Z_scope.

Record pkt := { p_port : Z; p_chan : Z; p_header : Z }.

Inductive mut := MSetHeader (p c : Z) | MPort (p : Z) | MChan (c : Z) | MGetHeader | MData.

Definition construct (h : Z) : pkt :=
  {| p_port := Z.shiftr (Z.land h 240) 4; p_chan := Z.land h 3; p_header := Z.lor h 12 |}.

Definition refresh (port chan : Z) : pkt := {| p_port := port; p_chan := chan; p_header := crtp_header port chan |}.

Definition mstep (s : pkt) (m : mut) : pkt :=
  match m with
  | MSetHeader p c => refresh p c
  | MPort p => refresh p (p_chan s)
  | MChan c => refresh (p_port s) c
  | MGetHeader => refresh (p_port s) (p_chan s)
  | MData => s
  end.

Definition mrun (ms : list mut) (s : pkt) : pkt := fold_left mstep ms s.

Definition consistent (s : pkt) : Prop := p_header s = crtp_header (p_port s) (p_chan s).

(* ---- the seeded variant: lazily built, cached header *)
Record cpkt := { c_port : Z; c_chan : Z; c_cache : option Z }.
Definition cset_chan (s : cpkt) (c : Z) : cpkt :=
  if c =? c_chan s then s else {| c_port := c_port s; c_chan := c; c_cache := None |}.
Definition cset_port (s : cpkt) (p : Z) : cpkt :=
  if p =? c_port s then s else {| c_port := p; c_chan := c_chan s; c_cache := None |}.
Definition cset_header (s : cpkt) (p c : Z) : cpkt :=      (* writes the port directly, then assigns the channel *)
  cset_chan {| c_port := p; c_chan := c_chan s; c_cache := c_cache s |} c.
Definition cread (s : cpkt) : Z * cpkt :=
  match c_cache s with
  | Some h => (h, s)
  | None => let h := crtp_header (c_port s) (c_chan s) in (h, {| c_port := c_port s; c_chan := c_chan s; c_cache := Some h |})
  end.

(* ---------------------------------------------------------------- proofs *)
Fixpoint zr (a : Z) (n : nat) : list Z := match n with O => [] | S k => a :: zr (a + 1) k end.
Lemma zr_In a n z : In z (zr a n) <-> a <= z < a + Z.of_nat n.
Proof. revert a; induction n as [|n IH]; intros a; cbn [zr In]; [lia|]. rewrite IH. lia. Qed.

Lemma construct_all :
  forallb (fun h => let s := construct h in
                    (p_header s =? crtp_header (p_port s) (p_chan s)) && (p_port s =? crtp_port (p_header s))
                    && (p_chan s =? crtp_chan (p_header s))) (zr 0 256) = true.
Proof. vm_compute. reflexivity. Qed.

Lemma construct_consistent h : 0 <= h < 256 ->
  consistent (construct h) /\ p_port (construct h) = crtp_port (p_header (construct h)) /\
  p_chan (construct h) = crtp_chan (p_header (construct h)).
Proof.
  intros H. pose proof construct_all as A. rewrite forallb_forall in A.
  specialize (A h). rewrite zr_In in A. specialize (A ltac:(lia)). cbv zeta in A. unfold consistent. lia.
Qed.

Lemma mstep_consistent s m : consistent s -> consistent (mstep s m).
Proof. intros H. destruct m; cbn [mstep]; try exact H; reflexivity. Qed.

Lemma mrun_consistent : forall ms s, consistent s -> consistent (mrun ms s).
Proof. induction ms as [|m r IH]; intros s H; [exact H|]. apply IH, mstep_consistent, H. Qed.

(* after any history that starts from a constructed packet the header is the function of the current fields, and for
   fields in range the fields are the decoding of the header *)
Lemma header_pure h ms : 0 <= h < 256 ->
  let s := mrun ms (construct h) in
  p_header s = crtp_header (p_port s) (p_chan s) /\
  (0 <= p_port s < 16 -> 0 <= p_chan s < 4 -> crtp_port (p_header s) = p_port s /\ crtp_chan (p_header s) = p_chan s).
Proof.
  intros H. cbv zeta. pose proof (mrun_consistent ms _ (proj1 (construct_consistent h H))) as C.
  split; [exact C|]. intros Hp Hc. rewrite C.
  assert (G : forallb (fun p => forallb (fun c => (crtp_port (crtp_header p c) =? p) && (crtp_chan (crtp_header p c) =? c))
                                       (zr 0 4)) (zr 0 16) = true) by (vm_compute; reflexivity).
  rewrite forallb_forall in G. specialize (G (p_port (mrun ms (construct h)))). rewrite zr_In in G.
  specialize (G ltac:(lia)). rewrite forallb_forall in G. specialize (G (p_chan (mrun ms (construct h)))).
  rewrite zr_In in G. specialize (G ltac:(lia)). lia.
Qed.

(* the cached variant: address (3, 0), read, re-address with set_header(8, 0): the header still says port 3 *)
Lemma cache_refuted :
  let s0 := {| c_port := 0; c_chan := 0; c_cache := None |} in
  let s1 := snd (cread (cset_header s0 3 0)) in
  let s2 := cset_header s1 8 0 in
  c_port s2 = 8 /\ fst (cread s2) = crtp_header 3 0 /\ fst (cread s2) <> crtp_header (c_port s2) (c_chan s2).
Proof. vm_compute. repeat split; discriminate. Qed.
