(* C15/GenTie.v — the trees generated from the CURRENT Python sources (Gen_Formulas.v, rewritten on every run by
   harness/trans/c15_formulas.py) denote exactly the model functions of Model.v that the theorems are about.
   A changed formula in cflib changes Gen_Formulas.v and breaks the corresponding lemma here.
   Proof method: conversion (reflexivity); if the source was rewritten algebraically, `ring`/`field` on the
   component equalities (function symbols sin, cos, atan2, nan_div, sqrt ... stay uninterpreted). *)
From Coq Require Import Reals ZArith List Lra.
From CF Require Import C15.Model.
From CF Require Import C15.Gen_Formulas.
Import ListNotations.
Open Scope R_scope.

Ltac tie_norm :=
  cbv - [Rplus Rmult Rminus Ropp Rdiv Rinv sin cos tan asin atan atan2 nan_div sqrt PI pow IZR].

Ltac tie_split :=
  repeat match goal with
         | |- _ /\ _ => split
         | |- Pose _ _ = Pose _ _ => f_equal
         | |- M3 _ _ _ _ _ _ _ _ _ = M3 _ _ _ _ _ _ _ _ _ => f_equal
         | |- V3 _ _ _ = V3 _ _ _ => f_equal
         | |- (_, _) = (_, _) => f_equal
         end.

(* equality up to ring identities under the uninterpreted function symbols *)
Ltac cong_ring :=
  first [ reflexivity | ring | (progress f_equal; cong_ring) | (field; lra) ].

Ltac tie := intros; first [ reflexivity | tie_norm; tie_split; cong_ring ].

(* evaluation of the outputs of a generated function as a list *)
Definition ev (l : list R) (es : list expr) : list R := map (evalR (envl l)) es.

(* ---------------------------------------------------------------- lighthouse_bs_vector.py *)
Lemma gen_T_ok : ev [] [gen_T_0] = [T].
Proof. tie. Qed.

Lemma gen_q_ok h v : ev [h; v] [gen_q_0] = [q h v].
Proof. tie. Qed.

(* the V1 angle pair is stored and returned unchanged, in the order (horizontal, vertical) *)
Lemma gen_v1_pair_ok h v :
  ev [h; v] [gen_lh_v1_horiz_angle_0; gen_lh_v1_vert_angle_0; gen_lh_v1_angle_pair_0; gen_lh_v1_angle_pair_1] = [h; v; h; v].
Proof. tie. Qed.

Lemma gen_lh_v2_ok h v :
  ev [h; v] [gen_lh_v2_angle_1_0; gen_lh_v2_angle_2_0] = [lh_v2_angle_1 h v; lh_v2_angle_2 h v].
Proof. tie. Qed.

Lemma gen_from_lh2_ok a1 a2 :
  ev [a1; a2] [gen_from_lh2_0; gen_from_lh2_1] = [fst (from_lh2 a1 a2); snd (from_lh2 a1 a2)].
Proof. tie. Qed.

Lemma gen_cart_ok h v :
  ev [h; v] [gen_cart_0; gen_cart_1; gen_cart_2] = [vx (cart h v); vy (cart h v); vz (cart h v)].
Proof. tie. Qed.

Lemma gen_projection_ok h v :
  ev [h; v] [gen_projection_0; gen_projection_1] = [fst (projection h v); snd (projection h v)].
Proof. tie. Qed.

Lemma gen_from_cart_ok x y z :
  ev [x; y; z] [gen_from_cart_0; gen_from_cart_1] = [fst (from_cart (V3 x y z)); snd (from_cart (V3 x y z))].
Proof. tie. Qed.

Lemma gen_from_projection_ok y z :
  ev [y; z] [gen_from_projection_0; gen_from_projection_1] = [fst (from_projection y z); snd (from_projection y z)].
Proof. tie. Qed.

(* ---------------------------------------------------------------- lighthouse_types.py: Pose *)
Definition mat_list (a : mat) : list R := [m00 a; m01 a; m02 a; m10 a; m11 a; m12 a; m20 a; m21 a; m22 a].
Definition vec_list (p : vec) : list R := [vx p; vy p; vz p].
Definition pose_list (P : pose) : list R := mat_list (pR P) ++ vec_list (pt P).

Definition gen_pose_default := [gen_pose_default_0; gen_pose_default_1; gen_pose_default_2; gen_pose_default_3;
  gen_pose_default_4; gen_pose_default_5; gen_pose_default_6; gen_pose_default_7; gen_pose_default_8;
  gen_pose_default_9; gen_pose_default_10; gen_pose_default_11].
Definition gen_pose_fields := [gen_pose_fields_0; gen_pose_fields_1; gen_pose_fields_2; gen_pose_fields_3;
  gen_pose_fields_4; gen_pose_fields_5; gen_pose_fields_6; gen_pose_fields_7; gen_pose_fields_8;
  gen_pose_fields_9; gen_pose_fields_10; gen_pose_fields_11].
Definition gen_pose_rtp := [gen_pose_rotate_translate_pose_0; gen_pose_rotate_translate_pose_1;
  gen_pose_rotate_translate_pose_2; gen_pose_rotate_translate_pose_3; gen_pose_rotate_translate_pose_4;
  gen_pose_rotate_translate_pose_5; gen_pose_rotate_translate_pose_6; gen_pose_rotate_translate_pose_7;
  gen_pose_rotate_translate_pose_8; gen_pose_rotate_translate_pose_9; gen_pose_rotate_translate_pose_10;
  gen_pose_rotate_translate_pose_11].
Definition gen_pose_irtp := [gen_pose_inv_rotate_translate_pose_0; gen_pose_inv_rotate_translate_pose_1;
  gen_pose_inv_rotate_translate_pose_2; gen_pose_inv_rotate_translate_pose_3; gen_pose_inv_rotate_translate_pose_4;
  gen_pose_inv_rotate_translate_pose_5; gen_pose_inv_rotate_translate_pose_6; gen_pose_inv_rotate_translate_pose_7;
  gen_pose_inv_rotate_translate_pose_8; gen_pose_inv_rotate_translate_pose_9; gen_pose_inv_rotate_translate_pose_10;
  gen_pose_inv_rotate_translate_pose_11].

(* Pose() is the identity pose; Pose(R, t) stores R and t unchanged *)
Lemma gen_pose_default_ok : ev [] gen_pose_default = pose_list pose_id.
Proof. tie. Qed.

Lemma gen_pose_fields_ok P : ev (pose_list P) gen_pose_fields = pose_list P.
Proof. destruct P as [[a b c d e f g h i] [x y z]]. tie. Qed.

Lemma gen_pose_rotate_translate_ok P x :
  ev (pose_list P ++ vec_list x) [gen_pose_rotate_translate_0; gen_pose_rotate_translate_1; gen_pose_rotate_translate_2]
  = vec_list (rotate_translate P x).
Proof. destruct P as [[a b c d e f g h i] [tx ty tz]], x as [x y z]. tie. Qed.

Lemma gen_pose_inv_rotate_translate_ok P x :
  ev (pose_list P ++ vec_list x)
     [gen_pose_inv_rotate_translate_0; gen_pose_inv_rotate_translate_1; gen_pose_inv_rotate_translate_2]
  = vec_list (inv_rotate_translate P x).
Proof. destruct P as [[a b c d e f g h i] [tx ty tz]], x as [x y z]. tie. Qed.

Lemma gen_pose_rotate_translate_pose_ok P Q :
  ev (pose_list P ++ pose_list Q) gen_pose_rtp = pose_list (rotate_translate_pose P Q).
Proof.
  destruct P as [[a b c d e f g h i] [tx ty tz]], Q as [[a' b' c' d' e' f' g' h' i'] [tx' ty' tz']]. tie.
Qed.

Lemma gen_pose_inv_rotate_translate_pose_ok P Q :
  ev (pose_list P ++ pose_list Q) gen_pose_irtp = pose_list (inv_rotate_translate_pose P Q).
Proof.
  destruct P as [[a b c d e f g h i] [tx ty tz]], Q as [[a' b' c' d' e' f' g' h' i'] [tx' ty' tz']]. tie.
Qed.

(* ---------------------------------------------------------------- lighthouse_geometry_solver.py *)
Lemma gen_solver_rotate_translate_ok p r t :
  ev (vec_list p ++ vec_list r ++ vec_list t)
     [gen_solver_rotate_translate_0; gen_solver_rotate_translate_1; gen_solver_rotate_translate_2]
  = vec_list (solver_rotate_translate p r t).
Proof. destruct p as [px py pz], r as [rx ry rz], t as [tx ty tz]. tie. Qed.

Lemma gen_solver_calc_angle_pairs_ok bs_r bs_t cf_r cf_t s :
  ev (vec_list bs_r ++ vec_list bs_t ++ vec_list cf_r ++ vec_list cf_t ++ vec_list s)
     [gen_solver_calc_angle_pairs_0; gen_solver_calc_angle_pairs_1]
  = [fst (solver_angle_pair bs_r bs_t cf_r cf_t s); snd (solver_angle_pair bs_r bs_t cf_r cf_t s)].
Proof.
  destruct bs_r as [a0 a1 a2], bs_t as [a3 a4 a5], cf_r as [b0 b1 b2], cf_t as [b3 b4 b5], s as [s0 s1 s2]. tie.
Qed.

(* ---------------------------------------------------------------- ippe_cf.py *)
Lemma gen_ippe_matrices_ok :
  ev [] [gen_ippe_R_ippe_to_cf_0; gen_ippe_R_ippe_to_cf_1; gen_ippe_R_ippe_to_cf_2; gen_ippe_R_ippe_to_cf_3;
         gen_ippe_R_ippe_to_cf_4; gen_ippe_R_ippe_to_cf_5; gen_ippe_R_ippe_to_cf_6; gen_ippe_R_ippe_to_cf_7;
         gen_ippe_R_ippe_to_cf_8] = mat_list R_ippe_to_cf /\
  ev [] [gen_ippe_R_cf_to_ippe_0; gen_ippe_R_cf_to_ippe_1; gen_ippe_R_cf_to_ippe_2; gen_ippe_R_cf_to_ippe_3;
         gen_ippe_R_cf_to_ippe_4; gen_ippe_R_cf_to_ippe_5; gen_ippe_R_cf_to_ippe_6; gen_ippe_R_cf_to_ippe_7;
         gen_ippe_R_cf_to_ippe_8] = mat_list R_cf_to_ippe.
Proof. split; tie. Qed.

Lemma gen_ippe_rotate_vector_ok v :
  ev (vec_list v) [gen_ippe_rotate_vector_to_ippe_0; gen_ippe_rotate_vector_to_ippe_1; gen_ippe_rotate_vector_to_ippe_2]
  = vec_list (rotate_vector_to_ippe v) /\
  ev (vec_list v) [gen_ippe_rotate_vector_to_cf_0; gen_ippe_rotate_vector_to_cf_1; gen_ippe_rotate_vector_to_cf_2]
  = vec_list (rotate_vector_to_cf v).
Proof. destruct v as [x y z]. split; tie. Qed.

Lemma gen_ippe_rotate_rot_mat_ok a :
  ev (mat_list a) [gen_ippe_rotate_rot_mat_to_cf_0; gen_ippe_rotate_rot_mat_to_cf_1; gen_ippe_rotate_rot_mat_to_cf_2;
                   gen_ippe_rotate_rot_mat_to_cf_3; gen_ippe_rotate_rot_mat_to_cf_4; gen_ippe_rotate_rot_mat_to_cf_5;
                   gen_ippe_rotate_rot_mat_to_cf_6; gen_ippe_rotate_rot_mat_to_cf_7; gen_ippe_rotate_rot_mat_to_cf_8]
  = mat_list (rotate_rot_mat_to_cf a).
Proof. destruct a as [a b c d e f g h i]. tie. Qed.

Lemma gen_ippe_cf_to_ippe_row_ok u y z :
  ev (vec_list u ++ [y; z]) [gen_ippe_cf_to_ippe_row_0; gen_ippe_cf_to_ippe_row_1; gen_ippe_cf_to_ippe_row_2;
                             gen_ippe_cf_to_ippe_row_3; gen_ippe_cf_to_ippe_row_4]
  = vec_list (rotate_vector_to_ippe u) ++ [fst (q_to_ippe y z); snd (q_to_ippe y z)].
Proof. destruct u as [a b c]. tie. Qed.

(* ---------------------------------------------------------------- transport of the Coq definitions rodrigues /
   quat_of_rotvec / quat_mat to the harness: these trees are written by harness/props/c15.py (not translated from
   cflib); the harness evaluates them against scipy to validate the Section hypothesis of Proofs_pose.v *)
Definition quat_list (u : quat) : list R := [qx u; qy u; qz u; qw u].

Lemma gen_spec_rodrigues_ok r :
  ev (vec_list r) [gen_spec_rodrigues_0; gen_spec_rodrigues_1; gen_spec_rodrigues_2; gen_spec_rodrigues_3;
                   gen_spec_rodrigues_4; gen_spec_rodrigues_5; gen_spec_rodrigues_6; gen_spec_rodrigues_7;
                   gen_spec_rodrigues_8] = mat_list (rodrigues r).
Proof. destruct r as [x y z]. tie. Qed.

Lemma gen_spec_quat_of_rotvec_ok r :
  ev (vec_list r) [gen_spec_quat_of_rotvec_0; gen_spec_quat_of_rotvec_1; gen_spec_quat_of_rotvec_2;
                   gen_spec_quat_of_rotvec_3] = quat_list (quat_of_rotvec r).
Proof. destruct r as [x y z]. tie. Qed.

Lemma gen_spec_quat_mat_ok u :
  ev (quat_list u) [gen_spec_quat_mat_0; gen_spec_quat_mat_1; gen_spec_quat_mat_2; gen_spec_quat_mat_3;
                    gen_spec_quat_mat_4; gen_spec_quat_mat_5; gen_spec_quat_mat_6; gen_spec_quat_mat_7;
                    gen_spec_quat_mat_8] = mat_list (quat_mat u).
Proof. destruct u as [x y z w]. tie. Qed.

(* ---------------------------------------------------------------- growth round: scale, matrix_vec, constructors,
   solver wrappers, LighthouseBsVectors list helpers *)
From CF Require Import C15.Heap.

Definition gen_pose_scale := [gen_pose_scale_0; gen_pose_scale_1; gen_pose_scale_2; gen_pose_scale_3; gen_pose_scale_4; gen_pose_scale_5; gen_pose_scale_6; gen_pose_scale_7; gen_pose_scale_8; gen_pose_scale_9; gen_pose_scale_10; gen_pose_scale_11].
Definition gen_pose_matrix_vec := [gen_pose_matrix_vec_0; gen_pose_matrix_vec_1; gen_pose_matrix_vec_2; gen_pose_matrix_vec_3; gen_pose_matrix_vec_4; gen_pose_matrix_vec_5; gen_pose_matrix_vec_6; gen_pose_matrix_vec_7; gen_pose_matrix_vec_8; gen_pose_matrix_vec_9; gen_pose_matrix_vec_10; gen_pose_matrix_vec_11].
Definition gen_pose_from_rot_vec := [gen_pose_from_rot_vec_0; gen_pose_from_rot_vec_1; gen_pose_from_rot_vec_2; gen_pose_from_rot_vec_3; gen_pose_from_rot_vec_4; gen_pose_from_rot_vec_5; gen_pose_from_rot_vec_6; gen_pose_from_rot_vec_7; gen_pose_from_rot_vec_8; gen_pose_from_rot_vec_9; gen_pose_from_rot_vec_10; gen_pose_from_rot_vec_11].
Definition gen_pose_from_quat := [gen_pose_from_quat_0; gen_pose_from_quat_1; gen_pose_from_quat_2; gen_pose_from_quat_3; gen_pose_from_quat_4; gen_pose_from_quat_5; gen_pose_from_quat_6; gen_pose_from_quat_7; gen_pose_from_quat_8; gen_pose_from_quat_9; gen_pose_from_quat_10; gen_pose_from_quat_11].
Definition gen_pose_from_rot_vec_default := [gen_pose_from_rot_vec_default_0; gen_pose_from_rot_vec_default_1; gen_pose_from_rot_vec_default_2; gen_pose_from_rot_vec_default_3; gen_pose_from_rot_vec_default_4; gen_pose_from_rot_vec_default_5; gen_pose_from_rot_vec_default_6; gen_pose_from_rot_vec_default_7; gen_pose_from_rot_vec_default_8; gen_pose_from_rot_vec_default_9; gen_pose_from_rot_vec_default_10; gen_pose_from_rot_vec_default_11].
Definition gen_pose_from_quat_default := [gen_pose_from_quat_default_0; gen_pose_from_quat_default_1; gen_pose_from_quat_default_2; gen_pose_from_quat_default_3; gen_pose_from_quat_default_4; gen_pose_from_quat_default_5; gen_pose_from_quat_default_6; gen_pose_from_quat_default_7; gen_pose_from_quat_default_8; gen_pose_from_quat_default_9; gen_pose_from_quat_default_10; gen_pose_from_quat_default_11].
Definition gen_solver_params_to_pose := [gen_solver_params_to_pose_0; gen_solver_params_to_pose_1; gen_solver_params_to_pose_2; gen_solver_params_to_pose_3; gen_solver_params_to_pose_4; gen_solver_params_to_pose_5; gen_solver_params_to_pose_6; gen_solver_params_to_pose_7; gen_solver_params_to_pose_8; gen_solver_params_to_pose_9; gen_solver_params_to_pose_10; gen_solver_params_to_pose_11].

(* Pose.scale(k) changes the object into pscale k P (the in-place operation of the heap model C15/Heap.v) *)
Lemma gen_pose_scale_ok P k : ev (pose_list P ++ [k]) gen_pose_scale = pose_list (pscale k P).
Proof. destruct P as [[a b c d e f g h i] [x y z]]. tie. Qed.

Lemma gen_pose_matrix_vec_ok P : ev (pose_list P) gen_pose_matrix_vec = pose_list P.
Proof. destruct P as [[a b c d e f g h i] [x y z]]. tie. Qed.

(* Pose.from_rot_vec / Pose.from_quat, with scipy's Rotation constructors read as rodrigues / quat_mat o normalise *)
Lemma gen_pose_from_rot_vec_ok r t :
  ev (vec_list r ++ vec_list t) gen_pose_from_rot_vec = pose_list (pose_from_rotvec rodrigues r t).
Proof. destruct r as [a b c], t as [x y z]. tie. Qed.

Lemma gen_pose_from_quat_ok u t :
  ev (quat_list u ++ vec_list t) gen_pose_from_quat = pose_list (pose_from_quat u t).
Proof. destruct u as [a b c d], t as [x y z]. tie. Qed.

Lemma gen_pose_ctor_defaults_ok :
  ev [] gen_pose_from_rot_vec_default = pose_list (pose_from_rotvec rodrigues vzero vzero) /\
  ev [] gen_pose_from_quat_default = pose_list (pose_from_quat (Q4 0 0 0 1) vzero).
Proof. split; tie. Qed.

Lemma gen_solver_params_to_pose_ok r t :
  ev (vec_list r ++ vec_list t) gen_solver_params_to_pose = pose_list (pose_from_rotvec rodrigues r t).
Proof. destruct r as [a b c], t as [x y z]. tie. Qed.

Lemma gen_solver_poses_to_angle_pairs_ok bs_r bs_t cf_r cf_t s :
  ev (vec_list bs_r ++ vec_list bs_t ++ vec_list cf_r ++ vec_list cf_t ++ vec_list s)
     [gen_solver_poses_to_angle_pairs_0; gen_solver_poses_to_angle_pairs_1]
  = [fst (solver_angle_pair bs_r bs_t cf_r cf_t s); snd (solver_angle_pair bs_r bs_t cf_r cf_t s)].
Proof.
  destruct bs_r as [a0 a1 a2], bs_t as [a3 a4 a5], cf_r as [b0 b1 b2], cf_t as [b3 b4 b5], s as [s0 s1 s2]. tie.
Qed.

(* LighthouseBsVectors: one row of projection_pair_list / two consecutive entries of angle_list, per vector *)
Lemma gen_bsvs_lists_ok h v :
  ev [h; v] [gen_bsvs_projection_pair_row_0; gen_bsvs_projection_pair_row_1] = [fst (projection h v); snd (projection h v)] /\
  ev [h; v] [gen_bsvs_angle_list_row_0; gen_bsvs_angle_list_row_1] = [h; v].
Proof. split; tie. Qed.

Lemma gen_spec_quat_to_rotvec_ok u :
  ev (quat_list u) [gen_spec_quat_to_rotvec_0; gen_spec_quat_to_rotvec_1; gen_spec_quat_to_rotvec_2]
  = vec_list (quat_to_rotvec u).
Proof. destruct u as [x y z w]. tie. Qed.
