(* C15/Proofs_heap.v — freshness contract of Pose composition on the object heap. *)
From Coq Require Import Reals List Lra Lia.
From CF Require Import C15.Model.
From CF Require Import C15.Proofs_bs.
From CF Require Import C15.Proofs_pose.
From CF Require Import C15.Examples.
From CF Require Import C15.Heap.
Import ListNotations.
Open Scope R_scope.

Lemma hget_hset_same h l p : (l < length h)%nat -> hget (hset h l p) l = Some p.
Proof.
  revert l. induction h as [|x t IH]; intros l H; cbn in H; [lia|].
  destruct l; cbn; [reflexivity|]. apply IH. lia.
Qed.

Lemma hget_hset_other h l l' p : l' <> l -> hget (hset h l p) l' = hget h l'.
Proof.
  revert l l'. induction h as [|x t IH]; intros l l' H; [destruct l; reflexivity|].
  destruct l, l'; cbn; try reflexivity; [contradiction|]. apply IH. congruence.
Qed.

Lemma hget_some_lt h l P : hget h l = Some P -> (l < length h)%nat.
Proof. intros H. apply nth_error_Some. unfold hget in H. congruence. Qed.

Lemma hget_app_old h p l : (l < length h)%nat -> hget (h ++ [p]) l = hget h l.
Proof. intros H. unfold hget. now rewrite nth_error_app1. Qed.

Lemma hget_app_new h p : hget (h ++ [p]) (length h) = Some p.
Proof. unfold hget. rewrite nth_error_app2 by lia. now rewrite Nat.sub_diag. Qed.

(* an allocating operation returns a NEW location, whatever the operands are (identity included), the old
   objects are untouched and the new object holds the value of the operation *)
Lemma op_alloc_fresh f h a b h' c : op_alloc f h a b = Some (h', c) ->
  exists A B, hget h a = Some A /\ hget h b = Some B /\
    c <> a /\ c <> b /\ hget h c = None /\
    (forall l, (l < length h)%nat -> hget h' l = hget h l) /\
    hget h' c = Some (f A B).
Proof.
  unfold op_alloc. destruct (hget h a) as [A|] eqn:Ea; [|discriminate].
  destruct (hget h b) as [B|] eqn:Eb; [|discriminate]. intros E. injection E as <- <-.
  pose proof (hget_some_lt _ _ _ Ea). pose proof (hget_some_lt _ _ _ Eb).
  exists A, B. repeat split; try reflexivity; try lia.
  - unfold hget. apply nth_error_None. lia.
  - intros l Hl. now apply hget_app_old.
  - apply hget_app_new.
Qed.

(* scaling the product in place (what _scale_system does) leaves both operands exactly as they were, the product
   holds the scaled value, and the value-level laws still speak about the operands: sequential application *)
Lemma scale_product_keeps_operands f h a b h' c k h'' :
  op_alloc f h a b = Some (h', c) -> scale_inplace h' c k = Some h'' ->
  exists A B, hget h a = Some A /\ hget h b = Some B /\
    hget h'' a = Some A /\ hget h'' b = Some B /\ hget h'' c = Some (pscale k (f A B)).
Proof.
  intros Ho Hs. destruct (op_alloc_fresh _ _ _ _ _ _ Ho) as (A & B & Ea & Eb & Nca & Ncb & _ & Hold & Hc).
  exists A, B. unfold scale_inplace in Hs. rewrite Hc in Hs. injection Hs as <-.
  pose proof (hget_some_lt _ _ _ Ea). pose proof (hget_some_lt _ _ _ Eb).
  repeat split; try assumption.
  - rewrite hget_hset_other by congruence. rewrite Hold by assumption. assumption.
  - rewrite hget_hset_other by congruence. rewrite Hold by assumption. assumption.
  - apply hget_hset_same. eapply hget_some_lt. eassumption.
Qed.

Lemma compose_then_scale_laws h a b h' c k h'' :
  compose_alloc h a b = Some (h', c) -> scale_inplace h' c k = Some h'' ->
  exists A B, hget h'' a = Some A /\ hget h'' b = Some B /\ hget h a = Some A /\ hget h b = Some B /\
    hget h'' c = Some (pscale k (rotate_translate_pose A B)) /\
    (forall x, rotate_translate (rotate_translate_pose A B) x = rotate_translate A (rotate_translate B x)) /\
    (valid_pose B -> forall x, inv_rotate_translate B (rotate_translate B x) = x).
Proof.
  intros Ho Hs. destruct (scale_product_keeps_operands _ _ _ _ _ _ _ _ Ho Hs) as (A & B & Ea & Eb & Ea' & Eb' & Ec).
  exists A, B. repeat split; try assumption.
  - intros x. apply pose_sequential.
  - intros HB x. apply (pose_inverse_point B x HB).
Qed.

(* the fast-path variant is right by value when it returns ... *)
Lemma fastpath_value_right is_id h a b h' c :
  (forall P, is_id P = true -> P = pose_id) ->
  compose_fastpath is_id h a b = Some (h', c) ->
  exists A B, hget h a = Some A /\ hget h b = Some B /\ hget h' c = Some (rotate_translate_pose A B).
Proof.
  intros Hid. unfold compose_fastpath. destruct (hget h a) as [A|] eqn:Ea; [|discriminate].
  destruct (hget h b) as [B|] eqn:Eb; [|discriminate]. intros E. exists A, B. split; [reflexivity|]. split; [reflexivity|].
  destruct (is_id B) eqn:IB.
  - injection E as <- <-. rewrite (Hid _ IB), pose_id_right. assumption.
  - destruct (is_id A) eqn:IA.
    + injection E as <- <-. rewrite (Hid _ IA), pose_id_left. assumption.
    + injection E as <- <-. apply hget_app_new.
Qed.

(* ... and wrong as an object: scaling the product rewrites the operand *)
Definition is_pose_id (P : pose) : bool :=
  match P with
  | Pose (M3 a b c d e f g h i) (V3 x y z) =>
      if Req_EM_T a 1 then if Req_EM_T b 0 then if Req_EM_T c 0 then if Req_EM_T d 0 then if Req_EM_T e 1 then
      if Req_EM_T f 0 then if Req_EM_T g 0 then if Req_EM_T h 0 then if Req_EM_T i 1 then
      if Req_EM_T x 0 then if Req_EM_T y 0 then if Req_EM_T z 0 then true
      else false else false else false else false else false else false else false else false else false else false
      else false else false
  end.

Lemma is_pose_id_sound P : is_pose_id P = true -> P = pose_id.
Proof.
  destruct P as [[a b c d e f g h i] [x y z]]. unfold is_pose_id.
  repeat match goal with |- context [Req_EM_T ?u ?v] => destruct (Req_EM_T u v); [subst|discriminate] end.
  reflexivity.
Qed.

Lemma is_pose_id_id : is_pose_id pose_id = true.
Proof.
  unfold is_pose_id, pose_id, mident, vzero.
  repeat match goal with |- context [Req_EM_T ?u ?v] => destruct (Req_EM_T u v); [|contradiction] end.
  reflexivity.
Qed.

Lemma fastpath_refuted :
  exists (h : heap) (a b : loc) (k : R) h' c h'',
    compose_fastpath is_pose_id h a b = Some (h', c) /\ scale_inplace h' c k = Some h'' /\
    c = a /\ hget h'' a <> hget h a.
Proof.
  exists [Pose Rz90 (V3 1 2 3); pose_id], 0%nat, 1%nat, 2.
  exists [Pose Rz90 (V3 1 2 3); pose_id], 0%nat, [pscale 2 (Pose Rz90 (V3 1 2 3)); pose_id].
  repeat split.
  - unfold compose_fastpath. cbn [hget nth_error]. rewrite is_pose_id_id. reflexivity.
  - cbn [hget nth_error]. intros E. injection E as E. unfold vscale in E. cbn [vx] in E. lra.
Qed.

Lemma fastpath_summary :
  (forall h a b h' c, compose_fastpath is_pose_id h a b = Some (h', c) ->
     exists A B, hget h a = Some A /\ hget h b = Some B /\ hget h' c = Some (rotate_translate_pose A B)) /\
  (exists (h : heap) (a b : loc) (k : R) h' c h'',
     compose_fastpath is_pose_id h a b = Some (h', c) /\ scale_inplace h' c k = Some h'' /\
     c = a /\ hget h'' a <> hget h a).
Proof.
  split; [|exact fastpath_refuted].
  intros h a b h' c. apply fastpath_value_right. exact is_pose_id_sound.
Qed.
