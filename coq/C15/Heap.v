(* C15/Heap.v — a small object-level heap for Pose: the Python Pose is a mutable OBJECT (scale() rebinds its
   translation in place), the theorems of Proofs_pose.v are about VALUES.  This file states the freshness contract
   that makes the value-level laws usable on objects: rotate_translate_pose / inv_rotate_translate_pose return a
   NEW object for every operand pair (including identity operands), so the in-place scale() the library applies to
   products (LighthouseSystemScaler._scale_system) never rewrites an operand.  Definitions only. *)
From Coq Require Import Reals List.
From CF Require Import C15.Model.
Import ListNotations.
Open Scope R_scope.

Definition loc := nat.
Definition heap := list pose.                       (* location = index; objects are never freed *)

Definition hget (h : heap) (l : loc) : option pose := nth_error h l.
Fixpoint hset (h : heap) (l : loc) (p : pose) : heap :=
  match h, l with
  | [], _ => []
  | _ :: t, O => p :: t
  | x :: t, S n => x :: hset t n p
  end.

(* Pose.scale(k): self._t_vec = self._t_vec * k  (Model.pscale; the object at that location changes, nothing else) *)
Definition scale_inplace (h : heap) (l : loc) (k : R) : option heap :=
  match hget h l with Some P => Some (hset h l (pscale k P)) | None => None end.

(* a binary pose operation that builds its result with the constructor: `return Pose(R_matrix=R, t_vec=t)` *)
Definition op_alloc (f : pose -> pose -> pose) (h : heap) (a b : loc) : option (heap * loc) :=
  match hget h a, hget h b with
  | Some A, Some B => Some (h ++ [f A B], length h)
  | _, _ => None
  end.
Definition compose_alloc := op_alloc rotate_translate_pose.          (* a.rotate_translate_pose(b) *)
Definition inv_compose_alloc := op_alloc inv_rotate_translate_pose.  (* a.inv_rotate_translate_pose(b) *)

(* the variant with an identity fast path: hands back an operand instead of a new object.  Right by value at the
   time of the call (pose_id is a two-sided unit), wrong as soon as the product is scaled in place. *)
Definition compose_fastpath (is_id : pose -> bool) (h : heap) (a b : loc) : option (heap * loc) :=
  match hget h a, hget h b with
  | Some A, Some B =>
      if is_id B then Some (h, a)
      else if is_id A then Some (h, b)
      else Some (h ++ [rotate_translate_pose A B], length h)
  | _, _ => None
  end.
