(* C15/Model.v — executable-in-the-reals definitions only (no proofs).

   1. a deep-embedded scalar expression language [expr] with a real-number semantics [evalR]; the
      translator harness/trans/c15_formulas.py turns the straight-line numeric Python of
      cflib/localization/{lighthouse_bs_vector,lighthouse_types,lighthouse_geometry_solver,ippe_cf}.py
      into such trees (vectors and matrices are expanded into components) and writes them to Gen_Formulas.v;
   2. the hand-written model functions the theorems talk about (GenTie.v proves: generated tree = model function).

   Real-number model: IEEE rounding (float32 casts of `cart`/`projection`, float64 elsewhere) is NOT modelled.
   Division is Coq's total Rdiv; every theorem that needs a non-zero denominator has a hypothesis implying it. *)
From Coq Require Import Reals ZArith List.
Open Scope R_scope.

(* ------------------------------------------------------------------ atan2 (math.atan2 / np.arctan2 on reals) *)
Definition atan2 (y x : R) : R :=
  if Rlt_dec 0 x then atan (y / x)
  else if Rlt_dec x 0 then (if Rle_dec 0 y then atan (y / x) + PI else atan (y / x) - PI)
  else if Rlt_dec 0 y then PI / 2
  else if Rlt_dec y 0 then - (PI / 2)
  else 0.

(* nan_to_num (a / b) for the only way numpy can produce a NaN here: b = 0 (then a = 0 as well, b being the
   norm of the vector a is a component of): 0/0 = nan -> 0.0 *)
Definition nan_div (a b : R) : R := if Req_EM_T b 0 then 0 else a / b.

(* ------------------------------------------------------------------ expression trees *)
Inductive expr : Type :=
| EVar (n : nat)                 (* n-th scalar input *)
| EInt (z : Z)                   (* integer / integral float literal *)
| EPi                            (* math.pi *)
| ENeg (a : expr)
| EAdd (a b : expr)
| ESub (a b : expr)
| EMul (a b : expr)
| EDiv (a b : expr)
| ESqr (a : expr)                (* a ** 2 *)
| ESqrt (a : expr)
| ESin (a : expr)
| ECos (a : expr)
| ETan (a : expr)
| EAsin (a : expr)
| EAtan (a : expr)
| EAtan2 (y x : expr)
| ENanDiv (a b : expr).          (* np.nan_to_num (a / b) *)

Fixpoint evalR (env : nat -> R) (e : expr) : R :=
  match e with
  | EVar n => env n
  | EInt z => IZR z
  | EPi => PI
  | ENeg a => - evalR env a
  | EAdd a b => evalR env a + evalR env b
  | ESub a b => evalR env a - evalR env b
  | EMul a b => evalR env a * evalR env b
  | EDiv a b => evalR env a / evalR env b
  | ESqr a => (evalR env a) ^ 2
  | ESqrt a => sqrt (evalR env a)
  | ESin a => sin (evalR env a)
  | ECos a => cos (evalR env a)
  | ETan a => tan (evalR env a)
  | EAsin a => asin (evalR env a)
  | EAtan a => atan (evalR env a)
  | EAtan2 y x => atan2 (evalR env y) (evalR env x)
  | ENanDiv a b => nan_div (evalR env a) (evalR env b)
  end.

(* substitution of argument expressions for the inputs of a callee (function calls in the Python source) *)
Fixpoint subst (s : nat -> expr) (e : expr) : expr :=
  match e with
  | EVar n => s n
  | EInt z => EInt z
  | EPi => EPi
  | ENeg a => ENeg (subst s a)
  | EAdd a b => EAdd (subst s a) (subst s b)
  | ESub a b => ESub (subst s a) (subst s b)
  | EMul a b => EMul (subst s a) (subst s b)
  | EDiv a b => EDiv (subst s a) (subst s b)
  | ESqr a => ESqr (subst s a)
  | ESqrt a => ESqrt (subst s a)
  | ESin a => ESin (subst s a)
  | ECos a => ECos (subst s a)
  | ETan a => ETan (subst s a)
  | EAsin a => EAsin (subst s a)
  | EAtan a => EAtan (subst s a)
  | EAtan2 y x => EAtan2 (subst s y) (subst s x)
  | ENanDiv a b => ENanDiv (subst s a) (subst s b)
  end.

(* environments / argument lists given as lists (missing entries read 0 / EInt 0) *)
Definition envl (l : list R) : nat -> R := fun n => nth n l 0.
Definition argl (l : list expr) : nat -> expr := fun n => nth n l (EInt 0).

(* ------------------------------------------------------------------ lighthouse_bs_vector.py *)
Definition T : R := PI / 6.                                   (* LighthouseBsVector.T *)
Definition q (h v : R) : R := tan v / sqrt (1 + (tan h) ^ 2).  (* _q *)
Definition lh_v2_angle_1 (h v : R) : R := h + asin (q h v * tan (- T)).
Definition lh_v2_angle_2 (h v : R) : R := h + asin (q h v * tan T).
Definition from_lh2_h (a1 a2 : R) : R := (a1 + a2) / 2.
Definition from_lh2_v (a1 a2 : R) : R := atan2 (sin (a2 - a1)) (tan T * (cos a1 + cos a2)).
Definition from_lh2 (a1 a2 : R) : R * R := (from_lh2_h a1 a2, from_lh2_v a1 a2).

Record vec : Type := V3 { vx : R; vy : R; vz : R }.

Definition norm3 (a b c : R) : R := sqrt (a ^ 2 + b ^ 2 + c ^ 2).      (* np.linalg.norm of a 3-vector *)
Definition vnorm (p : vec) : R := norm3 (vx p) (vy p) (vz p).
Definition cart (h v : R) : vec :=
  let n := norm3 1 (tan h) (tan v) in V3 (1 / n) (tan h / n) (tan v / n).
Definition projection (h v : R) : R * R := (tan h, tan v).
Definition from_cart (p : vec) : R * R := (atan2 (vy p) (vx p), atan2 (vz p) (vx p)).
Definition from_projection (y z : R) : R * R := (atan y, atan z).

(* field of view of the property: |h| <= 80 deg, |v| <= 55 deg *)
Definition deg (d : R) : R := d * PI / 180.
Definition in_fov (h v : R) : Prop := Rabs h <= deg 80 /\ Rabs v <= deg 55.

(* ------------------------------------------------------------------ 3-vectors and 3x3 matrices *)
Record mat : Type := M3 { m00 : R; m01 : R; m02 : R; m10 : R; m11 : R; m12 : R; m20 : R; m21 : R; m22 : R }.

Definition vadd (a b : vec) : vec := V3 (vx a + vx b) (vy a + vy b) (vz a + vz b).
Definition vsub (a b : vec) : vec := V3 (vx a - vx b) (vy a - vy b) (vz a - vz b).
Definition vneg (a : vec) : vec := V3 (- vx a) (- vy a) (- vz a).
Definition vscale (k : R) (a : vec) : vec := V3 (k * vx a) (k * vy a) (k * vz a).
Definition vdot (a b : vec) : R := vx a * vx b + vy a * vy b + vz a * vz b.
Definition vcross (a b : vec) : vec :=
  V3 (vy a * vz b - vz a * vy b) (vz a * vx b - vx a * vz b) (vx a * vy b - vy a * vx b).
Definition vzero : vec := V3 0 0 0.

Definition mident : mat := M3 1 0 0 0 1 0 0 0 1.
Definition mtrans (a : mat) : mat := M3 (m00 a) (m10 a) (m20 a) (m01 a) (m11 a) (m21 a) (m02 a) (m12 a) (m22 a).
Definition mvec (a : mat) (p : vec) : vec :=           (* np.dot (matrix, vector) *)
  V3 (m00 a * vx p + m01 a * vy p + m02 a * vz p)
     (m10 a * vx p + m11 a * vy p + m12 a * vz p)
     (m20 a * vx p + m21 a * vy p + m22 a * vz p).
Definition mmul (a b : mat) : mat :=                   (* np.dot (matrix, matrix) *)
  M3 (m00 a * m00 b + m01 a * m10 b + m02 a * m20 b) (m00 a * m01 b + m01 a * m11 b + m02 a * m21 b) (m00 a * m02 b + m01 a * m12 b + m02 a * m22 b)
     (m10 a * m00 b + m11 a * m10 b + m12 a * m20 b) (m10 a * m01 b + m11 a * m11 b + m12 a * m21 b) (m10 a * m02 b + m11 a * m12 b + m12 a * m22 b)
     (m20 a * m00 b + m21 a * m10 b + m22 a * m20 b) (m20 a * m01 b + m21 a * m11 b + m22 a * m21 b) (m20 a * m02 b + m21 a * m12 b + m22 a * m22 b).
Definition mdet (a : mat) : R :=
  m00 a * (m11 a * m22 a - m12 a * m21 a) - m01 a * (m10 a * m22 a - m12 a * m20 a) + m02 a * (m10 a * m21 a - m11 a * m20 a).
Definition orthogonal (a : mat) : Prop := mmul (mtrans a) a = mident.
Definition rotation (a : mat) : Prop := orthogonal a /\ mdet a = 1.

(* ------------------------------------------------------------------ lighthouse_types.py: Pose *)
Record pose : Type := Pose { pR : mat; pt : vec }.

Definition pose_id : pose := Pose mident vzero.                              (* Pose() *)
Definition rotate_translate (P : pose) (x : vec) : vec := vadd (mvec (pR P) x) (pt P).
Definition inv_rotate_translate (P : pose) (x : vec) : vec := mvec (mtrans (pR P)) (vsub x (pt P)).
Definition rotate_translate_pose (P Q : pose) : pose :=
  Pose (mmul (pR P) (pR Q)) (vadd (mvec (pR P) (pt Q)) (pt P)).
Definition inv_rotate_translate_pose (P Q : pose) : pose :=
  Pose (mmul (mtrans (pR P)) (pR Q)) (mvec (mtrans (pR P)) (vsub (pt Q) (pt P))).
Definition valid_pose (P : pose) : Prop := orthogonal (pR P).

(* ------------------------------------------------------------------ rotation vector / quaternion views
   (what scipy.spatial.transform.Rotation computes; scipy itself is outside the model and enters the
   theorems as a Section hypothesis, validated numerically by the harness on every run) *)

(* unit axis of a rotation vector, as the solver computes it: r / |r| with nan_to_num (0 for r = 0) *)
Definition axis (r : vec) : vec :=
  let th := vnorm r in V3 (nan_div (vx r) th) (nan_div (vy r) th) (nan_div (vz r) th).

(* Rodrigues matrix of the rotation vector r:  cos th I + sin th [k]x + (1 - cos th) k k^T *)
Definition rodrigues (r : vec) : mat :=
  let th := vnorm r in
  let k := axis r in
  let c := cos th in let s := sin th in let d := 1 - cos th in
  M3 (c + d * vx k * vx k)        (d * vx k * vy k - s * vz k) (d * vx k * vz k + s * vy k)
     (d * vy k * vx k + s * vz k) (c + d * vy k * vy k)        (d * vy k * vz k - s * vx k)
     (d * vz k * vx k - s * vy k) (d * vz k * vy k + s * vx k) (c + d * vz k * vz k).

(* quaternions in scipy's scalar-last order (x, y, z, w) *)
Record quat : Type := Q4 { qx : R; qy : R; qz : R; qw : R }.
Definition qnorm2 (u : quat) : R := qx u * qx u + qy u * qy u + qz u * qz u + qw u * qw u.

(* matrix of a unit quaternion (Rotation.from_quat normalises first; as_matrix then evaluates this) *)
Definition quat_mat (u : quat) : mat :=
  let x := qx u in let y := qy u in let z := qz u in let w := qw u in
  M3 (1 - 2 * (y * y + z * z)) (2 * (x * y - z * w))     (2 * (x * z + y * w))
     (2 * (x * y + z * w))     (1 - 2 * (x * x + z * z)) (2 * (y * z - x * w))
     (2 * (x * z - y * w))     (2 * (y * z + x * w))     (1 - 2 * (x * x + y * y)).

(* quaternion of a rotation vector: (k sin(th/2), cos(th/2)) *)
Definition quat_of_rotvec (r : vec) : quat :=
  let th := vnorm r in let k := axis r in
  Q4 (vx k * sin (th / 2)) (vy k * sin (th / 2)) (vz k * sin (th / 2)) (cos (th / 2)).

(* Pose.from_rot_vec: as_matrix stands for scipy's Rotation.from_rotvec(r).as_matrix() *)
Definition pose_from_rotvec (as_matrix : vec -> mat) (r t : vec) : pose := Pose (as_matrix r) t.

(* Rotation.from_quat(u) normalises u first; Pose.from_quat *)
Definition qnorm (u : quat) : R := sqrt (qx u ^ 2 + qy u ^ 2 + qz u ^ 2 + qw u ^ 2).
Definition quat_normalize (u : quat) : quat :=
  Q4 (qx u / qnorm u) (qy u / qnorm u) (qz u / qnorm u) (qw u / qnorm u).
Definition quat_neg (u : quat) : quat := Q4 (- qx u) (- qy u) (- qz u) (- qw u).
Definition pose_from_quat (u : quat) (t : vec) : pose := Pose (quat_mat (quat_normalize u)) t.

(* the getters: a rotation matrix determines its unit quaternion up to sign (C15_views_unique); scipy's as_quat /
   as_rotvec work on the representative with w >= 0 and read the rotation vector off it:
   angle = 2 atan2 (|v|, w), axis = v / |v| (zero vector for v = 0) *)
Definition quat_canon (u : quat) : quat := if Rlt_dec (qw u) 0 then quat_neg u else u.
Definition quat_to_rotvec (u : quat) : vec :=
  let n := norm3 (qx u) (qy u) (qz u) in
  let ang := 2 * atan2 n (qw u) in
  V3 (nan_div (qx u) n * ang) (nan_div (qy u) n * ang) (nan_div (qz u) n * ang).

(* Pose.scale(k): self._t_vec = self._t_vec * k *)
Definition pscale (k : R) (P : pose) : pose := Pose (pR P) (V3 (vx (pt P) * k) (vy (pt P) * k) (vz (pt P) * k)).

(* ------------------------------------------------------------------ lighthouse_geometry_solver.py *)
(* _rotate_translate, one row:  cos th p + sin th (k x p) + (p . k)(1 - cos th) k + t,  k = nan_to_num (r / |r|) *)
Definition solver_rotate_translate (p r t : vec) : vec :=
  let th := vnorm r in
  let k := axis r in
  let d := vdot p k in
  vadd (vadd (vadd (vscale (cos th) p) (vscale (sin th) (vcross k p))) (vscale (d * (1 - cos th)) k)) t.

(* _calc_angle_pairs, one row: bs and cf are 6-parameter poses (rotation vector, translation) *)
Definition solver_point_in_bs (bs_r bs_t cf_r cf_t s : vec) : vec :=
  let sensor_point := solver_rotate_translate s cf_r cf_t in
  solver_rotate_translate (vsub sensor_point bs_t) (vneg bs_r) vzero.
Definition solver_angle_pair (bs_r bs_t cf_r cf_t s : vec) : R * R :=
  let p := solver_point_in_bs bs_r bs_t cf_r cf_t s in
  (atan2 (vy p) (vx p), atan2 (vz p) (vx p)).

(* the projection defined by the types: sensor -> global (CF pose) -> base-station frame (inverse BS pose) ->
   LighthouseBsVector.from_cart -> lh_v1_angle_pair *)
Definition types_angle_pair (bs cf : pose) (s : vec) : R * R :=
  from_cart (inv_rotate_translate bs (rotate_translate cf s)).

(* ------------------------------------------------------------------ ippe_cf.py *)
Definition R_ippe_to_cf : mat := M3 0 0 1 (-1) 0 0 0 (-1) 0.
Definition R_cf_to_ippe : mat := mtrans R_ippe_to_cf.
Definition rotate_vector_to_ippe (v : vec) : vec := mvec R_cf_to_ippe v.
Definition rotate_vector_to_cf (v : vec) : vec := mvec R_ippe_to_cf v.
Definition rotate_rot_mat_to_cf (a : mat) : mat := mmul R_ippe_to_cf (mmul a R_cf_to_ippe).
Definition q_to_ippe (y z : R) : R * R := (- y, - z).         (* Q_t[i] = (-Q_cf[i][0], -Q_cf[i][1]) *)
