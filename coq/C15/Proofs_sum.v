(* C15/Proofs_sum.v — uniqueness of the rotation-vector view and the conjunctions quoted by Property.v. *)
From Coq Require Import Reals Lra Psatz Ratan Nsatz.
From CF Require Import C15.Model.
From CF Require Import C15.Proofs_bs.
From CF Require Import C15.Proofs_pose.
Open Scope R_scope.

(* ---------------------------------------------------------------- summaries used by Property.v *)
Lemma pose_inverse P : valid_pose P ->
  (forall x, inv_rotate_translate P (rotate_translate P x) = x /\ rotate_translate P (inv_rotate_translate P x) = x) /\
  (forall Q, inv_rotate_translate_pose P (rotate_translate_pose P Q) = Q /\
             rotate_translate_pose P (inv_rotate_translate_pose P Q) = Q).
Proof. intros H. split; intros; [now apply pose_inverse_point | now apply pose_inverse_pose]. Qed.

Lemma pose_sequential_all P Q x :
  rotate_translate (rotate_translate_pose P Q) x = rotate_translate P (rotate_translate Q x) /\
  rotate_translate (inv_rotate_translate_pose P Q) x = inv_rotate_translate P (rotate_translate Q x) /\
  (valid_pose P ->
   inv_rotate_translate (rotate_translate_pose P Q) x = inv_rotate_translate Q (inv_rotate_translate P x)).
Proof.
  split; [apply pose_sequential|]. split; [apply pose_inv_pose_sequential|]. apply pose_inv_sequential.
Qed.

Lemma pose_identity P x :
  rotate_translate_pose pose_id P = P /\ rotate_translate_pose P pose_id = P /\
  rotate_translate pose_id x = x /\ inv_rotate_translate pose_id x = x /\ valid_pose pose_id.
Proof.
  split; [apply pose_id_left|]. split; [apply pose_id_right|].
  destruct (pose_id_point x) as [A B]. repeat split; try assumption. apply orthogonal_ident.
Qed.

Lemma pose_rigid_all P Q : valid_pose P -> valid_pose Q ->
  valid_pose (rotate_translate_pose P Q) /\ valid_pose (inv_rotate_translate_pose P Q) /\
  forall x y, let d := vsub (rotate_translate P x) (rotate_translate P y) in vdot d d = vdot (vsub x y) (vsub x y).
Proof.
  intros HP HQ. destruct (valid_compose P Q HP HQ) as [A B]. repeat split; try assumption.
  intros x y. now apply pose_rigid.
Qed.

(* ---------------------------------------------------------------- the rotation vector is determined by the matrix *)
Lemma rodrigues_trace r : r <> vzero ->
  m00 (rodrigues r) + m11 (rodrigues r) + m22 (rodrigues r) = 1 + 2 * cos (vnorm r).
Proof.
  intros H. pose proof (axis_unit r H) as Hk. unfold rodrigues. cbv zeta.
  destruct (axis r) as [kx ky kz]. unfold vdot in Hk. cbn [vx vy vz m00 m11 m22] in *.
  set (c := cos (vnorm r)). nsatz.
Qed.

Lemma rodrigues_skew r :
  m21 (rodrigues r) - m12 (rodrigues r) = 2 * sin (vnorm r) * vx (axis r) /\
  m02 (rodrigues r) - m20 (rodrigues r) = 2 * sin (vnorm r) * vy (axis r) /\
  m10 (rodrigues r) - m01 (rodrigues r) = 2 * sin (vnorm r) * vz (axis r).
Proof.
  unfold rodrigues. cbv zeta. destruct (axis r) as [kx ky kz].
  cbn [vx vy vz m01 m02 m10 m12 m20 m21]. repeat split; ring.
Qed.

Lemma cos_lt_1 x : 0 < x < PI -> cos x < 1.
Proof. intros H. rewrite <- cos_0. apply cos_decreasing_1; lra. Qed.

Lemma cos_inj_0_PI x y : 0 <= x <= PI -> 0 <= y <= PI -> cos x = cos y -> x = y.
Proof.
  intros Hx Hy E. destruct (Rtotal_order x y) as [L | [L | L]]; [|assumption|].
  - pose proof (cos_decreasing_1 x y). lra.
  - pose proof (cos_decreasing_1 y x). lra.
Qed.

Lemma rodrigues_injective r r' : vnorm r < PI -> vnorm r' < PI -> rodrigues r = rodrigues r' -> r = r'.
Proof.
  intros Hn Hn' E.
  pose proof (vnorm_nonneg r) as H0. pose proof (vnorm_nonneg r') as H0'.
  assert (Nz : forall a, a <> vzero -> 0 < vnorm a).
  { intros a Ha. pose proof (vnorm_nonneg a) as [L | Z]; [assumption|]. symmetry in Z. apply vnorm_zero_iff in Z. contradiction. }
  destruct (axis_cases r) as [(-> & _ & _) | (Hr & Hk)]; destruct (axis_cases r') as [(-> & _ & _) | (Hr' & Hk')].
  - reflexivity.
  - exfalso. pose proof (rodrigues_trace r' Hr') as Tr. rewrite <- E, rodrigues_zero in Tr.
    unfold mident in Tr. cbn [m00 m11 m22] in Tr. pose proof (cos_lt_1 (vnorm r')). pose proof (Nz r' Hr'). lra.
  - exfalso. pose proof (rodrigues_trace r Hr) as Tr. rewrite E, rodrigues_zero in Tr.
    unfold mident in Tr. cbn [m00 m11 m22] in Tr. pose proof (cos_lt_1 (vnorm r)). pose proof (Nz r Hr). lra.
  - pose proof (rodrigues_trace r Hr) as Tr. pose proof (rodrigues_trace r' Hr') as Tr'. rewrite E in Tr.
    assert (Eth : vnorm r = vnorm r') by (apply cos_inj_0_PI; lra).
    pose proof (rodrigues_skew r) as (S1 & S2 & S3). pose proof (rodrigues_skew r') as (S1' & S2' & S3').
    rewrite E, Eth in S1, S2, S3.
    assert (Hs : 0 < sin (vnorm r')) by (apply sin_gt_0; [apply Nz; assumption | assumption]).
    assert (Ea : axis r = axis r').
    { destruct (axis r) as [kx ky kz], (axis r') as [kx' ky' kz']. cbn [vx vy vz] in *.
      f_equal; apply (Rmult_eq_reg_l (2 * sin (vnorm r'))); lra. }
    rewrite <- (axis_times_norm r), <- (axis_times_norm r'), Ea, Eth. reflexivity.
Qed.

Lemma sq_eq_cases a b : a * a = b * b -> b = a \/ b = - a.
Proof.
  intros H. assert (E : (b - a) * (b + a) = 0) by (ring_simplify; lra).
  apply Rmult_integral in E. destruct E; [left | right]; lra.
Qed.

Lemma cancel_l a b c : a <> 0 -> a * b = a * c -> c = b.
Proof. intros Ha H. apply (Rmult_eq_reg_l a); [symmetry; assumption | assumption]. Qed.

(* a unit quaternion is determined by its rotation matrix up to sign *)
Lemma quat_mat_injective u u' : qnorm2 u = 1 -> qnorm2 u' = 1 -> quat_mat u = quat_mat u' ->
  u' = u \/ u' = Q4 (- qx u) (- qy u) (- qz u) (- qw u).
Proof.
  destruct u as [x y z w], u' as [x' y' z' w']. unfold qnorm2, quat_mat. cbn [qx qy qz qw].
  intros N N' E. injection E as E00 E01 E02 E10 E11 E12 E20 E21 E22.
  assert (Pxx : x * x = x' * x') by nra. assert (Pyy : y * y = y' * y') by nra.
  assert (Pzz : z * z = z' * z') by nra. assert (Pww : w * w = w' * w') by nra.
  assert (Pxy : x * y = x' * y') by nra. assert (Pxz : x * z = x' * z') by nra.
  assert (Pyz : y * z = y' * z') by nra. assert (Pxw : x * w = x' * w') by nra.
  assert (Pyw : y * w = y' * w') by nra. assert (Pzw : z * w = z' * w') by nra.
  clear E00 E01 E02 E10 E11 E12 E20 E21 E22.
  assert (K : forall a a', a' = a -> forall b b', a <> 0 -> a * b = a' * b' -> b' = b).
  { intros a a' -> b b' Ha H. now apply (cancel_l a). }
  assert (Kn : forall a a', a' = - a -> forall b b', a <> 0 -> a * b = a' * b' -> b' = - b).
  { intros a a' -> b b' Ha H. apply (cancel_l a); [assumption|]. lra. }
  destruct (Req_dec x 0) as [Zx | Nx].
  - assert (x' = 0) by nra. subst x x'.
    destruct (Req_dec y 0) as [Zy | Ny].
    + assert (y' = 0) by nra. subst y y'.
      destruct (Req_dec z 0) as [Zz | Nz].
      * assert (z' = 0) by nra. subst z z'.
        destruct (sq_eq_cases _ _ Pww) as [-> | ->]; [left; reflexivity | right; f_equal; ring].
      * destruct (sq_eq_cases _ _ Pzz) as [Hz | Hz].
        -- left. rewrite (K z z' Hz w w' Nz Pzw), Hz. reflexivity.
        -- right. rewrite (Kn z z' Hz w w' Nz Pzw), Hz. f_equal; ring.
    + destruct (sq_eq_cases _ _ Pyy) as [Hy | Hy].
      * left. rewrite (K y y' Hy z z' Ny Pyz), (K y y' Hy w w' Ny Pyw), Hy. reflexivity.
      * right. rewrite (Kn y y' Hy z z' Ny Pyz), (Kn y y' Hy w w' Ny Pyw), Hy. f_equal; ring.
  - destruct (sq_eq_cases _ _ Pxx) as [Hx | Hx].
    + left. rewrite (K x x' Hx y y' Nx Pxy), (K x x' Hx z z' Nx Pxz), (K x x' Hx w w' Nx Pxw), Hx. reflexivity.
    + right. rewrite (Kn x x' Hx y y' Nx Pxy), (Kn x x' Hx z z' Nx Pxz), (Kn x x' Hx w w' Nx Pxw), Hx. reflexivity.
Qed.

Lemma views_unique :
  (forall r r', vnorm r < PI -> vnorm r' < PI -> rodrigues r = rodrigues r' -> r = r') /\
  (forall u, quat_mat (Q4 (- qx u) (- qy u) (- qz u) (- qw u)) = quat_mat u) /\
  (forall u, qnorm2 u = 1 -> rotation (quat_mat u)) /\
  (forall u u', qnorm2 u = 1 -> qnorm2 u' = 1 -> quat_mat u = quat_mat u' ->
                u' = u \/ u' = Q4 (- qx u) (- qy u) (- qz u) (- qw u)) /\
  (forall r u, qnorm2 u = 1 -> quat_mat u = rodrigues r ->
               let p := quat_of_rotvec r in u = p \/ u = Q4 (- qx p) (- qy p) (- qz p) (- qw p)).
Proof.
  split; [exact rodrigues_injective|]. split; [exact quat_mat_neg|].
  split; [intros u H; split; [now apply quat_mat_orthogonal | now apply quat_mat_det]|].
  split; [exact quat_mat_injective|].
  intros r u Hu E. cbv zeta. apply quat_mat_injective; [apply quat_of_rotvec_unit | assumption|].
  rewrite E. symmetry. apply rodrigues_quat.
Qed.

Lemma ippe_all v a t u :
  rotate_vector_to_cf (rotate_vector_to_ippe v) = v /\ rotate_vector_to_ippe (rotate_vector_to_cf v) = v /\
  rotation R_ippe_to_cf /\ rotation R_cf_to_ippe /\
  (rotation a -> rotation (rotate_rot_mat_to_cf a)) /\
  rotate_vector_to_cf (vadd (mvec a (rotate_vector_to_ippe u)) t) =
    vadd (mvec (rotate_rot_mat_to_cf a) u) (rotate_vector_to_cf t) /\
  (let i := rotate_vector_to_ippe v in (vx i / vz i, vy i / vz i) = q_to_ippe (vy v / vx v) (vz v / vx v)).
Proof.
  destruct (ippe_perm_inverse v) as [A B]. destruct ippe_perm_rotation as [C D].
  repeat split; try assumption; try apply C; try apply D.
  - apply ippe_rot_mat_to_cf_rotation; assumption.
  - apply ippe_rot_mat_to_cf_rotation; assumption.
  - apply ippe_solution_transfer.
  - apply ippe_image_point.
Qed.
