(* C15/Examples.v — non-vacuity: concrete non-trivial instances of the hypotheses used in Property.v. *)
From Coq Require Import Reals Lra Psatz.
From CF Require Import C15.Model.
From CF Require Import C15.Proofs_bs.
From CF Require Import C15.Proofs_pose.
Open Scope R_scope.

(* the corner of the field of view is in the field of view (and not the trivial direction) *)
Example fov_corner : in_fov (deg 80) (- deg 55) /\ deg 80 <> 0.
Proof.
  unfold in_fov, deg. pose proof PI_RGT_0. split.
  - split.
    + rewrite Rabs_right by lra. lra.
    + rewrite Rabs_left by lra. lra.
  - lra.
Qed.

(* hence both asin arguments are legal there: the V2 sweeps exist on the whole boundary *)
Example fov_corner_sweeps : -1 < q (deg 80) (- deg 55) * tan T < 1.
Proof. apply sweeps_exist. apply fov_corner. Qed.

(* a valid, non-identity pose: quarter turn about z plus a translation *)
Definition Rz90 : mat := M3 0 (-1) 0 1 0 0 0 0 1.
Example valid_pose_example : valid_pose (Pose Rz90 (V3 1 2 3)) /\ rotation Rz90 /\ Rz90 <> mident.
Proof.
  unfold valid_pose, rotation, orthogonal, Rz90. cbn [pR].
  repeat split; try (unfold mmul, mtrans, mident, mdet; cbn [m00 m01 m02 m10 m11 m12 m20 m21 m22]; try f_equal; ring).
  intros E. injection E as E0 _. lra.
Qed.

(* the scipy hypothesis of the Section is satisfiable: the Rodrigues matrix itself *)
Example scipy_hypothesis_satisfiable : exists as_matrix : vec -> mat, forall r, as_matrix r = rodrigues r.
Proof. exists rodrigues. reflexivity. Qed.

(* a non-zero rotation vector of norm < pi, and the half turn |r| = pi excluded by C15_views_unique: the
   rotation vectors (pi,0,0) and (-pi,0,0) have the same matrix *)
Example unit_rotvec_norm : vnorm (V3 1 0 0) = 1 /\ 1 < PI.
Proof.
  split.
  - unfold vnorm, norm3. cbn [vx vy vz]. replace (1 ^ 2 + 0 ^ 2 + 0 ^ 2) with 1 by ring. apply sqrt_1.
  - pose proof PI2_1. lra.
Qed.

Example half_turn_not_unique : rodrigues (V3 PI 0 0) = rodrigues (vneg (V3 PI 0 0)) /\ V3 PI 0 0 <> vneg (V3 PI 0 0).
Proof.
  split.
  - rewrite rodrigues_vneg. unfold rodrigues. cbv zeta.
    assert (E : vnorm (V3 PI 0 0) = PI).
    { unfold vnorm, norm3. cbn [vx vy vz]. replace (PI ^ 2 + 0 ^ 2 + 0 ^ 2) with (Rsqr PI) by (unfold Rsqr; ring).
      apply sqrt_Rsqr. pose proof PI_RGT_0. lra. }
    rewrite E, sin_PI, cos_PI. destruct (axis (V3 PI 0 0)) as [kx ky kz].
    unfold mtrans. cbn [vx vy vz m00 m01 m02 m10 m11 m12 m20 m21 m22]. f_equal; ring.
  - unfold vneg. cbn [vx vy vz]. intros E. injection E as E0 _. pose proof PI_RGT_0. lra.
Qed.

(* a unit quaternion that is not the identity *)
Example unit_quat_example : qnorm2 (Q4 0 0 1 0) = 1.
Proof. unfold qnorm2. cbn [qx qy qz qw]. ring. Qed.

(* Wave 12: points are REAL vectors.  An integer-valued point under a non-integer pose has a non-integer image, so a
   point function that returns its result in the (integer) representation of its argument cannot satisfy
   P(x) = R x + t, nor can its inverse undo it *)
Example integer_point_non_integer_pose :
  let P := Pose Rz90 (V3 (1 / 2) 0 0) in
  rotate_translate P (V3 1 0 0) = V3 (1 / 2) 1 0 /\
  (forall z : Z, IZR z <> vx (rotate_translate P (V3 1 0 0))) /\
  inv_rotate_translate P (rotate_translate P (V3 1 0 0)) = V3 1 0 0 /\
  inv_rotate_translate P (V3 0 1 0) <> V3 1 0 0.        (* the truncated image (0,1,0) is not mapped back *)
Proof.
  cbv zeta. assert (E : rotate_translate (Pose Rz90 (V3 (1 / 2) 0 0)) (V3 1 0 0) = V3 (1 / 2) 1 0).
  { unfold rotate_translate, Rz90, mvec, vadd. cbn [pR pt vx vy vz m00 m01 m02 m10 m11 m12 m20 m21 m22]. f_equal; field. }
  repeat split.
  - exact E.
  - rewrite E. cbn [vx]. intros z H.
    assert (H2 : IZR (2 * z) = IZR 1) by (rewrite mult_IZR; unfold Rdiv in H; lra). apply eq_IZR in H2.
    destruct z as [|p|p]; [discriminate | destruct p; discriminate | discriminate].
  - rewrite E. unfold inv_rotate_translate, Rz90, mvec, mtrans, vsub. cbn [pR pt vx vy vz m00 m01 m02 m10 m11 m12 m20 m21 m22].
    f_equal; field.
  - unfold inv_rotate_translate, Rz90, mvec, mtrans, vsub. cbn [pR pt vx vy vz m00 m01 m02 m10 m11 m12 m20 m21 m22].
    intros K. injection K as _ K _. lra.
Qed.
