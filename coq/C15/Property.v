(* C15/Property.v — property C15 (Lighthouse angle, vector and pose conversions are mutually consistent):
   the MODEL-LEVEL theorems.  This file does not depend on generated code (Gen_Formulas.v), so it is still checked
   when the translator fails closed (harness: PROPERTY_FILES_NO_GEN).  The statements about the expression trees
   translated from cflib's current source, and the tie tree = model function, are in C15/Property_code.v.
   Theorems only; each is closed by `exact <lemma>` and followed by Print Assumptions.
   Real-number statements (Coq.Reals): "to float32 accuracy" of the property text is NOT a theorem, it is
   validated numerically by the harness on every run.  Definitions: C15/Model.v (a Pose is an immutable value:
   rotation matrix + translation; the harness's history oracle validates that the Python object behaves like one). *)
From Coq Require Import Reals List.
From CF Require Import C15.Model.
From CF Require Import C15.Proofs_bs.
From CF Require Import C15.Proofs_pose.
From CF Require Import C15.Proofs_sum.
From CF Require Import C15.Examples.
From CF Require Import C15.Heap.
From CF Require Import C15.Proofs_heap.
From CF Require Import C15.Proofs_views.
Import ListNotations.
Open Scope R_scope.

(* ---- V1 sweep angles <-> V2 sweep angles, for every direction of the field of view |h| <= 80 deg, |v| <= 55 deg *)

(* inside the field of view both V2 sweeps exist: the arguments of both asin calls are strictly inside (-1, 1) *)
Theorem C15_v2_sweeps_exist : forall h v, in_fov h v ->
  -1 < q h v * tan T < 1 /\ -1 < q h v * tan (- T) < 1.
Proof. exact sweeps_exist_both. Qed.
Print Assumptions C15_v2_sweeps_exist.

Theorem C15_v1_v2_inverse : forall h v, in_fov h v ->
  from_lh2 (lh_v2_angle_1 h v) (lh_v2_angle_2 h v) = (h, v).
Proof. exact v1_v2_inverse. Qed.
Print Assumptions C15_v1_v2_inverse.

Theorem C15_v2_v1_inverse : forall a1 a2,
  (exists h v, in_fov h v /\ a1 = lh_v2_angle_1 h v /\ a2 = lh_v2_angle_2 h v) ->
  let hv := from_lh2 a1 a2 in lh_v2_angle_1 (fst hv) (snd hv) = a1 /\ lh_v2_angle_2 (fst hv) (snd hv) = a2.
Proof. exact v2_v1_inverse. Qed.
Print Assumptions C15_v2_v1_inverse.

(* ---- Cartesian direction and image-plane projection *)
Theorem C15_cart_unit : forall h v, vnorm (cart h v) = 1.
Proof. exact cart_unit. Qed.
Print Assumptions C15_cart_unit.

Theorem C15_cart_projection_inverse : forall h v, in_fov h v ->
  from_projection (fst (projection h v)) (snd (projection h v)) = (h, v) /\
  from_cart (cart h v) = (h, v) /\
  projection h v = (vy (cart h v) / vx (cart h v), vz (cart h v) / vx (cart h v)).
Proof. exact cart_projection_inverse. Qed.
Print Assumptions C15_cart_projection_inverse.

Theorem C15_projection_from_projection : forall y z,
  projection (fst (from_projection y z)) (snd (from_projection y z)) = (y, z).
Proof. exact projection_from_projection. Qed.
Print Assumptions C15_projection_from_projection.

Theorem C15_from_cart_inverse :
  (forall h v, in_fov h v -> from_cart (cart h v) = (h, v)) /\
  (forall p, 0 < vx p ->
     let hv := from_cart p in cart (fst hv) (snd hv) = V3 (vx p / vnorm p) (vy p / vnorm p) (vz p / vnorm p)).
Proof. exact from_cart_inverse. Qed.
Print Assumptions C15_from_cart_inverse.

(* ---- Pose: rigid-motion laws (R orthogonal) *)
Theorem C15_pose_inverse : forall P, valid_pose P ->
  (forall x, inv_rotate_translate P (rotate_translate P x) = x /\ rotate_translate P (inv_rotate_translate P x) = x) /\
  (forall Q, inv_rotate_translate_pose P (rotate_translate_pose P Q) = Q /\
             rotate_translate_pose P (inv_rotate_translate_pose P Q) = Q).
Proof. exact pose_inverse. Qed.
Print Assumptions C15_pose_inverse.

Theorem C15_pose_assoc : forall P Q S,
  rotate_translate_pose (rotate_translate_pose P Q) S = rotate_translate_pose P (rotate_translate_pose Q S).
Proof. exact pose_assoc. Qed.
Print Assumptions C15_pose_assoc.

Theorem C15_pose_sequential : forall P Q x,
  rotate_translate (rotate_translate_pose P Q) x = rotate_translate P (rotate_translate Q x) /\
  rotate_translate (inv_rotate_translate_pose P Q) x = inv_rotate_translate P (rotate_translate Q x) /\
  (valid_pose P ->
   inv_rotate_translate (rotate_translate_pose P Q) x = inv_rotate_translate Q (inv_rotate_translate P x)).
Proof. exact pose_sequential_all. Qed.
Print Assumptions C15_pose_sequential.

Theorem C15_pose_identity : forall P x,
  rotate_translate_pose pose_id P = P /\ rotate_translate_pose P pose_id = P /\
  rotate_translate pose_id x = x /\ inv_rotate_translate pose_id x = x /\ valid_pose pose_id.
Proof. exact pose_identity. Qed.
Print Assumptions C15_pose_identity.

(* poses stay valid under composition, and a valid pose preserves distances *)
Theorem C15_pose_rigid : forall P Q, valid_pose P -> valid_pose Q ->
  valid_pose (rotate_translate_pose P Q) /\ valid_pose (inv_rotate_translate_pose P Q) /\
  forall x y, let d := vsub (rotate_translate P x) (rotate_translate P y) in vdot d d = vdot (vsub x y) (vsub x y).
Proof. exact pose_rigid_all. Qed.
Print Assumptions C15_pose_rigid.

(* ---- rotation matrix / rotation vector / quaternion views; `as_matrix` is scipy's
        Rotation.from_rotvec(r).as_matrix(), assumed to be the Rodrigues matrix (validated numerically each run) *)
Theorem C15_views_agree : forall as_matrix : vec -> mat, (forall r, as_matrix r = rodrigues r) ->
  forall r,
    as_matrix r = quat_mat (quat_of_rotvec r) /\ qnorm2 (quat_of_rotvec r) = 1 /\
    rotation (as_matrix r) /\ mvec (as_matrix r) r = r /\
    as_matrix (vneg r) = mtrans (as_matrix r).
Proof. exact views_agree. Qed.
Print Assumptions C15_views_agree.

(* the rotation vector is determined by the matrix (|r| < pi) and the unit quaternion by the matrix up to sign:
   whatever as_rotvec / as_quat return for a matrix, if it reproduces the matrix it is THE rotation vector / +-quaternion *)
Theorem C15_views_unique :
  (forall r r', vnorm r < PI -> vnorm r' < PI -> rodrigues r = rodrigues r' -> r = r') /\
  (forall u, quat_mat (Q4 (- qx u) (- qy u) (- qz u) (- qw u)) = quat_mat u) /\
  (forall u, qnorm2 u = 1 -> rotation (quat_mat u)) /\
  (forall u u', qnorm2 u = 1 -> qnorm2 u' = 1 -> quat_mat u = quat_mat u' ->
                u' = u \/ u' = Q4 (- qx u) (- qy u) (- qz u) (- qw u)) /\
  (forall r u, qnorm2 u = 1 -> quat_mat u = rodrigues r ->
               let p := quat_of_rotvec r in u = p \/ u = Q4 (- qx p) (- qy p) (- qz p) (- qw p)).
Proof. exact views_unique. Qed.
Print Assumptions C15_views_unique.

(* ---- the geometry solver's vectorised Rodrigues projection equals the projection defined by the types *)
Theorem C15_projection_paths_agree : forall as_matrix : vec -> mat, (forall r, as_matrix r = rodrigues r) ->
  forall bs_r bs_t cf_r cf_t s,
    solver_angle_pair bs_r bs_t cf_r cf_t s =
    types_angle_pair (pose_from_rotvec as_matrix bs_r bs_t) (pose_from_rotvec as_matrix cf_r cf_t) s.
Proof. exact projection_paths_agree. Qed.
Print Assumptions C15_projection_paths_agree.

(* zero rotation vectors (nan_to_num branch of _rotate_translate): both paths are the pure translation *)
Theorem C15_projection_paths_zero_rotation : forall as_matrix : vec -> mat, (forall r, as_matrix r = rodrigues r) ->
  forall bs_t cf_t s,
    solver_angle_pair vzero bs_t vzero cf_t s = from_cart (vsub (vadd s cf_t) bs_t) /\
    types_angle_pair (pose_from_rotvec as_matrix vzero bs_t) (pose_from_rotvec as_matrix vzero cf_t) s
      = from_cart (vsub (vadd s cf_t) bs_t).
Proof. exact projection_paths_zero_rotation. Qed.
Print Assumptions C15_projection_paths_zero_rotation.

(* ---- IPPE <-> CF axis permutation *)
Theorem C15_ippe_permutation_inverse : forall v a t u,
  rotate_vector_to_cf (rotate_vector_to_ippe v) = v /\ rotate_vector_to_ippe (rotate_vector_to_cf v) = v /\
  rotation R_ippe_to_cf /\ rotation R_cf_to_ippe /\
  (rotation a -> rotation (rotate_rot_mat_to_cf a)) /\
  rotate_vector_to_cf (vadd (mvec a (rotate_vector_to_ippe u)) t) =
    vadd (mvec (rotate_rot_mat_to_cf a) u) (rotate_vector_to_cf t) /\
  (let i := rotate_vector_to_ippe v in (vx i / vz i, vy i / vz i) = q_to_ippe (vy v / vx v) (vz v / vx v)).
Proof. exact ippe_all. Qed.
Print Assumptions C15_ippe_permutation_inverse.

(* ---- objects, not values: a Pose is a mutable object (scale() changes it in place).  Freshness contract of the
        two composition methods on the object heap of C15/Heap.v: the result is a NEW object for every operand pair
        (the identity pose included), no old object changes, and the new object holds the composed value *)
Theorem C15_compose_fresh : forall f h a b h' c, op_alloc f h a b = Some (h', c) ->
  exists A B, hget h a = Some A /\ hget h b = Some B /\
    c <> a /\ c <> b /\ hget h c = None /\
    (forall l, (l < length h)%nat -> hget h' l = hget h l) /\
    hget h' c = Some (f A B).
Proof. exact op_alloc_fresh. Qed.
Print Assumptions C15_compose_fresh.

(* hence the in-place scale() the library applies to products leaves both operands unchanged, and the rigid-motion
   laws keep holding for the operands *)
Theorem C15_scale_product_keeps_operands : forall h a b h' c k h'',
  compose_alloc h a b = Some (h', c) -> scale_inplace h' c k = Some h'' ->
  exists A B, hget h'' a = Some A /\ hget h'' b = Some B /\ hget h a = Some A /\ hget h b = Some B /\
    hget h'' c = Some (pscale k (rotate_translate_pose A B)) /\
    (forall x, rotate_translate (rotate_translate_pose A B) x = rotate_translate A (rotate_translate B x)) /\
    (valid_pose B -> forall x, inv_rotate_translate B (rotate_translate B x) = x).
Proof. exact compose_then_scale_laws. Qed.
Print Assumptions C15_scale_product_keeps_operands.

(* a composition with an identity fast path (returns an operand instead of a new object) is right by value at the
   time of the call, but scaling the product rewrites the operand: concrete heap *)
Theorem C15_identity_fastpath_refuted :
  (forall h a b h' c, compose_fastpath is_pose_id h a b = Some (h', c) ->
     exists A B, hget h a = Some A /\ hget h b = Some B /\ hget h' c = Some (rotate_translate_pose A B)) /\
  (exists (h : heap) (a b : loc) (k : R) h' c h'',
     compose_fastpath is_pose_id h a b = Some (h', c) /\ scale_inplace h' c k = Some h'' /\
     c = a /\ hget h'' a <> hget h a).
Proof. exact fastpath_summary. Qed.
Print Assumptions C15_identity_fastpath_refuted.

(* ---- constructors and getters of the rotation views are mutually inverse on their domains.
        rot_vec / rot_quat (scipy: from_matrix(R).as_rotvec()/as_quat()) are characterised, not computed: the matrix
        determines the unit quaternion up to sign (C15_views_unique); the getter works on the representative with
        w >= 0 (quat_canon) and reads angle = 2 atan2(|v|, w), axis = v/|v| off it (quat_to_rotvec).
        Domains: |r| < pi for matrix -> rotation vector (at |r| = pi the matrix of r and of -r coincide and w = 0:
        the axis sign is lost); antipodal quaternions q, -q and any positive or negative multiple give one pose *)
Theorem C15_view_constructors_getters_inverse :
  (forall r u, vnorm r < PI -> qnorm2 u = 1 -> quat_mat u = rodrigues r ->
               quat_to_rotvec (quat_canon u) = r /\ quat_canon u = quat_of_rotvec r) /\
  (forall r, vnorm r <= PI -> quat_to_rotvec (quat_of_rotvec r) = r) /\
  (forall r, vnorm r = PI -> qw (quat_of_rotvec r) = 0 /\ rodrigues (vneg r) = rodrigues r) /\
  (forall c u t, c <> 0 -> qnorm2 u <> 0 -> pose_from_quat (qscale c u) t = pose_from_quat u t) /\
  (forall u t, qnorm2 u <> 0 -> valid_pose (pose_from_quat u t) /\ mdet (pR (pose_from_quat u t)) = 1) /\
  (forall u, qnorm2 u = 1 -> quat_normalize u = u).
Proof. exact views_inverse_summary. Qed.
Print Assumptions C15_view_constructors_getters_inverse.

(* the constructors called without arguments give the identity pose (F15a was a violation of the second clause) *)
Theorem C15_constructor_defaults_identity :
  pose_from_rotvec rodrigues vzero vzero = pose_id /\ pose_from_quat (Q4 0 0 0 1) vzero = pose_id.
Proof. exact ctor_defaults_identity. Qed.
Print Assumptions C15_constructor_defaults_identity.

(* Pose.scale(k) composes with the transforms as a uniform scaling of space: scaling poses and points together
   commutes with every operation; on an unscaled point only the translation part moves; k = 1 is the identity *)
Theorem C15_scale_laws : forall k P Q x,
  rotate_translate (pscale k P) (vscale k x) = vscale k (rotate_translate P x) /\
  inv_rotate_translate (pscale k P) (vscale k x) = vscale k (inv_rotate_translate P x) /\
  rotate_translate_pose (pscale k P) (pscale k Q) = pscale k (rotate_translate_pose P Q) /\
  inv_rotate_translate_pose (pscale k P) (pscale k Q) = pscale k (inv_rotate_translate_pose P Q) /\
  rotate_translate (pscale k P) x = vadd (rotate_translate P x) (vscale (k - 1) (pt P)) /\
  pscale 1 P = P /\ (valid_pose P -> valid_pose (pscale k P)).
Proof. exact scale_laws. Qed.
Print Assumptions C15_scale_laws.

(* the solver's Rodrigues rotation at the half turn |r| = pi (no singularity: cos = -1, sin = 0): reflection about
   the axis.  Together with C15_projection_paths_agree (all r) and C15_projection_paths_zero_rotation (r = 0, the only
   branch of the code: nan_to_num / where=theta != 0) this covers every rotation vector; the code has no small-angle
   branch of its own, scipy's Taylor branch for |r| < 1e-3 is inside the hypothesis `as_matrix r = rodrigues r` *)
Theorem C15_solver_rotation_half_turn : forall p r t, vnorm r = PI ->
  solver_rotate_translate p r t = vadd (vsub (vscale (2 * vdot p (axis r)) (axis r)) p) t.
Proof. exact solver_rt_half_turn. Qed.
Print Assumptions C15_solver_rotation_half_turn.

(* ---- row-wise independence: the batched solver functions are modelled (and translated) as ONE row, i.e. every
        output row depends on its own (base-station pose, Crazyflie pose, sensor) only -- this is what
        C15_projection_paths_agree / C15_code_params_paths_agree state "for every parameter row".  A batch evaluation
        that shares axis/sin/cos inside a block of rows agrees only when the rows of a block have the same rotation
        vector, and differs on a concrete pair of rows otherwise *)
Theorem C15_block_shared_rotation_refuted :
  (forall p0 r t0 p1 t1, rt_block_shared2 p0 r t0 p1 r t1 = rt_rows2 p0 r t0 p1 r t1) /\
  (exists p0 r0 t0 p1 r1 t1, rt_block_shared2 p0 r0 t0 p1 r1 t1 <> rt_rows2 p0 r0 t0 p1 r1 t1).
Proof. exact block_shared_rotation_refuted. Qed.
Print Assumptions C15_block_shared_rotation_refuted.

(* ---- Wave 11: Pose.from_quat normalises its argument (scipy's Rotation.from_quat): any positive or negative multiple
        of a non-zero quaternion gives the same pose, its matrix is a rotation for EVERY non-zero quaternion, and
        inverse undoes forward.  (The zero quaternion is rejected by scipy: ValueError.) *)
Theorem C15_from_quat_normalises :
  (forall s u t, 0 < s -> qnorm2 u <> 0 -> pose_from_quat (qscale s u) t = pose_from_quat u t) /\
  (forall s u t, s < 0 -> qnorm2 u <> 0 -> pose_from_quat (qscale s u) t = pose_from_quat u t) /\
  (forall u t, qnorm2 u <> 0 -> rotation (pR (pose_from_quat u t))) /\
  (forall u t, qnorm2 u <> 0 -> forall x,
     inv_rotate_translate (pose_from_quat u t) (rotate_translate (pose_from_quat u t) x) = x /\
     rotate_translate (pose_from_quat u t) (inv_rotate_translate (pose_from_quat u t) x) = x).
Proof. exact from_quat_normalises. Qed.
Print Assumptions C15_from_quat_normalises.

(* the unit-quaternion formula applied to a non-unit quaternion ((0,0,1,1)) is not orthogonal and its transpose does
   not undo it: a from_quat that skips the normalisation violates the inverse clause *)
Theorem C15_unnormalised_quat_matrix_refuted :
  exists u, qnorm2 u <> 0 /\ ~ orthogonal (quat_mat u) /\
    exists x, inv_rotate_translate (Pose (quat_mat u) vzero) (rotate_translate (Pose (quat_mat u) vzero) x) <> x.
Proof. exact unnormalised_quat_matrix_refuted. Qed.
Print Assumptions C15_unnormalised_quat_matrix_refuted.
