(* C15/Proofs_pose.v — rigid-motion laws of Pose, Rodrigues / quaternion views, the geometry solver's
   vectorised projection, IPPE axis permutations. *)
From Coq Require Import Reals Lra Psatz Ratan Nsatz.
From CF Require Import C15.Model.
From CF Require Import C15.Proofs_bs.
Open Scope R_scope.

Ltac destr_all :=
  repeat match goal with
         | p : pose |- _ => destruct p
         | m : mat |- _ => destruct m
         | v : vec |- _ => destruct v
         | u : quat |- _ => destruct u
         end.

Ltac la_unfold :=
  unfold rotate_translate_pose, inv_rotate_translate_pose, rotate_translate, inv_rotate_translate, pose_id,
         rotate_vector_to_cf, rotate_vector_to_ippe, rotate_rot_mat_to_cf, R_cf_to_ippe, R_ippe_to_cf,
         mmul, mvec, mtrans, mident, vadd, vsub, vneg, vscale, vcross, vdot, vzero, mdet in *;
  cbn [pR pt vx vy vz m00 m01 m02 m10 m11 m12 m20 m21 m22] in *.

(* closes goals that are component-wise ring identities *)
Ltac rec_eq :=
  repeat match goal with
         | |- Pose _ _ = Pose _ _ => f_equal
         | |- M3 _ _ _ _ _ _ _ _ _ = M3 _ _ _ _ _ _ _ _ _ => f_equal
         | |- V3 _ _ _ = V3 _ _ _ => f_equal
         | |- (_, _) = (_, _) => f_equal
         end.
Ltac la_ring := intros; destr_all; la_unfold; rec_eq; ring.

(* ---------------------------------------------------------------- orthogonal matrices *)
Lemma orthogonal_components a :
  orthogonal a <->
  (m00 a * m00 a + m10 a * m10 a + m20 a * m20 a = 1 /\ m00 a * m01 a + m10 a * m11 a + m20 a * m21 a = 0 /\
   m00 a * m02 a + m10 a * m12 a + m20 a * m22 a = 0 /\ m01 a * m01 a + m11 a * m11 a + m21 a * m21 a = 1 /\
   m01 a * m02 a + m11 a * m12 a + m21 a * m22 a = 0 /\ m02 a * m02 a + m12 a * m12 a + m22 a * m22 a = 1).
Proof.
  unfold orthogonal. destruct a. la_unfold. split.
  - intros E. injection E as E0 E1 E2 E3 E4 E5 E6 E7 E8. repeat split; assumption.
  - intros (E0 & E1 & E2 & E4 & E5 & E8). f_equal; try assumption; lra.
Qed.


(* a left inverse of a square matrix is a right inverse *)
Lemma orthogonal_right a : orthogonal a -> mmul a (mtrans a) = mident.
Proof.
  intros H. apply orthogonal_components in H. destruct H as (E0 & E1 & E2 & E4 & E5 & E8).
  destruct a as [a b c d e f g h i]. la_unfold.
  f_equal; nsatz.
Qed.

Lemma orthogonal_trans a : orthogonal a -> orthogonal (mtrans a).
Proof.
  intros H. unfold orthogonal. replace (mtrans (mtrans a)) with a by (destruct a; reflexivity).
  now apply orthogonal_right.
Qed.

Lemma mmul_assoc a b c : mmul (mmul a b) c = mmul a (mmul b c).
Proof. la_ring. Qed.
Lemma mtrans_mmul a b : mtrans (mmul a b) = mmul (mtrans b) (mtrans a).
Proof. la_ring. Qed.
Lemma mmul_ident_l a : mmul mident a = a.
Proof. la_ring. Qed.
Lemma mmul_ident_r a : mmul a mident = a.
Proof. la_ring. Qed.
Lemma mvec_mmul a b x : mvec (mmul a b) x = mvec a (mvec b x).
Proof. la_ring. Qed.
Lemma mvec_ident x : mvec mident x = x.
Proof. la_ring. Qed.

Lemma orthogonal_mmul a b : orthogonal a -> orthogonal b -> orthogonal (mmul a b).
Proof.
  unfold orthogonal. intros Ha Hb. rewrite mtrans_mmul, mmul_assoc, <- (mmul_assoc (mtrans a) a b), Ha, mmul_ident_l. exact Hb.
Qed.

Lemma orthogonal_ident : orthogonal mident.
Proof. unfold orthogonal. la_ring. Qed.

Lemma mdet_mmul a b : mdet (mmul a b) = mdet a * mdet b.
Proof. la_ring. Qed.
Lemma mdet_mtrans a : mdet (mtrans a) = mdet a.
Proof. la_ring. Qed.

(* an orthogonal matrix preserves dot products, hence lengths: the motion is rigid *)
Lemma orthogonal_dot a x y : orthogonal a -> vdot (mvec a x) (mvec a y) = vdot x y.
Proof.
  intros H. apply orthogonal_components in H. destruct H as (E0 & E1 & E2 & E4 & E5 & E8).
  destr_all. la_unfold. nsatz.
Qed.

(* ---------------------------------------------------------------- Pose laws *)
Lemma pose_inverse_point P x : valid_pose P ->
  inv_rotate_translate P (rotate_translate P x) = x /\ rotate_translate P (inv_rotate_translate P x) = x.
Proof.
  unfold valid_pose. intros H. pose proof (orthogonal_right _ H) as Hr. unfold orthogonal in H.
  unfold rotate_translate, inv_rotate_translate. split.
  - replace (vsub (vadd (mvec (pR P) x) (pt P)) (pt P)) with (mvec (pR P) x) by la_ring.
    rewrite <- mvec_mmul, H. apply mvec_ident.
  - rewrite <- mvec_mmul, Hr, mvec_ident. la_ring.
Qed.

Lemma pose_inverse_pose P Q : valid_pose P ->
  inv_rotate_translate_pose P (rotate_translate_pose P Q) = Q /\
  rotate_translate_pose P (inv_rotate_translate_pose P Q) = Q.
Proof.
  unfold valid_pose. intros H. pose proof (orthogonal_right _ H) as Hr. unfold orthogonal in H.
  unfold rotate_translate_pose, inv_rotate_translate_pose. cbn [pR pt]. split.
  - rewrite <- mmul_assoc, H, mmul_ident_l.
    replace (vsub (vadd (mvec (pR P) (pt Q)) (pt P)) (pt P)) with (mvec (pR P) (pt Q)) by la_ring.
    rewrite <- mvec_mmul, H, mvec_ident. destruct Q; reflexivity.
  - rewrite <- mmul_assoc, Hr, mmul_ident_l, <- mvec_mmul, Hr, mvec_ident.
    replace (vadd (vsub (pt Q) (pt P)) (pt P)) with (pt Q) by la_ring. destruct Q; reflexivity.
Qed.

Lemma pose_assoc P Q S :
  rotate_translate_pose (rotate_translate_pose P Q) S = rotate_translate_pose P (rotate_translate_pose Q S).
Proof. la_ring. Qed.

Lemma pose_sequential P Q x :
  rotate_translate (rotate_translate_pose P Q) x = rotate_translate P (rotate_translate Q x).
Proof. la_ring. Qed.

Lemma mvec_vsub a x y : mvec a (vsub x y) = vsub (mvec a x) (mvec a y).
Proof. la_ring. Qed.

Lemma pose_inv_sequential P Q x : valid_pose P ->
  inv_rotate_translate (rotate_translate_pose P Q) x = inv_rotate_translate Q (inv_rotate_translate P x).
Proof.
  unfold valid_pose, orthogonal. intros H.
  unfold inv_rotate_translate, rotate_translate_pose. cbn [pR pt].
  rewrite mtrans_mmul, mvec_mmul. f_equal.
  replace (vsub x (vadd (mvec (pR P) (pt Q)) (pt P))) with (vsub (vsub x (pt P)) (mvec (pR P) (pt Q))) by la_ring.
  rewrite (mvec_vsub _ (vsub x (pt P))), <- (mvec_mmul (mtrans (pR P))), H, mvec_ident. reflexivity.
Qed.

(* inv_rotate_translate_pose P Q is "P^-1 o Q": applying it is applying Q, then undoing P *)
Lemma pose_inv_pose_sequential P Q x :
  rotate_translate (inv_rotate_translate_pose P Q) x = inv_rotate_translate P (rotate_translate Q x).
Proof. la_ring. Qed.

Lemma pose_id_left P : rotate_translate_pose pose_id P = P.
Proof. la_ring. Qed.
Lemma pose_id_right P : rotate_translate_pose P pose_id = P.
Proof. la_ring. Qed.
Lemma pose_id_point x : rotate_translate pose_id x = x /\ inv_rotate_translate pose_id x = x.
Proof. split; la_ring. Qed.

Lemma valid_compose P Q : valid_pose P -> valid_pose Q ->
  valid_pose (rotate_translate_pose P Q) /\ valid_pose (inv_rotate_translate_pose P Q).
Proof.
  unfold valid_pose, rotate_translate_pose, inv_rotate_translate_pose. cbn [pR]. intros HP HQ. split.
  - now apply orthogonal_mmul.
  - apply orthogonal_mmul; [now apply orthogonal_trans | assumption].
Qed.

(* rigid: distances between transformed points are preserved *)
Lemma pose_rigid P x y : valid_pose P ->
  let d := vsub (rotate_translate P x) (rotate_translate P y) in vdot d d = vdot (vsub x y) (vsub x y).
Proof.
  intros H. cbv zeta.
  replace (vsub (rotate_translate P x) (rotate_translate P y)) with (mvec (pR P) (vsub x y)) by la_ring.
  now apply orthogonal_dot.
Qed.

(* ---------------------------------------------------------------- rotation vectors *)
Lemma vnorm_nonneg r : 0 <= vnorm r.
Proof. unfold vnorm, norm3. apply sqrt_pos. Qed.

Lemma vnorm_sq r : vnorm r ^ 2 = vdot r r.
Proof. unfold vnorm. rewrite norm3_sq. unfold vdot. ring. Qed.

Lemma vnorm_zero_iff r : vnorm r = 0 <-> r = vzero.
Proof.
  split.
  - intros H. pose proof (vnorm_sq r) as E. rewrite H in E. destruct r as [x y z]. unfold vdot in E. cbn [vx vy vz] in E.
    assert (x = 0) by nra. assert (y = 0) by nra. assert (z = 0) by nra. subst. reflexivity.
  - intros ->. unfold vnorm, vzero, norm3. cbn [vx vy vz]. replace (0 ^ 2 + 0 ^ 2 + 0 ^ 2) with 0 by ring. apply sqrt_0.
Qed.

Lemma vnorm_vneg r : vnorm (vneg r) = vnorm r.
Proof. unfold vnorm, vneg, norm3. cbn [vx vy vz]. f_equal. ring. Qed.

(* the nan_to_num branch: the zero rotation vector has axis 0 (0/0 -> nan -> 0) *)
Lemma axis_zero : axis vzero = vzero.
Proof.
  unfold axis. cbv zeta. assert (E : vnorm vzero = 0) by (apply vnorm_zero_iff; reflexivity).
  rewrite E. unfold nan_div. destruct (Req_EM_T 0 0); [reflexivity | contradiction].
Qed.

Lemma axis_nonzero r : r <> vzero -> axis r = vscale (/ vnorm r) r.
Proof.
  intros H. unfold axis. cbv zeta. unfold nan_div.
  destruct (Req_EM_T (vnorm r) 0) as [E | E]; [apply vnorm_zero_iff in E; contradiction|].
  unfold vscale. f_equal; field; assumption.
Qed.

Lemma axis_unit r : r <> vzero -> vdot (axis r) (axis r) = 1.
Proof.
  intros H. rewrite axis_nonzero by assumption.
  assert (E : vnorm r <> 0) by (intros E; apply vnorm_zero_iff in E; contradiction).
  pose proof (vnorm_sq r) as S. destruct r as [x y z]. unfold vscale, vdot in *. cbn [vx vy vz] in *.
  set (n := vnorm (V3 x y z)) in *.
  replace (/ n * x * (/ n * x) + / n * y * (/ n * y) + / n * z * (/ n * z)) with ((x * x + y * y + z * z) / n ^ 2) by (field; assumption).
  rewrite <- S. field. assumption.
Qed.

Lemma axis_times_norm r : vscale (vnorm r) (axis r) = r.
Proof.
  destruct (vnorm_zero_iff r) as [A B].
  unfold axis. cbv zeta. unfold nan_div. destruct (Req_EM_T (vnorm r) 0) as [E | E].
  - rewrite (A E). unfold vscale, vzero. cbn [vx vy vz]. f_equal; ring.
  - destruct r as [x y z]. unfold vscale. cbn [vx vy vz] in *. f_equal; field; assumption.
Qed.

Lemma axis_vneg r : axis (vneg r) = vneg (axis r).
Proof.
  unfold axis. cbv zeta. rewrite vnorm_vneg. unfold nan_div, vneg. cbn [vx vy vz].
  destruct (Req_EM_T (vnorm r) 0) as [E | E].
  - f_equal; ring.
  - f_equal; field; assumption.
Qed.

(* axis is a unit vector or, exactly for the zero rotation, the zero vector *)
Lemma axis_cases r : (r = vzero /\ vnorm r = 0 /\ axis r = vzero) \/ (r <> vzero /\ vdot (axis r) (axis r) = 1).
Proof.
  destruct (Req_EM_T (vnorm r) 0) as [E | E].
  - left. pose proof (proj1 (vnorm_zero_iff r) E) as ->. repeat split; [assumption | apply axis_zero].
  - right. assert (r <> vzero) by (intros ->; apply E; apply vnorm_zero_iff; reflexivity).
    split; [assumption | now apply axis_unit].
Qed.

(* ---------------------------------------------------------------- Rodrigues matrix *)
Lemma rodrigues_zero : rodrigues vzero = mident.
Proof.
  unfold rodrigues. cbv zeta. rewrite axis_zero.
  assert (E : vnorm vzero = 0) by (apply vnorm_zero_iff; reflexivity). rewrite E, cos_0, sin_0.
  unfold vzero, mident. cbn [vx vy vz]. f_equal; ring.
Qed.

Lemma rodrigues_orthogonal r : orthogonal (rodrigues r).
Proof.
  destruct (axis_cases r) as [(-> & _ & _) | (Hr & Hk)].
  - rewrite rodrigues_zero. apply orthogonal_ident.
  - unfold orthogonal, rodrigues. cbv zeta.
    pose proof (sin2_cos2 (vnorm r)) as Hsc. unfold Rsqr in Hsc.
    set (c := cos (vnorm r)) in *. set (s := sin (vnorm r)) in *.
    destruct (axis r) as [kx ky kz]. unfold vdot in Hk. la_unfold.
    f_equal; nsatz.
Qed.

Lemma rodrigues_det r : mdet (rodrigues r) = 1.
Proof.
  destruct (axis_cases r) as [(-> & _ & _) | (Hr & Hk)].
  - rewrite rodrigues_zero. la_unfold. ring.
  - unfold rodrigues. cbv zeta.
    pose proof (sin2_cos2 (vnorm r)) as Hsc. unfold Rsqr in Hsc.
    set (c := cos (vnorm r)) in *. set (s := sin (vnorm r)) in *.
    destruct (axis r) as [kx ky kz]. unfold vdot in Hk. la_unfold.
    nsatz.
Qed.

Lemma rodrigues_rotation r : rotation (rodrigues r).
Proof. split; [apply rodrigues_orthogonal | apply rodrigues_det]. Qed.

(* the inverse rotation is the rotation by the negated vector (what _calc_angle_pairs relies on) *)
Lemma rodrigues_vneg r : rodrigues (vneg r) = mtrans (rodrigues r).
Proof.
  unfold rodrigues. cbv zeta. rewrite vnorm_vneg, axis_vneg.
  destruct (axis r) as [kx ky kz]. unfold vneg, mtrans. cbn [vx vy vz m00 m01 m02 m10 m11 m12 m20 m21 m22].
  f_equal; ring.
Qed.

(* the rotation axis is fixed by the rotation *)
Lemma rodrigues_fixes_axis r : mvec (rodrigues r) r = r.
Proof.
  rewrite <- (axis_times_norm r) at 2 3.
  destruct (axis_cases r) as [(-> & E & Ha) | (Hr & Hk)].
  - rewrite rodrigues_zero, mvec_ident. reflexivity.
  - unfold rodrigues. cbv zeta. set (th := vnorm r). set (c := cos th). set (s := sin th).
    destruct (axis r) as [kx ky kz]. unfold vdot in Hk. la_unfold.
    f_equal; nsatz.
Qed.

(* ---------------------------------------------------------------- quaternion view *)
Lemma quat_mat_orthogonal u : qnorm2 u = 1 -> orthogonal (quat_mat u).
Proof.
  destruct u as [x y z w]. unfold qnorm2, orthogonal, quat_mat. cbn [qx qy qz qw]. intros H. la_unfold.
  f_equal; nsatz.
Qed.

Lemma quat_mat_det u : qnorm2 u = 1 -> mdet (quat_mat u) = 1.
Proof.
  destruct u as [x y z w]. unfold qnorm2, quat_mat. cbn [qx qy qz qw]. intros H. la_unfold.
  nsatz.
Qed.

(* q and -q describe the same rotation *)
Lemma quat_mat_neg u : quat_mat (Q4 (- qx u) (- qy u) (- qz u) (- qw u)) = quat_mat u.
Proof. destruct u as [x y z w]. unfold quat_mat. cbn [qx qy qz qw]. f_equal; ring. Qed.

Lemma quat_of_rotvec_unit r : qnorm2 (quat_of_rotvec r) = 1.
Proof.
  unfold quat_of_rotvec, qnorm2. cbv zeta. cbn [qx qy qz qw].
  pose proof (sin2_cos2 (vnorm r / 2)) as Hsc. unfold Rsqr in Hsc.
  set (c := cos (vnorm r / 2)) in *. set (s := sin (vnorm r / 2)) in *.
  destruct (axis_cases r) as [(-> & E & Ha) | (Hr & Hk)].
  - subst c s. rewrite E. replace (0 / 2) with 0 by field. rewrite sin_0, cos_0. ring.
  - destruct (axis r) as [kx ky kz]. unfold vdot in Hk. cbn [vx vy vz] in *. nsatz.
Qed.

Lemma rodrigues_quat r : rodrigues r = quat_mat (quat_of_rotvec r).
Proof.
  destruct (axis_cases r) as [(-> & E & Ha) | (Hr & Hk)].
  - rewrite rodrigues_zero. unfold quat_of_rotvec, quat_mat. cbv zeta. rewrite Ha, E.
    replace (0 / 2) with 0 by field. rewrite sin_0, cos_0. unfold vzero, mident. cbn [qx qy qz qw vx vy vz].
    f_equal; ring.
  - unfold rodrigues, quat_of_rotvec, quat_mat. cbv zeta. cbn [qx qy qz qw].
    set (th := vnorm r).
    assert (Hs : sin th = 2 * sin (th / 2) * cos (th / 2)) by (rewrite <- sin_2a; f_equal; field).
    assert (Hc : cos th = 1 - 2 * sin (th / 2) * sin (th / 2)) by (rewrite <- cos_2a_sin; f_equal; field).
    pose proof (sin2_cos2 (th / 2)) as Hsc. unfold Rsqr in Hsc.
    rewrite Hs, Hc.
    set (c := cos (th / 2)) in *. set (s := sin (th / 2)) in *.
    destruct (axis r) as [kx ky kz]. unfold vdot in Hk. cbn [vx vy vz] in *. f_equal; nsatz.
Qed.

(* ---------------------------------------------------------------- the solver's Rodrigues path *)
Lemma solver_rt_is_pose p r t : solver_rotate_translate p r t = rotate_translate (Pose (rodrigues r) t) p.
Proof.
  unfold solver_rotate_translate, rotate_translate, rodrigues. cbv zeta. cbn [pR pt].
  destruct (axis r) as [kx ky kz]. destruct p as [px py pz]. destruct t as [tx ty tz].
  la_unfold. f_equal; ring.
Qed.

Lemma solver_rt_zero p t : solver_rotate_translate p vzero t = vadd p t.
Proof. rewrite solver_rt_is_pose, rodrigues_zero. unfold rotate_translate. cbn [pR pt]. now rewrite mvec_ident. Qed.

Lemma solver_point_is_pose bs_r bs_t cf_r cf_t s :
  solver_point_in_bs bs_r bs_t cf_r cf_t s =
  inv_rotate_translate (Pose (rodrigues bs_r) bs_t) (rotate_translate (Pose (rodrigues cf_r) cf_t) s).
Proof.
  unfold solver_point_in_bs. cbv zeta. rewrite !solver_rt_is_pose, rodrigues_vneg.
  unfold rotate_translate, inv_rotate_translate. cbn [pR pt].
  set (x := vsub _ _). destruct (mvec (mtrans (rodrigues bs_r)) x). la_unfold. f_equal; ring.
Qed.

Section Scipy.
  (* Rotation.from_rotvec(r).as_matrix() of scipy: outside the model; assumed to be the Rodrigues matrix
     (validated numerically on every run, incl. r = 0, |r| = 1e-9 and |r| = pi) *)
  Variable as_matrix : vec -> mat.
  Hypothesis as_matrix_rodrigues : forall r, as_matrix r = rodrigues r.

  Lemma from_rot_vec_valid r t : valid_pose (pose_from_rotvec as_matrix r t) /\ mdet (pR (pose_from_rotvec as_matrix r t)) = 1.
  Proof. unfold valid_pose, pose_from_rotvec. cbn [pR]. rewrite as_matrix_rodrigues. apply rodrigues_rotation. Qed.

  Lemma projection_paths_agree bs_r bs_t cf_r cf_t s :
    solver_angle_pair bs_r bs_t cf_r cf_t s =
    types_angle_pair (pose_from_rotvec as_matrix bs_r bs_t) (pose_from_rotvec as_matrix cf_r cf_t) s.
  Proof.
    unfold solver_angle_pair, types_angle_pair, pose_from_rotvec, from_cart. cbv zeta.
    rewrite !as_matrix_rodrigues, solver_point_is_pose. reflexivity.
  Qed.

  (* zero rotation vectors (the nan_to_num branch): both paths are the pure translation *)
  Lemma projection_paths_zero_rotation bs_t cf_t s :
    solver_angle_pair vzero bs_t vzero cf_t s = from_cart (vsub (vadd s cf_t) bs_t) /\
    types_angle_pair (pose_from_rotvec as_matrix vzero bs_t) (pose_from_rotvec as_matrix vzero cf_t) s
      = from_cart (vsub (vadd s cf_t) bs_t).
  Proof.
    rewrite <- projection_paths_agree. split; [|].
    - unfold solver_angle_pair, solver_point_in_bs, from_cart. cbv zeta.
      replace (vneg vzero) with vzero by (unfold vneg, vzero; cbn [vx vy vz]; f_equal; ring).
      rewrite !solver_rt_zero.
      replace (vadd (vsub (vadd s cf_t) bs_t) vzero) with (vsub (vadd s cf_t) bs_t) by la_ring. reflexivity.
    - unfold solver_angle_pair, solver_point_in_bs, from_cart. cbv zeta.
      replace (vneg vzero) with vzero by (unfold vneg, vzero; cbn [vx vy vz]; f_equal; ring).
      rewrite !solver_rt_zero.
      replace (vadd (vsub (vadd s cf_t) bs_t) vzero) with (vsub (vadd s cf_t) bs_t) by la_ring. reflexivity.
  Qed.

  (* matrix, rotation-vector and quaternion views describe one rotation *)
  Lemma views_agree r :
    as_matrix r = quat_mat (quat_of_rotvec r) /\ qnorm2 (quat_of_rotvec r) = 1 /\
    rotation (as_matrix r) /\ mvec (as_matrix r) r = r /\
    as_matrix (vneg r) = mtrans (as_matrix r).
  Proof.
    rewrite !as_matrix_rodrigues. repeat split.
    - apply rodrigues_quat.
    - apply quat_of_rotvec_unit.
    - apply rodrigues_orthogonal.
    - apply rodrigues_det.
    - apply rodrigues_fixes_axis.
    - apply rodrigues_vneg.
  Qed.
End Scipy.

(* ---------------------------------------------------------------- IPPE <-> CF axis permutation *)
Lemma ippe_perm_inverse v :
  rotate_vector_to_cf (rotate_vector_to_ippe v) = v /\ rotate_vector_to_ippe (rotate_vector_to_cf v) = v.
Proof. split; la_ring. Qed.

Lemma ippe_perm_explicit x y z :
  rotate_vector_to_ippe (V3 x y z) = V3 (- y) (- z) x /\ rotate_vector_to_cf (V3 x y z) = V3 z (- x) (- y).
Proof. split; la_ring. Qed.

Lemma ippe_perm_rotation : rotation R_ippe_to_cf /\ rotation R_cf_to_ippe.
Proof. unfold rotation, orthogonal. repeat split; la_unfold; try (f_equal; ring); ring. Qed.

Lemma ippe_rot_mat_to_cf_rotation a : rotation a -> rotation (rotate_rot_mat_to_cf a).
Proof.
  intros [Ho Hd]. destruct ippe_perm_rotation as [[O1 D1] [O2 D2]].
  unfold rotate_rot_mat_to_cf. split.
  - apply orthogonal_mmul; [assumption|]. apply orthogonal_mmul; assumption.
  - rewrite !mdet_mmul, Hd, D1, D2. ring.
Qed.

(* a solution (R, t) found in the IPPE frame, converted to CF, maps CF-frame model points as the
   original maps their IPPE images *)
Lemma ippe_solution_transfer a t u :
  rotate_vector_to_cf (vadd (mvec a (rotate_vector_to_ippe u)) t) =
  vadd (mvec (rotate_rot_mat_to_cf a) u) (rotate_vector_to_cf t).
Proof. la_ring. Qed.

(* image coordinates: the pinhole projection (X/Z, Y/Z) of the IPPE image of a CF point is the negated
   x=1-plane projection (y/x, z/x), which is what _cf_to_ippe does to Q *)
Lemma ippe_image_point p :
  let i := rotate_vector_to_ippe p in (vx i / vz i, vy i / vz i) = q_to_ippe (vy p / vx p) (vz p / vx p).
Proof.
  destruct p as [x y z]. cbv zeta. destruct (ippe_perm_explicit x y z) as [E _]. rewrite E.
  unfold q_to_ippe. cbn [vx vy vz]. f_equal; unfold Rdiv; ring.
Qed.

