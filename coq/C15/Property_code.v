(* C15/Property_code.v — property C15, CODE-LEVEL theorems: the main statements on the expression trees `gen_*`
   that harness/trans/c15_formulas.py regenerates from cflib's current source on every run (C15/Gen_Formulas.v),
   and the tie "every translated function denotes the model function used in C15/Property.v" (C15/GenTie.v).
   Theorems only; each is closed by `exact <lemma>` and followed by Print Assumptions. *)
From Coq Require Import Reals List.
From CF Require Import C15.Model.
From CF Require Import C15.Proofs_bs.
From CF Require Import C15.Proofs_pose.
From CF Require Import C15.Gen_Formulas.
From CF Require Import C15.GenTie.
From CF Require Import C15.Proofs_code.
From CF Require Import C15.Heap.
Import ListNotations.
Open Scope R_scope.

(* the same round trip stated directly on the expression trees translated from lighthouse_bs_vector.py *)
Theorem C15_code_v1_v2_inverse : forall h v, in_fov h v ->
  ev (ev [h; v] [gen_lh_v2_angle_1_0; gen_lh_v2_angle_2_0]) [gen_from_lh2_0; gen_from_lh2_1] = [h; v].
Proof. exact code_v1_v2_inverse. Qed.
Print Assumptions C15_code_v1_v2_inverse.

Theorem C15_code_cart_unit : forall h v,
  match ev [h; v] [gen_cart_0; gen_cart_1; gen_cart_2] with
  | [x; y; z] => sqrt (x ^ 2 + y ^ 2 + z ^ 2) = 1
  | _ => False
  end.
Proof. exact code_cart_unit. Qed.
Print Assumptions C15_code_cart_unit.

(* stated on the trees translated from _calc_angle_pairs / Pose / from_cart *)
Theorem C15_code_projection_paths_agree : forall bs_r bs_t cf_r cf_t s,
  ev (vec_list bs_r ++ vec_list bs_t ++ vec_list cf_r ++ vec_list cf_t ++ vec_list s)
     [gen_solver_calc_angle_pairs_0; gen_solver_calc_angle_pairs_1]
  = ev (ev (mat_list (rodrigues bs_r) ++ vec_list bs_t ++
            ev (mat_list (rodrigues cf_r) ++ vec_list cf_t ++ vec_list s)
               [gen_pose_rotate_translate_0; gen_pose_rotate_translate_1; gen_pose_rotate_translate_2])
           [gen_pose_inv_rotate_translate_0; gen_pose_inv_rotate_translate_1; gen_pose_inv_rotate_translate_2])
       [gen_from_cart_0; gen_from_cart_1].
Proof. exact code_projection_paths_agree. Qed.
Print Assumptions C15_code_projection_paths_agree.

(* ---- every translated function denotes the model function used above *)
Theorem C15_code_matches_model : code_matches_model.
Proof. exact code_matches_model_holds. Qed.
Print Assumptions C15_code_matches_model.

(* ---- the trees the harness evaluates against scipy (validation of the hypothesis `as_matrix r = rodrigues r`)
        are the Coq definitions rodrigues / quat_of_rotvec / quat_mat *)
Theorem C15_scipy_hypothesis_transport :
  (forall r, ev (vec_list r) [gen_spec_rodrigues_0; gen_spec_rodrigues_1; gen_spec_rodrigues_2; gen_spec_rodrigues_3;
                              gen_spec_rodrigues_4; gen_spec_rodrigues_5; gen_spec_rodrigues_6; gen_spec_rodrigues_7;
                              gen_spec_rodrigues_8] = mat_list (rodrigues r)) /\
  (forall r, ev (vec_list r) [gen_spec_quat_of_rotvec_0; gen_spec_quat_of_rotvec_1; gen_spec_quat_of_rotvec_2;
                              gen_spec_quat_of_rotvec_3] = quat_list (quat_of_rotvec r)) /\
  (forall u, ev (quat_list u) [gen_spec_quat_mat_0; gen_spec_quat_mat_1; gen_spec_quat_mat_2; gen_spec_quat_mat_3;
                               gen_spec_quat_mat_4; gen_spec_quat_mat_5; gen_spec_quat_mat_6; gen_spec_quat_mat_7;
                               gen_spec_quat_mat_8] = mat_list (quat_mat u)).
Proof. exact spec_transport. Qed.
Print Assumptions C15_scipy_hypothesis_transport.

(* ---- growth round: Pose.scale / matrix_vec / from_rot_vec / from_quat (+ defaults), the solver's _params_to_pose
        and _poses_to_angle_pairs, the LighthouseBsVectors list helpers, and the transport of quat_to_rotvec *)
Theorem C15_code_matches_model_2 : code_matches_model_2.
Proof. exact code_matches_model_2_holds. Qed.
Print Assumptions C15_code_matches_model_2.

(* both projection paths exactly as the solver uses them (_poses_to_angle_pairs  vs  _params_to_pose + Pose +
   from_cart), on the translated trees, for every parameter row *)
Theorem C15_code_params_paths_agree : forall bs_r bs_t cf_r cf_t s,
  ev (vec_list bs_r ++ vec_list bs_t ++ vec_list cf_r ++ vec_list cf_t ++ vec_list s)
     [gen_solver_poses_to_angle_pairs_0; gen_solver_poses_to_angle_pairs_1]
  = ev (ev (ev (vec_list bs_r ++ vec_list bs_t) gen_solver_params_to_pose ++
            ev (ev (vec_list cf_r ++ vec_list cf_t) gen_solver_params_to_pose ++ vec_list s)
               [gen_pose_rotate_translate_0; gen_pose_rotate_translate_1; gen_pose_rotate_translate_2])
           [gen_pose_inv_rotate_translate_0; gen_pose_inv_rotate_translate_1; gen_pose_inv_rotate_translate_2])
       [gen_from_cart_0; gen_from_cart_1].
Proof. exact code_params_paths_agree. Qed.
Print Assumptions C15_code_params_paths_agree.
