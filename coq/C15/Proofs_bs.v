(* C15/Proofs_bs.v — lighthouse_bs_vector.py: V1 <-> V2 sweep angles, Cartesian, projection. *)
From Coq Require Import Reals Lra Psatz Ratan.
From CF Require Import C15.Model.
Open Scope R_scope.

(* ---------------------------------------------------------------- atan2 *)
Lemma atan2_pos y x : 0 < x -> atan2 y x = atan (y / x).
Proof. intros H. unfold atan2. destruct (Rlt_dec 0 x); [reflexivity | contradiction]. Qed.

(* ---------------------------------------------------------------- Rabs helpers (Rabs_le_inv is not in 8.16) *)
Lemma Rabs_le_both a b : Rabs a <= b -> - b <= a <= b.
Proof. unfold Rabs. destruct (Rcase_abs a); lra. Qed.

(* ---------------------------------------------------------------- trigonometry *)
Lemma cos_pos_h h : - (PI / 2) < h < PI / 2 -> 0 < cos h.
Proof. intros; apply cos_gt_0; lra. Qed.

Lemma sqrt_1_tan2 h : - (PI / 2) < h < PI / 2 -> sqrt (1 + (tan h) ^ 2) = / cos h.
Proof.
  intros H. pose proof (cos_pos_h h H) as Hc.
  unfold tan.
  replace (1 + (sin h / cos h) ^ 2) with ((/ cos h) ^ 2).
  - rewrite <- Rsqr_pow2. apply sqrt_Rsqr. left. now apply Rinv_0_lt_compat.
  - pose proof (sin2_cos2 h) as E. unfold Rsqr in E. field_simplify_eq; [|lra]. nra.
Qed.

Lemma T_range : 0 < T < PI / 2.
Proof. unfold T. pose proof PI_RGT_0. lra. Qed.

Lemma tanT_pos : 0 < tan T.
Proof. apply tan_gt_0; pose proof T_range; lra. Qed.

Lemma tan_compl x : 0 < x < PI / 2 -> tan (PI / 2 - x) * tan x = 1.
Proof.
  intros H. unfold tan. rewrite cos_shift, sin_shift.
  assert (0 < sin x) by (apply sin_gt_0; lra).
  assert (0 < cos x) by (apply cos_gt_0; lra).
  field. split; apply Rgt_not_eq; assumption.
Qed.

(* for 0 <= v < pi/2 - T:  tan v * tan T < 1 *)
Lemma tan_tanT_lt_1 v : 0 <= v -> v < PI / 2 - T -> 0 <= tan v /\ tan v * tan T < 1.
Proof.
  intros H0 H1. pose proof T_range as HT. pose proof tanT_pos as HtT.
  assert (H2 : 0 <= tan v).
  { destruct H0 as [H0 | <-]; [left; apply tan_gt_0; lra | rewrite tan_0; lra]. }
  split; [assumption|].
  assert (H3 : tan v < tan (PI / 2 - T)) by (apply tan_increasing; lra).
  pose proof (tan_compl T HT) as E. nra.
Qed.

Lemma fov_ranges h v : in_fov h v ->
  - (PI / 2) < h < PI / 2 /\ - (PI / 2 - T) < v < PI / 2 - T.
Proof.
  intros [Hh Hv]. apply Rabs_le_both in Hh. apply Rabs_le_both in Hv.
  unfold deg, T in *. pose proof PI_RGT_0. lra.
Qed.

(* q in closed form and the bound that makes both asin arguments legal ("both V2 sweeps exist") *)
Lemma q_closed h v : - (PI / 2) < h < PI / 2 -> q h v = tan v * cos h.
Proof.
  intros H. unfold q. rewrite sqrt_1_tan2 by assumption.
  pose proof (cos_pos_h h H). field. apply Rgt_not_eq; assumption.
Qed.

Lemma sweeps_exist_gen h v :
  - (PI / 2) < h < PI / 2 -> - (PI / 2 - T) < v < PI / 2 - T -> -1 < q h v * tan T < 1.
Proof.
  intros Hh Hv. rewrite q_closed by assumption.
  pose proof (cos_pos_h h Hh) as Hc. pose proof (COS_bound h) as [_ Hc1].
  pose proof tanT_pos as HtT. pose proof T_range as HT.
  destruct (Rle_dec 0 v) as [Hv0 | Hv0].
  - destruct (tan_tanT_lt_1 v Hv0 (proj2 Hv)) as [A B]. nra.
  - assert (Hn : 0 <= - v) by lra.
    destruct (tan_tanT_lt_1 (- v) Hn) as [A B]; [lra|].
    rewrite tan_neg in A, B. nra.
Qed.

Lemma sweeps_exist h v : in_fov h v -> -1 < q h v * tan T < 1.
Proof. intros H. destruct (fov_ranges h v H). now apply sweeps_exist_gen. Qed.

(* ---------------------------------------------------------------- V1 -> V2 -> V1 *)
Lemma horiz_inverse h v : from_lh2_h (lh_v2_angle_1 h v) (lh_v2_angle_2 h v) = h.
Proof.
  unfold from_lh2_h, lh_v2_angle_1, lh_v2_angle_2. rewrite tan_neg.
  replace (q h v * - tan T) with (- (q h v * tan T)) by ring.
  rewrite asin_opp. field.
Qed.

Lemma vert_inverse h v :
  - (PI / 2) < h < PI / 2 -> - (PI / 2) < v < PI / 2 ->
  -1 < q h v * tan T < 1 ->
  from_lh2_v (lh_v2_angle_1 h v) (lh_v2_angle_2 h v) = v.
Proof.
  intros Hh Hv Hq.
  set (b := asin (q h v * tan T)).
  assert (A1 : lh_v2_angle_1 h v = h - b).
  { unfold lh_v2_angle_1, b. rewrite tan_neg. replace (q h v * - tan T) with (- (q h v * tan T)) by ring.
    rewrite asin_opp. ring. }
  assert (A2 : lh_v2_angle_2 h v = h + b) by reflexivity.
  unfold from_lh2_v. rewrite A1, A2.
  replace (h + b - (h - b)) with (2 * b) by ring.
  rewrite sin_2a, cos_minus, cos_plus.
  assert (Hsb : sin b = q h v * tan T). { unfold b. apply sin_asin. split; apply Rlt_le; apply Hq. }
  assert (Hcb : 0 < cos b).
  { unfold b. rewrite cos_asin by lra. apply sqrt_lt_R0. set (x := q h v * tan T) in *. unfold Rsqr. nra. }
  pose proof (cos_pos_h h Hh) as Hch. pose proof tanT_pos as HT.
  replace (cos h * cos b + sin h * sin b + (cos h * cos b - sin h * sin b)) with (2 * cos h * cos b) by ring.
  rewrite atan2_pos by (apply Rmult_lt_0_compat; [assumption | nra]).
  replace (2 * sin b * cos b / (tan T * (2 * cos h * cos b))) with (sin b / (tan T * cos h))
    by (field; repeat split; apply Rgt_not_eq; assumption).
  rewrite Hsb. unfold q. rewrite sqrt_1_tan2 by assumption.
  replace (tan v / / cos h * tan T / (tan T * cos h)) with (tan v) by (field; repeat split; apply Rgt_not_eq; assumption).
  apply atan_tan. assumption.
Qed.

Lemma v1_v2_inverse h v : in_fov h v -> from_lh2 (lh_v2_angle_1 h v) (lh_v2_angle_2 h v) = (h, v).
Proof.
  intros H. destruct (fov_ranges h v H) as [Hh Hv]. pose proof T_range.
  unfold from_lh2. rewrite horiz_inverse, vert_inverse; try assumption; try lra.
  - reflexivity.
  - now apply sweeps_exist.
Qed.

(* V2 -> V1 -> V2 on the image of the field of view *)
Lemma v2_v1_inverse a1 a2 :
  (exists h v, in_fov h v /\ a1 = lh_v2_angle_1 h v /\ a2 = lh_v2_angle_2 h v) ->
  let hv := from_lh2 a1 a2 in lh_v2_angle_1 (fst hv) (snd hv) = a1 /\ lh_v2_angle_2 (fst hv) (snd hv) = a2.
Proof.
  intros (h & v & H & -> & ->). cbv zeta. rewrite v1_v2_inverse by assumption. split; reflexivity.
Qed.

(* the two sweeps differ by exactly the tilt term and are symmetric about the horizontal angle *)
Lemma v2_symmetric h v : lh_v2_angle_1 h v + lh_v2_angle_2 h v = 2 * h.
Proof. pose proof (horiz_inverse h v) as E. unfold from_lh2_h in E. lra. Qed.

(* ---------------------------------------------------------------- Cartesian form *)
Lemma norm3_pos b c : 0 < norm3 1 b c.
Proof. unfold norm3. apply sqrt_lt_R0. nra. Qed.

Lemma norm3_sq a b c : norm3 a b c ^ 2 = a ^ 2 + b ^ 2 + c ^ 2.
Proof.
  unfold norm3. replace (sqrt (a ^ 2 + b ^ 2 + c ^ 2) ^ 2) with (Rsqr (sqrt (a ^ 2 + b ^ 2 + c ^ 2))) by (unfold Rsqr; ring).
  apply Rsqr_sqrt. nra.
Qed.

Lemma cart_unit h v : vnorm (cart h v) = 1.
Proof.
  unfold vnorm, cart. cbv zeta. cbn [vx vy vz].
  set (n := norm3 1 (tan h) (tan v)).
  assert (Hn : 0 < n) by apply norm3_pos.
  pose proof (norm3_sq 1 (tan h) (tan v)) as E. fold n in E.
  unfold norm3 at 1.
  replace ((1 / n) ^ 2 + (tan h / n) ^ 2 + (tan v / n) ^ 2) with 1.
  - apply sqrt_1.
  - field_simplify_eq; [|lra]. lra.
Qed.

Lemma cart_x_pos h v : 0 < vx (cart h v).
Proof.
  unfold cart. cbv zeta. cbn [vx]. pose proof (norm3_pos (tan h) (tan v)).
  apply Rdiv_lt_0_compat; lra.
Qed.

Lemma from_cart_cart h v :
  - (PI / 2) < h < PI / 2 -> - (PI / 2) < v < PI / 2 -> from_cart (cart h v) = (h, v).
Proof.
  intros Hh Hv. unfold from_cart. rewrite !atan2_pos by apply cart_x_pos.
  unfold cart. cbv zeta. cbn [vx vy vz].
  pose proof (norm3_pos (tan h) (tan v)) as Hn. set (n := norm3 1 (tan h) (tan v)) in *.
  replace (tan h / n / (1 / n)) with (tan h) by (field; lra).
  replace (tan v / n / (1 / n)) with (tan v) by (field; lra).
  rewrite !atan_tan by assumption. reflexivity.
Qed.

(* the other direction: any vector in front of the base station (x > 0) is recovered up to its length *)
Lemma cart_from_cart p : 0 < vx p ->
  let hv := from_cart p in cart (fst hv) (snd hv) = V3 (vx p / vnorm p) (vy p / vnorm p) (vz p / vnorm p).
Proof.
  intros Hx. unfold from_cart. cbv zeta. cbn [fst snd]. rewrite !atan2_pos by assumption.
  unfold cart. cbv zeta. rewrite !tan_atan. destruct p as [x y z]. cbn [vx vy vz] in *.
  unfold vnorm. cbn [vx vy vz].
  assert (E : norm3 1 (y / x) (z / x) = norm3 x y z / x).
  { unfold norm3.
    replace (1 ^ 2 + (y / x) ^ 2 + (z / x) ^ 2) with ((x ^ 2 + y ^ 2 + z ^ 2) / (x ^ 2)) by (field; lra).
    rewrite sqrt_div_alt by nra.
    replace (x ^ 2) with (Rsqr x) by (unfold Rsqr; ring).
    rewrite sqrt_Rsqr by lra. replace (Rsqr x) with (x ^ 2) by (unfold Rsqr; ring). reflexivity. }
  rewrite E.
  assert (Hn : 0 < norm3 x y z) by (unfold norm3; apply sqrt_lt_R0; nra).
  f_equal; field; split; apply Rgt_not_eq; assumption.
Qed.

(* ---------------------------------------------------------------- projection on the plane x = 1 *)
Lemma from_projection_projection h v :
  - (PI / 2) < h < PI / 2 -> - (PI / 2) < v < PI / 2 ->
  from_projection (fst (projection h v)) (snd (projection h v)) = (h, v).
Proof. intros Hh Hv. unfold from_projection, projection. cbn [fst snd]. rewrite !atan_tan by assumption. reflexivity. Qed.

Lemma projection_from_projection y z :
  projection (fst (from_projection y z)) (snd (from_projection y z)) = (y, z).
Proof. unfold from_projection, projection. cbn [fst snd]. rewrite !tan_atan. reflexivity. Qed.

(* the projection is the Cartesian direction scaled to x = 1 *)
Lemma projection_of_cart h v :
  projection h v = (vy (cart h v) / vx (cart h v), vz (cart h v) / vx (cart h v)).
Proof.
  unfold projection, cart. cbv zeta. cbn [vx vy vz].
  pose proof (norm3_pos (tan h) (tan v)) as Hn. set (n := norm3 1 (tan h) (tan v)) in *.
  f_equal; field; lra.
Qed.

Lemma cart_projection_inverse h v : in_fov h v ->
  from_projection (fst (projection h v)) (snd (projection h v)) = (h, v) /\
  from_cart (cart h v) = (h, v) /\
  projection h v = (vy (cart h v) / vx (cart h v), vz (cart h v) / vx (cart h v)).
Proof.
  intros H. destruct (fov_ranges h v H) as [Hh Hv]. pose proof T_range.
  repeat split.
  - apply from_projection_projection; lra.
  - apply from_cart_cart; lra.
  - apply projection_of_cart.
Qed.

Lemma sweeps_exist_both h v : in_fov h v ->
  -1 < q h v * tan T < 1 /\ -1 < q h v * tan (- T) < 1.
Proof. intros H. pose proof (sweeps_exist h v H) as A. split; [assumption|]. rewrite tan_neg. lra. Qed.

Lemma from_cart_inverse :
  (forall h v, in_fov h v -> from_cart (cart h v) = (h, v)) /\
  (forall p, 0 < vx p ->
     let hv := from_cart p in cart (fst hv) (snd hv) = V3 (vx p / vnorm p) (vy p / vnorm p) (vz p / vnorm p)).
Proof.
  split.
  - intros h v H. apply (cart_projection_inverse h v H).
  - exact cart_from_cart.
Qed.
