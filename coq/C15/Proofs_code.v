(* C15/Proofs_code.v — the property stated on the trees translated from the Python source (via GenTie.v). *)
From Coq Require Import Reals List Lra.
From CF Require Import C15.Model.
From CF Require Import C15.Proofs_bs.
From CF Require Import C15.Proofs_pose.
From CF Require Import C15.Gen_Formulas.
From CF Require Import C15.GenTie.
Import ListNotations.
Open Scope R_scope.

Lemma code_v1_v2_inverse h v : in_fov h v ->
  ev (ev [h; v] [gen_lh_v2_angle_1_0; gen_lh_v2_angle_2_0]) [gen_from_lh2_0; gen_from_lh2_1] = [h; v].
Proof.
  intros H. rewrite gen_lh_v2_ok, gen_from_lh2_ok, v1_v2_inverse by assumption. reflexivity.
Qed.

Lemma code_cart_unit h v :
  match ev [h; v] [gen_cart_0; gen_cart_1; gen_cart_2] with
  | [x; y; z] => sqrt (x ^ 2 + y ^ 2 + z ^ 2) = 1
  | _ => False
  end.
Proof. rewrite gen_cart_ok. exact (cart_unit h v). Qed.

Lemma ev_pose_rt P x :
  ev (mat_list (pR P) ++ vec_list (pt P) ++ vec_list x)
     [gen_pose_rotate_translate_0; gen_pose_rotate_translate_1; gen_pose_rotate_translate_2]
  = vec_list (rotate_translate P x).
Proof. exact (gen_pose_rotate_translate_ok P x). Qed.

Lemma ev_pose_irt P x :
  ev (mat_list (pR P) ++ vec_list (pt P) ++ vec_list x)
     [gen_pose_inv_rotate_translate_0; gen_pose_inv_rotate_translate_1; gen_pose_inv_rotate_translate_2]
  = vec_list (inv_rotate_translate P x).
Proof. exact (gen_pose_inv_rotate_translate_ok P x). Qed.

Lemma ev_from_cart p :
  ev (vec_list p) [gen_from_cart_0; gen_from_cart_1] = [fst (from_cart p); snd (from_cart p)].
Proof. destruct p as [x y z]. exact (gen_from_cart_ok x y z). Qed.

Lemma code_projection_paths_agree bs_r bs_t cf_r cf_t s :
  ev (vec_list bs_r ++ vec_list bs_t ++ vec_list cf_r ++ vec_list cf_t ++ vec_list s)
     [gen_solver_calc_angle_pairs_0; gen_solver_calc_angle_pairs_1]
  = ev (ev (mat_list (rodrigues bs_r) ++ vec_list bs_t ++
            ev (mat_list (rodrigues cf_r) ++ vec_list cf_t ++ vec_list s)
               [gen_pose_rotate_translate_0; gen_pose_rotate_translate_1; gen_pose_rotate_translate_2])
           [gen_pose_inv_rotate_translate_0; gen_pose_inv_rotate_translate_1; gen_pose_inv_rotate_translate_2])
       [gen_from_cart_0; gen_from_cart_1].
Proof.
  rewrite gen_solver_calc_angle_pairs_ok.
  pose proof (ev_pose_rt (Pose (rodrigues cf_r) cf_t) s) as E1. cbn [pR pt] in E1. rewrite E1.
  pose proof (fun x => ev_pose_irt (Pose (rodrigues bs_r) bs_t) x) as E2. cbn [pR pt] in E2. rewrite E2.
  rewrite ev_from_cart.
  rewrite (projection_paths_agree rodrigues (fun r => eq_refl)).
  reflexivity.
Qed.

(* all tie lemmas in one statement *)
Definition code_matches_model : Prop :=
  ev [] [gen_T_0] = [T] /\
  (forall h v, ev [h; v] [gen_q_0] = [q h v]) /\
  (forall h v, ev [h; v] [gen_lh_v1_horiz_angle_0; gen_lh_v1_vert_angle_0; gen_lh_v1_angle_pair_0; gen_lh_v1_angle_pair_1]
               = [h; v; h; v]) /\
  (forall h v, ev [h; v] [gen_lh_v2_angle_1_0; gen_lh_v2_angle_2_0] = [lh_v2_angle_1 h v; lh_v2_angle_2 h v]) /\
  (forall a1 a2, ev [a1; a2] [gen_from_lh2_0; gen_from_lh2_1] = [fst (from_lh2 a1 a2); snd (from_lh2 a1 a2)]) /\
  (forall h v, ev [h; v] [gen_cart_0; gen_cart_1; gen_cart_2] = vec_list (cart h v)) /\
  (forall h v, ev [h; v] [gen_projection_0; gen_projection_1] = [fst (projection h v); snd (projection h v)]) /\
  (forall p, ev (vec_list p) [gen_from_cart_0; gen_from_cart_1] = [fst (from_cart p); snd (from_cart p)]) /\
  (forall y z, ev [y; z] [gen_from_projection_0; gen_from_projection_1]
               = [fst (from_projection y z); snd (from_projection y z)]) /\
  ev [] gen_pose_default = pose_list pose_id /\
  (forall P, ev (pose_list P) gen_pose_fields = pose_list P) /\
  (forall P x, ev (pose_list P ++ vec_list x)
                  [gen_pose_rotate_translate_0; gen_pose_rotate_translate_1; gen_pose_rotate_translate_2]
               = vec_list (rotate_translate P x)) /\
  (forall P x, ev (pose_list P ++ vec_list x)
                  [gen_pose_inv_rotate_translate_0; gen_pose_inv_rotate_translate_1; gen_pose_inv_rotate_translate_2]
               = vec_list (inv_rotate_translate P x)) /\
  (forall P Q, ev (pose_list P ++ pose_list Q) gen_pose_rtp = pose_list (rotate_translate_pose P Q)) /\
  (forall P Q, ev (pose_list P ++ pose_list Q) gen_pose_irtp = pose_list (inv_rotate_translate_pose P Q)) /\
  (forall p r t, ev (vec_list p ++ vec_list r ++ vec_list t)
                    [gen_solver_rotate_translate_0; gen_solver_rotate_translate_1; gen_solver_rotate_translate_2]
                 = vec_list (solver_rotate_translate p r t)) /\
  (forall bs_r bs_t cf_r cf_t s,
      ev (vec_list bs_r ++ vec_list bs_t ++ vec_list cf_r ++ vec_list cf_t ++ vec_list s)
         [gen_solver_calc_angle_pairs_0; gen_solver_calc_angle_pairs_1]
      = [fst (solver_angle_pair bs_r bs_t cf_r cf_t s); snd (solver_angle_pair bs_r bs_t cf_r cf_t s)]) /\
  (forall v, ev (vec_list v) [gen_ippe_rotate_vector_to_ippe_0; gen_ippe_rotate_vector_to_ippe_1; gen_ippe_rotate_vector_to_ippe_2]
             = vec_list (rotate_vector_to_ippe v)) /\
  (forall v, ev (vec_list v) [gen_ippe_rotate_vector_to_cf_0; gen_ippe_rotate_vector_to_cf_1; gen_ippe_rotate_vector_to_cf_2]
             = vec_list (rotate_vector_to_cf v)) /\
  (forall a, ev (mat_list a)
                [gen_ippe_rotate_rot_mat_to_cf_0; gen_ippe_rotate_rot_mat_to_cf_1; gen_ippe_rotate_rot_mat_to_cf_2;
                 gen_ippe_rotate_rot_mat_to_cf_3; gen_ippe_rotate_rot_mat_to_cf_4; gen_ippe_rotate_rot_mat_to_cf_5;
                 gen_ippe_rotate_rot_mat_to_cf_6; gen_ippe_rotate_rot_mat_to_cf_7; gen_ippe_rotate_rot_mat_to_cf_8]
             = mat_list (rotate_rot_mat_to_cf a)) /\
  (forall u y z, ev (vec_list u ++ [y; z])
                    [gen_ippe_cf_to_ippe_row_0; gen_ippe_cf_to_ippe_row_1; gen_ippe_cf_to_ippe_row_2;
                     gen_ippe_cf_to_ippe_row_3; gen_ippe_cf_to_ippe_row_4]
                 = vec_list (rotate_vector_to_ippe u) ++ [fst (q_to_ippe y z); snd (q_to_ippe y z)]).

Lemma code_matches_model_holds : code_matches_model.
Proof.
  unfold code_matches_model.
  split; [exact gen_T_ok|]. split; [exact gen_q_ok|]. split; [exact gen_v1_pair_ok|]. split; [exact gen_lh_v2_ok|].
  split; [exact gen_from_lh2_ok|]. split; [exact gen_cart_ok|]. split; [exact gen_projection_ok|].
  split; [exact ev_from_cart|]. split; [exact gen_from_projection_ok|]. split; [exact gen_pose_default_ok|].
  split; [exact gen_pose_fields_ok|]. split; [exact gen_pose_rotate_translate_ok|].
  split; [exact gen_pose_inv_rotate_translate_ok|]. split; [exact gen_pose_rotate_translate_pose_ok|].
  split; [exact gen_pose_inv_rotate_translate_pose_ok|]. split; [exact gen_solver_rotate_translate_ok|].
  split; [exact gen_solver_calc_angle_pairs_ok|].
  split; [intros v; apply gen_ippe_rotate_vector_ok|]. split; [intros v; apply gen_ippe_rotate_vector_ok|].
  split; [exact gen_ippe_rotate_rot_mat_ok|]. exact gen_ippe_cf_to_ippe_row_ok.
Qed.

Lemma spec_transport :
  (forall r, ev (vec_list r) [gen_spec_rodrigues_0; gen_spec_rodrigues_1; gen_spec_rodrigues_2; gen_spec_rodrigues_3;
                              gen_spec_rodrigues_4; gen_spec_rodrigues_5; gen_spec_rodrigues_6; gen_spec_rodrigues_7;
                              gen_spec_rodrigues_8] = mat_list (rodrigues r)) /\
  (forall r, ev (vec_list r) [gen_spec_quat_of_rotvec_0; gen_spec_quat_of_rotvec_1; gen_spec_quat_of_rotvec_2;
                              gen_spec_quat_of_rotvec_3] = quat_list (quat_of_rotvec r)) /\
  (forall u, ev (quat_list u) [gen_spec_quat_mat_0; gen_spec_quat_mat_1; gen_spec_quat_mat_2; gen_spec_quat_mat_3;
                               gen_spec_quat_mat_4; gen_spec_quat_mat_5; gen_spec_quat_mat_6; gen_spec_quat_mat_7;
                               gen_spec_quat_mat_8] = mat_list (quat_mat u)).
Proof. split; [exact gen_spec_rodrigues_ok|]. split; [exact gen_spec_quat_of_rotvec_ok | exact gen_spec_quat_mat_ok]. Qed.

(* ---------------------------------------------------------------- growth round *)
From CF Require Import C15.Heap.
From CF Require Import C15.Proofs_sum.
From CF Require Import C15.Proofs_views.

Definition code_matches_model_2 : Prop :=
  (forall P k, ev (pose_list P ++ [k]) gen_pose_scale = pose_list (pscale k P)) /\
  (forall P, ev (pose_list P) gen_pose_matrix_vec = pose_list P) /\
  (forall r t, ev (vec_list r ++ vec_list t) gen_pose_from_rot_vec = pose_list (pose_from_rotvec rodrigues r t)) /\
  (forall u t, ev (quat_list u ++ vec_list t) gen_pose_from_quat = pose_list (pose_from_quat u t)) /\
  ev [] gen_pose_from_rot_vec_default = pose_list pose_id /\
  ev [] gen_pose_from_quat_default = pose_list pose_id /\
  (forall r t, ev (vec_list r ++ vec_list t) gen_solver_params_to_pose = pose_list (pose_from_rotvec rodrigues r t)) /\
  (forall bs_r bs_t cf_r cf_t s,
      ev (vec_list bs_r ++ vec_list bs_t ++ vec_list cf_r ++ vec_list cf_t ++ vec_list s)
         [gen_solver_poses_to_angle_pairs_0; gen_solver_poses_to_angle_pairs_1]
      = [fst (solver_angle_pair bs_r bs_t cf_r cf_t s); snd (solver_angle_pair bs_r bs_t cf_r cf_t s)]) /\
  (forall h v, ev [h; v] [gen_bsvs_projection_pair_row_0; gen_bsvs_projection_pair_row_1]
               = [fst (projection h v); snd (projection h v)]) /\
  (forall h v, ev [h; v] [gen_bsvs_angle_list_row_0; gen_bsvs_angle_list_row_1] = [h; v]) /\
  (forall u, ev (quat_list u) [gen_spec_quat_to_rotvec_0; gen_spec_quat_to_rotvec_1; gen_spec_quat_to_rotvec_2]
             = vec_list (quat_to_rotvec u)).

Lemma code_matches_model_2_holds : code_matches_model_2.
Proof.
  unfold code_matches_model_2. destruct gen_pose_ctor_defaults_ok as [D1 D2]. destruct ctor_defaults_identity as [I1 I2].
  split; [exact gen_pose_scale_ok|]. split; [exact gen_pose_matrix_vec_ok|]. split; [exact gen_pose_from_rot_vec_ok|].
  split; [exact gen_pose_from_quat_ok|]. split; [rewrite D1, I1; reflexivity|]. split; [rewrite D2, I2; reflexivity|].
  split; [exact gen_solver_params_to_pose_ok|]. split; [exact gen_solver_poses_to_angle_pairs_ok|].
  split; [intros h v; apply gen_bsvs_lists_ok|]. split; [intros h v; apply gen_bsvs_lists_ok|].
  exact gen_spec_quat_to_rotvec_ok.
Qed.

(* the solver's own parameter -> Pose conversion feeds the types' projection: the two paths of the property, both
   as translated from the source, agree for every parameter row *)
Lemma code_params_paths_agree bs_r bs_t cf_r cf_t s :
  ev (vec_list bs_r ++ vec_list bs_t ++ vec_list cf_r ++ vec_list cf_t ++ vec_list s)
     [gen_solver_poses_to_angle_pairs_0; gen_solver_poses_to_angle_pairs_1]
  = ev (ev (ev (vec_list bs_r ++ vec_list bs_t) gen_solver_params_to_pose ++
            ev (ev (vec_list cf_r ++ vec_list cf_t) gen_solver_params_to_pose ++ vec_list s)
               [gen_pose_rotate_translate_0; gen_pose_rotate_translate_1; gen_pose_rotate_translate_2])
           [gen_pose_inv_rotate_translate_0; gen_pose_inv_rotate_translate_1; gen_pose_inv_rotate_translate_2])
       [gen_from_cart_0; gen_from_cart_1].
Proof.
  rewrite gen_solver_poses_to_angle_pairs_ok, !gen_solver_params_to_pose_ok.
  rewrite (gen_pose_rotate_translate_ok (pose_from_rotvec rodrigues cf_r cf_t) s).
  rewrite (gen_pose_inv_rotate_translate_ok (pose_from_rotvec rodrigues bs_r bs_t)).
  rewrite ev_from_cart.
  rewrite (projection_paths_agree rodrigues (fun r => eq_refl)). reflexivity.
Qed.
