(* C15/Proofs_views.v — constructors and getters of the rotation views are mutually inverse on their domains;
   Pose.scale; half turns of the solver's Rodrigues rotation. *)
From Coq Require Import Reals Lra Psatz Ratan Nsatz.
From CF Require Import C15.Model.
From CF Require Import C15.Proofs_bs.
From CF Require Import C15.Proofs_pose.
From CF Require Import C15.Proofs_sum.
Open Scope R_scope.

(* ---------------------------------------------------------------- atan2 on the positive y axis *)
Lemma atan2_x0_ypos y : 0 < y -> atan2 y 0 = PI / 2.
Proof.
  intros H. unfold atan2. destruct (Rlt_dec 0 0) as [A|_]; [lra|]. destruct (Rlt_dec 0 0) as [A|_]; [lra|].
  destruct (Rlt_dec 0 y); [reflexivity | contradiction].
Qed.

(* ---------------------------------------------------------------- quaternion normalisation (Rotation.from_quat) *)
Lemma qnorm_sq u : qnorm u ^ 2 = qnorm2 u.
Proof.
  unfold qnorm, qnorm2. set (a := qx u ^ 2 + qy u ^ 2 + qz u ^ 2 + qw u ^ 2).
  replace (sqrt a ^ 2) with (Rsqr (sqrt a)) by (unfold Rsqr; ring).
  rewrite Rsqr_sqrt by (unfold a; nra). unfold a. ring.
Qed.

Lemma qnorm_nonneg u : 0 <= qnorm u.
Proof. unfold qnorm. apply sqrt_pos. Qed.

Lemma qnorm_unit u : qnorm2 u = 1 -> qnorm u = 1.
Proof.
  intros H. pose proof (qnorm_sq u) as E. rewrite H in E. pose proof (qnorm_nonneg u). nra.
Qed.

Lemma quat_normalize_unit_id u : qnorm2 u = 1 -> quat_normalize u = u.
Proof.
  intros H. unfold quat_normalize. rewrite (qnorm_unit u H). destruct u as [x y z w]. cbn [qx qy qz qw]. f_equal; field.
Qed.

Lemma qnorm_pos u : qnorm2 u <> 0 -> 0 < qnorm u.
Proof. intros H. pose proof (qnorm_sq u) as E. pose proof (qnorm_nonneg u). nra. Qed.

Lemma quat_normalize_unit u : qnorm2 u <> 0 -> qnorm2 (quat_normalize u) = 1.
Proof.
  intros H. pose proof (qnorm_pos u H) as Hp. pose proof (qnorm_sq u) as E.
  unfold quat_normalize. unfold qnorm2 at 1. cbn [qx qy qz qw]. set (n := qnorm u) in *.
  unfold qnorm2 in E.
  replace (qx u / n * (qx u / n) + qy u / n * (qy u / n) + qz u / n * (qz u / n) + qw u / n * (qw u / n))
    with ((qx u * qx u + qy u * qy u + qz u * qz u + qw u * qw u) / n ^ 2) by (field; lra).
  rewrite <- E. field. lra.
Qed.

Definition qscale (c : R) (u : quat) : quat := Q4 (c * qx u) (c * qy u) (c * qz u) (c * qw u).

Lemma qnorm_qscale_pos c u : 0 < c -> qnorm (qscale c u) = c * qnorm u.
Proof.
  intros Hc. unfold qnorm, qscale. cbn [qx qy qz qw].
  replace ((c * qx u) ^ 2 + (c * qy u) ^ 2 + (c * qz u) ^ 2 + (c * qw u) ^ 2)
    with (Rsqr c * (qx u ^ 2 + qy u ^ 2 + qz u ^ 2 + qw u ^ 2)) by (unfold Rsqr; ring).
  rewrite sqrt_mult_alt by apply Rle_0_sqr. rewrite sqrt_Rsqr by lra. reflexivity.
Qed.

(* from_quat ignores the length of the quaternion, and q, -q (antipodal quaternions) give the same rotation *)
Lemma from_quat_scale_invariant c u t : c <> 0 -> qnorm2 u <> 0 ->
  pose_from_quat (qscale c u) t = pose_from_quat u t.
Proof.
  intros Hc Hu. unfold pose_from_quat. f_equal. pose proof (qnorm_pos u Hu) as Hp.
  assert (Pos : forall d, 0 < d -> quat_normalize (qscale d u) = quat_normalize u).
  { intros d Hd. unfold quat_normalize. rewrite (qnorm_qscale_pos d u Hd). unfold qscale. cbn [qx qy qz qw].
    f_equal; field; lra. }
  destruct (Rtotal_order c 0) as [L | [E | G]]; [|contradiction|now rewrite Pos].
  assert (E : qscale c u = quat_neg (qscale (- c) u)).
  { unfold qscale, quat_neg. cbn [qx qy qz qw]. f_equal; ring. }
  assert (N : forall v, quat_normalize (quat_neg v) = quat_neg (quat_normalize v)).
  { intros v. unfold quat_normalize, quat_neg, qnorm. cbn [qx qy qz qw].
    replace ((- qx v) ^ 2 + (- qy v) ^ 2 + (- qz v) ^ 2 + (- qw v) ^ 2) with (qx v ^ 2 + qy v ^ 2 + qz v ^ 2 + qw v ^ 2) by ring.
    f_equal; unfold Rdiv; ring. }
  rewrite E, N, (Pos (- c)) by lra. apply quat_mat_neg.
Qed.

Lemma from_quat_valid u t : qnorm2 u <> 0 -> valid_pose (pose_from_quat u t) /\ mdet (pR (pose_from_quat u t)) = 1.
Proof.
  intros H. unfold valid_pose, pose_from_quat. cbn [pR]. pose proof (quat_normalize_unit u H).
  split; [now apply quat_mat_orthogonal | now apply quat_mat_det].
Qed.

(* ---------------------------------------------------------------- rotation vector <- quaternion *)
Lemma quat_to_rotvec_of_rotvec r : vnorm r <= PI -> quat_to_rotvec (quat_of_rotvec r) = r.
Proof.
  intros Hn. destruct (axis_cases r) as [(-> & E & Ha) | (Hr & Hk)].
  - unfold quat_to_rotvec, quat_of_rotvec. cbv zeta. rewrite Ha, E. unfold vzero. cbn [qx qy qz qw vx vy vz].
    replace (0 * sin (0 / 2)) with 0 by ring.
    assert (Z : norm3 0 0 0 = 0) by (unfold norm3; replace (0 ^ 2 + 0 ^ 2 + 0 ^ 2) with 0 by ring; apply sqrt_0).
    rewrite Z. unfold nan_div. destruct (Req_EM_T 0 0); [|contradiction]. f_equal; ring.
  - assert (Hpos : 0 < vnorm r).
    { pose proof (vnorm_nonneg r) as [L | Z]; [assumption|]. symmetry in Z. apply vnorm_zero_iff in Z. contradiction. }
    set (th := vnorm r) in *. pose proof PI_RGT_0.
    assert (Hs : 0 < sin (th / 2)) by (apply sin_gt_0; lra).
    rewrite <- (axis_times_norm r) at 2. fold th.
    unfold quat_to_rotvec, quat_of_rotvec. cbv zeta. fold th. cbn [qx qy qz qw].
    destruct (axis r) as [kx ky kz]. unfold vdot in Hk. cbn [vx vy vz] in *.
    set (s := sin (th / 2)) in *.
    assert (En : norm3 (kx * s) (ky * s) (kz * s) = s).
    { unfold norm3. replace ((kx * s) ^ 2 + (ky * s) ^ 2 + (kz * s) ^ 2) with (Rsqr s * (kx * kx + ky * ky + kz * kz)) by (unfold Rsqr; ring).
      rewrite Hk, Rmult_1_r. apply sqrt_Rsqr. lra. }
    rewrite En.
    assert (Ea : atan2 s (cos (th / 2)) = th / 2).
    { destruct Hn as [Hlt | Heq].
      - assert (Hc : 0 < cos (th / 2)) by (apply cos_gt_0; lra).
        rewrite atan2_pos by assumption. unfold s. fold (tan (th / 2)). apply atan_tan. lra.
      - unfold th in *. rewrite Heq in *. replace (PI / 2) with (PI / 2) by reflexivity.
        rewrite cos_PI2. rewrite atan2_x0_ypos by assumption. reflexivity. }
    rewrite Ea. unfold nan_div. destruct (Req_EM_T s 0) as [Z | _]; [lra|].
    unfold vscale. cbn [vx vy vz]. f_equal; field; lra.
Qed.

Lemma quat_neg_neg u : quat_neg (quat_neg u) = u.
Proof. destruct u as [x y z w]. unfold quat_neg. cbn [qx qy qz qw]. f_equal; ring. Qed.

(* whatever unit quaternion is extracted from the matrix of r (scipy: from_matrix), its canonical representative
   gives back r: rot_vec (from_rot_vec r) = r for |r| < pi *)
Lemma rotvec_getter_inverse r u : vnorm r < PI -> qnorm2 u = 1 -> quat_mat u = rodrigues r ->
  quat_to_rotvec (quat_canon u) = r /\ (quat_canon u = quat_of_rotvec r).
Proof.
  intros Hn Hu E. destruct views_unique as (_ & _ & _ & _ & Huniq).
  pose proof (Huniq r u Hu E) as Hc. cbv zeta in Hc. set (p := quat_of_rotvec r) in *.
  assert (Hw : 0 < qw p).
  { unfold p, quat_of_rotvec. cbv zeta. cbn [qw]. pose proof (vnorm_nonneg r). apply cos_gt_0; lra. }
  assert (Ec : quat_canon u = p).
  { destruct Hc as [-> | ->].
    - unfold quat_canon. destruct (Rlt_dec (qw p) 0); [lra | reflexivity].
    - unfold quat_canon. fold (quat_neg p). unfold quat_neg at 1. cbn [qw].
      destruct (Rlt_dec (- qw p) 0); [apply quat_neg_neg | lra]. }
  split; [|assumption]. rewrite Ec. apply quat_to_rotvec_of_rotvec. lra.
Qed.

(* at the half turn |r| = pi the matrix no longer determines the sign of the axis: r and -r are both rotation
   vectors of it (Examples.half_turn_not_unique); the quaternion (k, 0) and its antipode (-k, 0) both have w = 0 *)
Lemma half_turn_quat_w r : vnorm r = PI -> qw (quat_of_rotvec r) = 0.
Proof. intros H. unfold quat_of_rotvec. cbv zeta. cbn [qw]. rewrite H. apply cos_PI2. Qed.

(* ---------------------------------------------------------------- Pose.scale *)
Lemma scale_laws k P Q x :
  rotate_translate (pscale k P) (vscale k x) = vscale k (rotate_translate P x) /\
  inv_rotate_translate (pscale k P) (vscale k x) = vscale k (inv_rotate_translate P x) /\
  rotate_translate_pose (pscale k P) (pscale k Q) = pscale k (rotate_translate_pose P Q) /\
  inv_rotate_translate_pose (pscale k P) (pscale k Q) = pscale k (inv_rotate_translate_pose P Q) /\
  rotate_translate (pscale k P) x = vadd (rotate_translate P x) (vscale (k - 1) (pt P)) /\
  pscale 1 P = P /\ (valid_pose P -> valid_pose (pscale k P)).
Proof.
  destruct P as [[a b c d e f g h i] [tx ty tz]], Q as [[a' b' c' d' e' f' g' h' i'] [tx' ty' tz']], x as [x y z].
  unfold pscale, valid_pose. cbn [pR pt].
  repeat split; try (la_unfold; rec_eq; ring). intros H; exact H.
Qed.

(* ---------------------------------------------------------------- the solver's rotation at the boundaries *)
(* half turn: cos = -1, sin = 0: the rotation is the reflection of p about the axis, 2 (k.p) k - p *)
Lemma solver_rt_half_turn p r t : vnorm r = PI ->
  solver_rotate_translate p r t = vadd (vsub (vscale (2 * vdot p (axis r)) (axis r)) p) t.
Proof.
  intros H. unfold solver_rotate_translate. cbv zeta. rewrite H, cos_PI, sin_PI.
  destruct (axis r) as [kx ky kz], p as [px py pz], t as [tx ty tz]. la_unfold. f_equal; ring.
Qed.

(* the constructors without arguments give the identity pose: from_rot_vec() (zero vector) and from_quat() ((0,0,0,1)) *)
Lemma ctor_defaults_identity :
  pose_from_rotvec rodrigues vzero vzero = pose_id /\ pose_from_quat (Q4 0 0 0 1) vzero = pose_id.
Proof.
  split.
  - unfold pose_from_rotvec, pose_id. now rewrite rodrigues_zero.
  - unfold pose_from_quat, pose_id. rewrite quat_normalize_unit_id by (unfold qnorm2; cbn [qx qy qz qw]; ring).
    unfold quat_mat, mident. cbn [qx qy qz qw]. f_equal. f_equal; ring.
Qed.

Lemma views_inverse_summary :
  (* rotation vector -> matrix -> (any unit quaternion of it) -> rotation vector, |r| < pi *)
  (forall r u, vnorm r < PI -> qnorm2 u = 1 -> quat_mat u = rodrigues r ->
               quat_to_rotvec (quat_canon u) = r /\ quat_canon u = quat_of_rotvec r) /\
  (* including the half turn when the quaternion itself is kept (no passage through the matrix) *)
  (forall r, vnorm r <= PI -> quat_to_rotvec (quat_of_rotvec r) = r) /\
  (forall r, vnorm r = PI -> qw (quat_of_rotvec r) = 0 /\ rodrigues (vneg r) = rodrigues r) /\
  (* from_quat: any non-zero length, antipodal quaternions *)
  (forall c u t, c <> 0 -> qnorm2 u <> 0 -> pose_from_quat (qscale c u) t = pose_from_quat u t) /\
  (forall u t, qnorm2 u <> 0 -> valid_pose (pose_from_quat u t) /\ mdet (pR (pose_from_quat u t)) = 1) /\
  (forall u, qnorm2 u = 1 -> quat_normalize u = u).
Proof.
  split; [exact rotvec_getter_inverse|]. split; [exact quat_to_rotvec_of_rotvec|].
  split.
  { intros r H. split; [now apply half_turn_quat_w|].
    rewrite rodrigues_vneg. unfold rodrigues. cbv zeta. rewrite H, sin_PI, cos_PI.
    destruct (axis r) as [kx ky kz]. unfold mtrans. cbn [vx vy vz m00 m01 m02 m10 m11 m12 m20 m21 m22]. f_equal; ring. }
  split; [exact from_quat_scale_invariant|]. split; [exact from_quat_valid | exact quat_normalize_unit_id].
Qed.

(* ---------------------------------------------------------------- row-wise independence of the batched rotation *)
(* the translated trees (and solver_rotate_translate) describe ONE row: every row of the batched arrays is rotated by
   its OWN rotation vector.  A batch evaluation that computes axis/sin/cos once per block of rows and reuses them
   (row 1 rotated with the rotation vector of row 0) is a different function: *)
Definition rt_rows2 (p0 r0 t0 p1 r1 t1 : vec) : vec * vec :=
  (solver_rotate_translate p0 r0 t0, solver_rotate_translate p1 r1 t1).
Definition rt_block_shared2 (p0 r0 t0 p1 r1 t1 : vec) : vec * vec :=
  (solver_rotate_translate p0 r0 t0, solver_rotate_translate p1 r0 t1).      (* r1 ignored *)

Lemma vnorm_PI_x : vnorm (V3 PI 0 0) = PI.
Proof.
  unfold vnorm, norm3. cbn [vx vy vz]. replace (PI ^ 2 + 0 ^ 2 + 0 ^ 2) with (Rsqr PI) by (unfold Rsqr; ring).
  apply sqrt_Rsqr. pose proof PI_RGT_0. lra.
Qed.

Lemma block_shared_rotation_refuted :
  (forall p0 r t0 p1 t1, rt_block_shared2 p0 r t0 p1 r t1 = rt_rows2 p0 r t0 p1 r t1) /\
  (exists p0 r0 t0 p1 r1 t1, rt_block_shared2 p0 r0 t0 p1 r1 t1 <> rt_rows2 p0 r0 t0 p1 r1 t1).
Proof.
  split; [reflexivity|].
  exists (V3 0 1 0), vzero, vzero, (V3 0 1 0), (V3 PI 0 0), vzero.
  unfold rt_block_shared2, rt_rows2. intros E0. pose proof (f_equal snd E0) as E. cbn [snd] in E. clear E0.
  rewrite solver_rt_zero in E. rewrite (solver_rt_half_turn _ _ _ vnorm_PI_x) in E.
  assert (Hr : V3 PI 0 0 <> vzero) by (intros H; injection H as H; pose proof PI_RGT_0; lra).
  rewrite (axis_nonzero _ Hr), vnorm_PI_x in E. unfold vscale, vdot, vadd, vsub, vzero in E. cbn [vx vy vz] in E.
  pose proof (f_equal vy E) as Ey. cbn [vy] in Ey. pose proof PI_RGT_0.
  assert (Hp : / PI * PI = 1) by (field; lra). rewrite Hp in Ey. lra.
Qed.

(* ---------------------------------------------------------------- Wave 11: from_quat normalises *)
Lemma from_quat_normalises :
  (forall s u t, 0 < s -> qnorm2 u <> 0 -> pose_from_quat (qscale s u) t = pose_from_quat u t) /\
  (forall s u t, s < 0 -> qnorm2 u <> 0 -> pose_from_quat (qscale s u) t = pose_from_quat u t) /\
  (forall u t, qnorm2 u <> 0 -> rotation (pR (pose_from_quat u t))) /\
  (forall u t, qnorm2 u <> 0 -> forall x,
     inv_rotate_translate (pose_from_quat u t) (rotate_translate (pose_from_quat u t) x) = x /\
     rotate_translate (pose_from_quat u t) (inv_rotate_translate (pose_from_quat u t) x) = x).
Proof.
  split; [intros s u t Hs Hu; apply from_quat_scale_invariant; [lra | assumption]|].
  split; [intros s u t Hs Hu; apply from_quat_scale_invariant; [lra | assumption]|].
  split; [intros u t Hu; destruct (from_quat_valid u t Hu) as [A B]; split; assumption|].
  intros u t Hu x. apply pose_inverse_point. apply (from_quat_valid u t Hu).
Qed.

(* the quaternion -> matrix formula WITHOUT the normalisation is not a rotation for non-unit quaternions, and then
   inverse (transpose) does not undo forward *)
Lemma unnormalised_quat_matrix_refuted :
  exists u, qnorm2 u <> 0 /\ ~ orthogonal (quat_mat u) /\
    exists x, inv_rotate_translate (Pose (quat_mat u) vzero) (rotate_translate (Pose (quat_mat u) vzero) x) <> x.
Proof.
  exists (Q4 0 0 1 1). split; [unfold qnorm2; cbn [qx qy qz qw]; lra|]. split.
  - intros H. apply orthogonal_components in H. destruct H as (E & _). unfold quat_mat in E. cbn [qx qy qz qw m00 m10 m20] in E. lra.
  - exists (V3 1 0 0). unfold inv_rotate_translate, rotate_translate, quat_mat. cbn [pR pt qx qy qz qw].
    la_unfold. intros E. injection E as E _ _. lra.
Qed.
