(* C09/Proofs_link.v — _estimate_remaining_bs_poses: decision (raise iff some station is not linked),
   termination (fuel never runs out), and exactness of the chained poses for consistent data. *)
From CF Require Import Common.Bytes C09.Model C09.Proofs_matcher.
From Coq Require Import ZifyBool.
Open Scope Z_scope.

Lemma dict_get_In {V} k (v : V) d : dict_get k d = Some v -> In (k, v) d.
Proof.
  induction d as [|[k' v'] d IH]; cbn [dict_get]; [discriminate|].
  destruct (k' =? k) eqn:E.
  - apply Z.eqb_eq in E. intros H. injection H as ->. left. congruence.
  - intros H. right. apply IH, H.
Qed.

Lemma in_keys {V} (k : Z) (v : V) d : In (k, v) d -> In k (keys d).
Proof. intros H. unfold keys. change k with (fst (k, v)). apply in_map, H. Qed.

Lemma in_keys_ex {V} (k : Z) (d : list (Z * V)) : In k (keys d) -> exists v, In (k, v) d.
Proof.
  unfold keys. rewrite in_map_iff. intros ([k' v] & E & H). cbn [fst] in E. subst. eauto.
Qed.

Lemma filter_length_le {X} (p q : X -> bool) l :
  (forall x, In x l -> q x = true -> p x = true) -> (length (filter q l) <= length (filter p l))%nat.
Proof.
  induction l as [|x l IH]; intros H; cbn [filter]; [lia|].
  assert (IH' := IH (fun y Hy => H y (or_intror Hy))).
  destruct (q x) eqn:Q.
  - rewrite (H x (or_introl eq_refl) Q). cbn [length]. lia.
  - destruct (p x); cbn [length]; lia.
Qed.

Lemma filter_length_lt {X} (p q : X -> bool) l x0 :
  (forall x, In x l -> q x = true -> p x = true) -> In x0 l -> p x0 = true -> q x0 = false ->
  (length (filter q l) < length (filter p l))%nat.
Proof.
  induction l as [|x l IH]; intros H Hin Hp Hq; [destruct Hin|].
  cbn [filter]. assert (Hle := filter_length_le p q l (fun y Hy => H y (or_intror Hy))).
  destruct Hin as [->|Hin].
  - rewrite Hp, Hq. cbn [length]. lia.
  - assert (IH' := IH (fun y Hy => H y (or_intror Hy)) Hin Hp Hq).
    destruct (q x) eqn:Q.
    + rewrite (H x (or_introl eq_refl) Q). cbn [length]. lia.
    + destruct (p x); cbn [length]; lia.
Qed.

Lemma map_fst_filter {V} (p : Z -> bool) (s : list (Z * V)) :
  map fst (filter (fun e => p (fst e)) s) = filter p (map fst s).
Proof.
  induction s as [|[k v] s IH]; cbn [filter map fst]; [reflexivity|].
  destruct (p k); cbn [map fst]; rewrite IH; reflexivity.
Qed.

Section LinkProofs.
  Context {G : Type}.
  Variable op : G -> G -> G.
  Variable inv : G -> G.
  Variable avg : list G -> G.
  Variable choose : list Z -> Z.
  Hypothesis choose_ok : forall l, l <> [] -> In (choose l) l.

  Notation psample := (@psample G).
  Notation round := (round op inv avg choose).
  Notation contribs := (contribs op inv choose).
  Notation sample_contrib := (sample_contrib op inv choose).
  Notation link_loop := (link_loop op inv avg choose).
  Notation estimate_remaining := (estimate_remaining op inv avg choose).
  Implicit Types (ss : list psample) (s : psample) (bp : list (Z * G)) (b a : Z).

  (* ---- keys of the contributions *)
  Lemma keys_sample_contrib bp s :
    keys (sample_contrib bp s)
    = match filter (fun b => mem b (keys bp)) (keys s) with
      | [] => []
      | _ :: _ => filter (fun b => negb (mem b (keys bp))) (keys s)
      end.
  Proof.
    unfold sample_contrib. destruct (filter (fun b => mem b (keys bp)) (keys s)) as [|k0 kn] eqn:F; [reflexivity|].
    assert (Hc : In (choose (k0 :: kn)) (k0 :: kn)) by (apply choose_ok; discriminate).
    rewrite <- F in Hc. apply filter_In in Hc as [Hs Hb]. apply mem_true_iff in Hb.
    apply dict_get_in_keys in Hs as [vc Hs]. apply dict_get_in_keys in Hb as [vg Hb].
    rewrite F in *. rewrite Hb, Hs. unfold keys at 1. rewrite map_map. cbn [fst].
    apply (map_fst_filter (fun b => negb (mem b (keys bp))) s).
  Qed.

  Lemma in_keys_contribs ss bp b :
    In b (keys (contribs ss bp)) <->
    exists s, In s ss /\ (exists a, In a (keys s) /\ In a (keys bp)) /\ In b (keys s) /\ ~ In b (keys bp).
  Proof.
    unfold contribs, keys at 1. rewrite in_map_iff. split.
    - intros ([b' p] & E & Hin). cbn [fst] in E. subst b'. apply in_flat_map in Hin as (s & Hs & Hin).
      apply in_keys in Hin. rewrite keys_sample_contrib in Hin.
      destruct (filter (fun b => mem b (keys bp)) (keys s)) as [|k0 kn] eqn:F; [destruct Hin|].
      exists s. split; [exact Hs|]. apply filter_In in Hin as [Hb Hn]. split.
      + exists k0. assert (H0 : In k0 (k0 :: kn)) by (left; reflexivity). rewrite <- F in H0.
        apply filter_In in H0 as [H1 H2]. apply mem_true_iff in H2. auto.
      + split; [exact Hb|]. apply negb_true_iff, mem_false_iff in Hn. exact Hn.
    - intros (s & Hs & (a & Ha & Hk) & Hb & Hn).
      assert (Hin : In b (keys (sample_contrib bp s))).
      { rewrite keys_sample_contrib.
        destruct (filter (fun b => mem b (keys bp)) (keys s)) as [|k0 kn] eqn:F.
        - assert (H0 : In a (filter (fun b => mem b (keys bp)) (keys s))).
          { apply filter_In. split; [exact Ha | apply mem_true_iff, Hk]. }
          rewrite F in H0. destruct H0.
        - apply filter_In. split; [exact Hb | apply negb_true_iff, mem_false_iff, Hn]. }
      apply in_keys_ex in Hin as [p Hp]. exists (b, p). split; [reflexivity|].
      apply in_flat_map. exists s. auto.
  Qed.

  Lemma keys_round ss bp : keys (round ss bp) = keys bp ++ first_occ (keys (contribs ss bp)).
  Proof.
    unfold round, keys at 1. rewrite map_app, map_map. cbn [fst]. rewrite map_id. reflexivity.
  Qed.

  Lemma in_all_bs ss b : In b (all_bs ss) <-> exists s, In s ss /\ In b (keys s).
  Proof.
    unfold all_bs. rewrite first_occ_in, in_concat. split.
    - intros (l & Hl & Hb). apply in_map_iff in Hl as (s & <- & Hs). eauto.
    - intros (s & Hs & Hb). exists (keys s). split; [apply in_map, Hs | exact Hb].
  Qed.

  Lemma in_to_find ss bp b : In b (to_find ss bp) <-> In b (all_bs ss) /\ ~ In b (keys bp).
  Proof.
    unfold to_find. rewrite filter_In, negb_true_iff, mem_false_iff. reflexivity.
  Qed.

  (* ---- progress *)
  Lemma to_find_round_le ss bp : (length (to_find ss (round ss bp)) <= length (to_find ss bp))%nat.
  Proof.
    unfold to_find. apply filter_length_le. intros x _. rewrite !negb_true_iff, !mem_false_iff, keys_round.
    intros H1 H2. apply H1, in_or_app. left. exact H2.
  Qed.

  Lemma round_no_contrib ss bp : keys (contribs ss bp) = [] -> round ss bp = bp.
  Proof. intros H. unfold round. rewrite H. cbn [first_occ map]. apply app_nil_r. Qed.

  Lemma to_find_round_lt ss bp : keys (contribs ss bp) <> [] ->
    (length (to_find ss (round ss bp)) < length (to_find ss bp))%nat.
  Proof.
    intros H. destruct (keys (contribs ss bp)) as [|b kc] eqn:E; [congruence|].
    assert (Hb : In b (keys (contribs ss bp))) by (rewrite E; left; reflexivity).
    apply in_keys_contribs in Hb as (s & Hs & _ & Hbs & Hn).
    unfold to_find. apply (filter_length_lt _ _ _ b).
    - intros x _. rewrite !negb_true_iff, !mem_false_iff, keys_round.
      intros H1 H2. apply H1, in_or_app. left. exact H2.
    - apply in_all_bs. eauto.
    - apply negb_true_iff, mem_false_iff, Hn.
    - apply negb_false_iff, mem_true_iff. rewrite keys_round, E. apply in_or_app. right.
      apply first_occ_in. left. reflexivity.
  Qed.

  (* ---- invariant: everything resolved is linked to the initially known stations *)
  Section Inv.
    Variable ss : list psample.
    Variable known0 : list Z.

    Definition inv_link bp : Prop :=
      (forall b, In b (keys bp) -> linked ss known0 b) /\ (forall b, In b known0 -> In b (keys bp)).

    Lemma inv_round bp : inv_link bp -> inv_link (round ss bp).
    Proof.
      intros [H1 H2]. split; intros b; rewrite keys_round, in_app_iff.
      - intros [H|H]; [apply H1, H|]. apply first_occ_in, in_keys_contribs in H as (s & Hs & (a & Ha & Hk) & Hb & _).
        apply (linked_step ss known0 a b s); auto.
      - intros H. left. apply H2, H.
    Qed.

    (* no progress: the resolved set is closed under "seen together in a sample" *)
    Lemma closed_no_contrib bp : inv_link bp -> keys (contribs ss bp) = [] ->
      forall b, linked ss known0 b -> In b (keys bp).
    Proof.
      intros [_ H2] HC b Hl. induction Hl as [b Hb | a b s _ IH Hs Ha Hb]; [apply H2, Hb|].
      destruct (mem b (keys bp)) eqn:M; [apply mem_true_iff, M|]. apply mem_false_iff in M.
      assert (Hin : In b (keys (contribs ss bp))).
      { apply in_keys_contribs. exists s. split; [exact Hs|]. split; [exists a; auto|]. auto. }
      rewrite HC in Hin. destruct Hin.
    Qed.

    Lemma linked_in_scope b : linked ss known0 b -> In b known0 \/ In b (all_bs ss).
    Proof.
      intros H. destruct H as [b Hb | a b s _ Hs _ Hb]; [left; exact Hb|]. right. apply in_all_bs. eauto.
    Qed.

    Definition loop_post (r : lres (list (Z * G))) : Prop :=
      match r with
      | LOk bp' => inv_link bp' /\ to_find ss bp' = []
      | LRaise => exists b, In b (all_bs ss) /\ ~ linked ss known0 b
      | LFuel => False
      end.

    Lemma link_loop_post fuel : forall bp r,
      inv_link bp -> r = length (to_find ss bp) -> (0 < r)%nat -> (r <= fuel)%nat ->
      loop_post (link_loop fuel ss bp r).
    Proof.
      induction fuel as [|f IH]; intros bp r HI Hr Hpos Hf; [lia|].
      cbn [link_loop]. assert (HI' := inv_round bp HI). assert (Hle := to_find_round_le ss bp).
      destruct (length (to_find ss (round ss bp)) =? 0)%nat eqn:E0.
      - apply Nat.eqb_eq in E0. cbn [loop_post]. split; [exact HI'|].
        destruct (to_find ss (round ss bp)); [reflexivity | discriminate].
      - apply Nat.eqb_neq in E0. destruct (length (to_find ss (round ss bp)) =? r)%nat eqn:E1.
        + apply Nat.eqb_eq in E1. cbn [loop_post].
          assert (HC : keys (contribs ss bp) = []).
          { destruct (keys (contribs ss bp)) as [|k kc] eqn:E; [reflexivity|].
            assert (Hlt : (length (to_find ss (round ss bp)) < length (to_find ss bp))%nat).
            { apply to_find_round_lt. rewrite E. discriminate. }
            lia. }
          destruct (to_find ss bp) as [|b tf] eqn:Etf; [cbn [length] in Hr; lia|].
          assert (Hb : In b (to_find ss bp)) by (rewrite Etf; left; reflexivity).
          apply in_to_find in Hb as [Hb Hn]. exists b. split; [exact Hb|].
          intros Hl. apply Hn. apply (closed_no_contrib bp HI HC b Hl).
        + apply Nat.eqb_neq in E1. apply IH; [exact HI' | reflexivity | lia | lia].
    Qed.
  End Inv.

  Lemma estimate_remaining_post ss bp0 :
    loop_post ss (keys bp0) (estimate_remaining ss bp0).
  Proof.
    unfold estimate_remaining.
    assert (HI : inv_link ss (keys bp0) bp0).
    { split; [intros b Hb; apply linked_known, Hb | auto]. }
    destruct (length (to_find ss bp0) =? 0)%nat eqn:E0.
    - apply Nat.eqb_eq in E0. cbn [loop_post]. split; [exact HI|].
      destruct (to_find ss bp0); [reflexivity | discriminate].
    - apply Nat.eqb_neq in E0. apply link_loop_post; [exact HI | reflexivity | lia | lia].
  Qed.

  (* ---- the decision theorem *)
  Lemma linkage_decision ss bp0 :
    (estimate_remaining ss bp0 = LRaise <->
       exists b, In b (concat (map keys ss)) /\ ~ linked ss (keys bp0) b) /\
    (forall bp, estimate_remaining ss bp0 = LOk bp ->
       (forall b, In b (keys bp) <-> linked ss (keys bp0) b) /\
       (forall b, In b (concat (map keys ss)) -> In b (keys bp))) /\
    estimate_remaining ss bp0 <> LFuel.
  Proof.
    assert (HP := estimate_remaining_post ss bp0).
    assert (Hscope : forall b, In b (concat (map keys ss)) <-> In b (all_bs ss)).
    { intros b. unfold all_bs. rewrite first_occ_in. reflexivity. }
    assert (HOk : forall bp, estimate_remaining ss bp0 = LOk bp ->
       (forall b, In b (keys bp) <-> linked ss (keys bp0) b) /\
       (forall b, In b (concat (map keys ss)) -> In b (keys bp))).
    { intros bp E. rewrite E in HP. cbn [loop_post] in HP. destruct HP as [[H1 H2] Htf].
      assert (Hall : forall b, In b (all_bs ss) -> In b (keys bp)).
      { intros b Hb. destruct (mem b (keys bp)) eqn:M; [apply mem_true_iff, M|].
        apply mem_false_iff in M. assert (Hin : In b (to_find ss bp)) by (apply in_to_find; auto).
        rewrite Htf in Hin. destruct Hin. }
      split.
      - intros b. split; [apply H1|]. intros Hl. destruct (linked_in_scope _ _ _ Hl) as [H|H]; auto.
      - intros b Hb. apply Hall, Hscope, Hb. }
    split; [|split; [exact HOk|]].
    - split.
      + intros E. rewrite E in HP. cbn [loop_post] in HP. destruct HP as (b & Hb & Hn).
        exists b. split; [apply Hscope, Hb | exact Hn].
      + intros (b & Hb & Hn). destruct (estimate_remaining ss bp0) as [bp| |] eqn:E.
        * exfalso. destruct (HOk bp eq_refl) as [H1 H2]. apply Hn, H1, H2, Hb.
        * reflexivity.
        * destruct HP.
    - intros E. rewrite E in HP. exact HP.
  Qed.

  (* ---- any property of bs_poses preserved by one round holds for the result *)
  Lemma link_loop_preserves (P : list (Z * G) -> Prop) ss :
    (forall bp, P bp -> P (round ss bp)) ->
    forall fuel bp r bp', P bp -> link_loop fuel ss bp r = LOk bp' -> P bp'.
  Proof.
    intros HP. induction fuel as [|f IH]; intros bp r bp' H E; [discriminate|].
    cbn [link_loop] in E. destruct (length (to_find ss (round ss bp)) =? 0)%nat.
    - injection E as <-. apply HP, H.
    - destruct (length (to_find ss (round ss bp)) =? r)%nat; [discriminate|].
      apply (IH _ _ _ (HP bp H) E).
  Qed.

  Lemma estimate_remaining_preserves (P : list (Z * G) -> Prop) ss :
    (forall bp, P bp -> P (round ss bp)) ->
    forall bp0 bp', P bp0 -> estimate_remaining ss bp0 = LOk bp' -> P bp'.
  Proof.
    intros HP bp0 bp' H E. unfold estimate_remaining in E.
    destruct (length (to_find ss bp0) =? 0)%nat; [injection E as <-; exact H|].
    apply (link_loop_preserves P ss HP _ _ _ _ H E).
  Qed.

  (* ---- every station is given a pose exactly once *)
  Lemma NoDup_app_disjoint {X} (a b : list X) :
    NoDup a -> NoDup b -> (forall x, In x a -> ~ In x b) -> NoDup (a ++ b).
  Proof.
    induction a as [|x a IH]; intros Ha Hb Hd; [exact Hb|]. inversion Ha; subst. cbn [app]. constructor.
    - rewrite in_app_iff. intros [H|H]; [contradiction | apply (Hd x (or_introl eq_refl) H)].
    - apply IH; [assumption | exact Hb | intros y Hy; apply Hd; right; exact Hy].
  Qed.

  Lemma round_nodup ss bp : NoDup (keys bp) -> NoDup (keys (round ss bp)).
  Proof.
    intros H. rewrite keys_round. apply NoDup_app_disjoint; [exact H | apply first_occ_nodup|].
    intros x Hx Hc. rewrite first_occ_in in Hc. apply in_keys_contribs in Hc as (_ & _ & _ & _ & Hn). contradiction.
  Qed.

  Lemma estimate_remaining_nodup ss bp0 bp :
    NoDup (keys bp0) -> estimate_remaining ss bp0 = LOk bp -> NoDup (keys bp).
  Proof.
    intros H0 E.
    apply (estimate_remaining_preserves (fun q : list (Z * G) => NoDup (keys q)) ss (round_nodup ss) bp0 bp H0 E).
  Qed.

  (* ------------------------------------------------------------------ exact poses over a group *)
  Section Exact.
    Variable e : G.
    Hypothesis op_assoc : forall x y z, op x (op y z) = op (op x y) z.
    Hypothesis op_e_l : forall x, op e x = x.
    Hypothesis op_e_r : forall x, op x e = x.
    Hypothesis inv_l : forall x, op (inv x) x = e.
    Hypothesis inv_r : forall x, op x (inv x) = e.
    Hypothesis avg_const : forall g l, l <> [] -> Forall (fun p => p = g) l -> avg l = g.

    Lemma inv_unique x y : op x y = e -> y = inv x.
    Proof. intros H. rewrite <- (op_e_l y), <- (inv_l x), <- op_assoc, H, op_e_r. reflexivity. Qed.

    Lemma inv_inv x : inv (inv x) = x.
    Proof. symmetry. apply inv_unique, inv_l. Qed.

    Lemma inv_op x y : inv (op x y) = op (inv y) (inv x).
    Proof.
      symmetry. apply inv_unique. rewrite op_assoc, <- (op_assoc x y (inv y)), inv_r, op_e_r, inv_r. reflexivity.
    Qed.

    Variable BS : Z -> G.          (* true pose of each base station, any global frame *)
    Variable REF : G.              (* true pose of the reference Crazyflie (first usable sample), same frame *)

    (* a sample is consistent with the truth when taken with the Crazyflie at pose C *)
    Definition sample_at (C : G) (s : psample) : Prop :=
      forall b p, In (b, p) s -> p = op (inv C) (BS b).
    Definition exact bp : Prop := forall b p, In (b, p) bp -> p = op (inv REF) (BS b).

    Lemma map_pose_exact C a b :
      map_pose_to_ref_frame op inv (op (inv REF) (BS a)) (op (inv C) (BS a)) (op (inv C) (BS b))
      = op (inv REF) (BS b).
    Proof.
      unfold map_pose_to_ref_frame, map_cf_pos_to_cf_pos. rewrite inv_op, inv_inv.
      rewrite <- (op_assoc (inv REF) (BS a)), (op_assoc (BS a) (inv (BS a)) C), inv_r, op_e_l.
      rewrite <- (op_assoc (inv REF) C), (op_assoc C (inv C)), inv_r, op_e_l. reflexivity.
    Qed.

    Lemma map_cf_exact C b :
      map_cf_pos_to_cf_pos op inv (op (inv REF) (BS b)) (op (inv C) (BS b)) = op (inv REF) C.
    Proof.
      unfold map_cf_pos_to_cf_pos. rewrite inv_op, inv_inv.
      rewrite <- (op_assoc (inv REF) (BS b)), (op_assoc (BS b) (inv (BS b)) C), inv_r, op_e_l. reflexivity.
    Qed.

    Lemma sample_contrib_exact bp s C : exact bp -> sample_at C s ->
      forall b p, In (b, p) (sample_contrib bp s) -> p = op (inv REF) (BS b).
    Proof.
      intros Hb Hs b p. unfold sample_contrib.
      destruct (filter (fun b => mem b (keys bp)) (keys s)) as [|k0 kn]; [intros []|].
      set (kb := choose (k0 :: kn)).
      destruct (dict_get kb bp) as [kg|] eqn:Eg; [|intros []].
      destruct (dict_get kb s) as [kc|] eqn:Ec; [|intros []].
      rewrite in_map_iff. intros ([b' p'] & E & Hin). cbn [fst snd] in E. injection E as <- <-.
      apply filter_In in Hin as [Hin _].
      rewrite (Hb _ _ (dict_get_In _ _ _ Eg)), (Hs _ _ (dict_get_In _ _ _ Ec)), (Hs _ _ Hin).
      apply map_pose_exact.
    Qed.

    Lemma round_exact ss bp : (forall s, In s ss -> exists C, sample_at C s) -> exact bp -> exact (round ss bp).
    Proof.
      intros Hss Hb b p. unfold round. rewrite in_app_iff. intros [H|H]; [apply Hb, H|].
      apply in_map_iff in H as (b' & E & Hin). injection E as <- <-.
      rewrite first_occ_in in Hin. apply avg_const.
      - unfold bucket. apply in_keys_ex in Hin as [p Hp]. intros Hnil.
        assert (Hin : In p (map snd (filter (fun e0 => fst e0 =? b') (contribs ss bp)))).
        { change p with (snd (b', p)). apply in_map. apply filter_In. split; [exact Hp | apply Z.eqb_refl]. }
        rewrite Hnil in Hin. destruct Hin.
      - unfold bucket. rewrite Forall_forall. intros p Hp. apply in_map_iff in Hp as ([b2 p2] & E & Hin2).
        cbn [snd] in E. subst p2. apply filter_In in Hin2 as [Hin2 Eb]. cbn [fst] in Eb. apply Z.eqb_eq in Eb.
        subst b2. unfold contribs in Hin2. apply in_flat_map in Hin2 as (s & Hs & Hin2).
        destruct (Hss s Hs) as [C HC]. apply (sample_contrib_exact bp s C Hb HC _ _ Hin2).
    Qed.

    Lemma estimate_remaining_exact ss bp0 bp :
      (forall s, In s ss -> exists C, sample_at C s) -> exact bp0 ->
      estimate_remaining ss bp0 = LOk bp -> exact bp.
    Proof.
      intros Hss H0 E. apply (estimate_remaining_preserves exact ss (fun bp => round_exact ss bp Hss) bp0 bp H0 E).
    Qed.

    Lemma all_some_Forall {X} (l : list (option X)) (r : list X) (P : X -> Prop) :
      all_some l = Some r -> (forall x, In (Some x) l -> P x) -> Forall P r.
    Proof.
      revert r. induction l as [|[x|] l IH]; intros r E H; cbn [all_some] in E.
      - injection E as <-. constructor.
      - destruct (all_some l) as [r'|]; [|discriminate]. injection E as <-. constructor.
        + apply H. left. reflexivity.
        + apply IH; [reflexivity|]. intros y Hy. apply H. right. exact Hy.
      - discriminate.
    Qed.

    Lemma all_some_length {X} (l : list (option X)) (r : list X) : all_some l = Some r -> length r = length l.
    Proof.
      revert r. induction l as [|[x|] l IH]; intros r E; cbn [all_some] in E.
      - injection E as <-. reflexivity.
      - destruct (all_some l) as [r'|]; [|discriminate]. injection E as <-. cbn [length]. f_equal. apply IH. reflexivity.
      - discriminate.
    Qed.

    Lemma estimate_cf_pose_exact bp s C g : exact bp -> sample_at C s ->
      estimate_cf_pose op inv avg bp s = Some g -> g = op (inv REF) C.
    Proof.
      intros Hb Hs. unfold estimate_cf_pose. destruct s as [|e0 s']; [discriminate|].
      destruct (all_some _) as [l|] eqn:E; [|discriminate]. intros H. injection H as <-.
      apply avg_const.
      - apply all_some_length in E. rewrite map_length in E. destruct l; [discriminate | discriminate].
      - apply (all_some_Forall _ _ _ E). intros x Hx. apply in_map_iff in Hx as ([b p] & E2 & Hin).
        cbn [fst snd] in E2. destruct (dict_get b bp) as [kg|] eqn:Eg; [|discriminate]. injection E2 as <-.
        rewrite (Hb _ _ (dict_get_In _ _ _ Eg)), (Hs _ _ Hin). apply map_cf_exact.
    Qed.
  End Exact.
End LinkProofs.
