(* C09/Proofs_pairkey.v — aggregates of distinct station pairs never mix under an injective key, for any ids;
   they do under the packed key (bs1 << 4) | bs2 as soon as an id needs more than 4 bits. *)
From CF Require Import Common.Bytes C09.Model C09.Vote C09.Decide C09.PairKey C09.Proofs_matcher.
From Coq Require Import ZifyBool.
Open Scope Z_scope.

Lemma pair_eqb_eq a b : pair_eqb a b = true <-> a = b.
Proof.
  destruct a as [a1 a2], b as [b1 b2]. unfold pair_eqb. cbn [fst snd]. rewrite andb_true_iff, !Z.eqb_eq.
  split; [intros [-> ->]; reflexivity | intros H; injection H; auto].
Qed.

Section KeyedProofs.
  Context {K V : Type}.
  Variable key : pair_id -> K.
  Variable keq : K -> K -> bool.
  Hypothesis keq_spec : forall a b, keq a b = true <-> a = b.
  Hypothesis key_injective : forall p q, key p = key q -> p = q.

  Lemma aggregate_injective (entries : list (pair_id * V)) (p : pair_id) :
    aggregate key keq entries p = own entries p.
  Proof.
    unfold aggregate, own. f_equal. apply filter_ext_in'. intros e _.
    destruct (pair_eqb (fst e) p) eqn:E.
    - apply pair_eqb_eq in E. rewrite E. apply keq_spec. reflexivity.
    - destruct (keq (key (fst e)) (key p)) eqn:E2; [|reflexivity].
      apply keq_spec, key_injective, pair_eqb_eq in E2. congruence.
  Qed.
End KeyedProofs.

(* the key of /repo: the pair itself *)
Lemma aggregate_by_pair {V} (entries : list (pair_id * V)) (p : pair_id) :
  aggregate (fun q => q) pair_eqb entries p = own entries p.
Proof. apply aggregate_injective; [apply pair_eqb_eq | auto]. Qed.

(* the estimator model: the candidate lists voted on for (i, j) are exactly those of the samples that see both i and j *)
Section PairLists.
  Context {P G : Type}.
  Variable rel : G -> G -> P.
  Lemma pair_lists_own (ss : list (@dsample G)) (i j : Z) (cl : list P) :
    In cl (pair_lists rel ss i j) <->
    exists s, In s ss /\ In i (keys s) /\ In j (keys s) /\ cl = cands rel s i j.
  Proof.
    unfold pair_lists. rewrite in_map_iff. split.
    - intros (s & <- & Hs). apply filter_In in Hs as [Hs Hm]. apply andb_true_iff in Hm as [Hi Hj].
      exists s. repeat split; [exact Hs | apply mem_true_iff, Hi | apply mem_true_iff, Hj].
    - intros (s & Hs & Hi & Hj & ->). exists s. split; [reflexivity|]. apply filter_In. split; [exact Hs|].
      apply andb_true_iff. split; apply mem_true_iff; assumption.
  Qed.
End PairLists.

(* packed key: (2, 19) and (3, 19) share key 51, the candidates of the two pairs are pooled *)
Lemma key16_refuted :
  key16 (2, 19) = 51 /\ key16 (3, 19) = 51 /\ (2, 19) <> (3, 19) /\
  exists entries : list (pair_id * Z),
    aggregate key16 Z.eqb entries (2, 19) <> own entries (2, 19) /\
    aggregate key16 Z.eqb entries (3, 19) <> own entries (3, 19) /\
    aggregate (fun q => q) pair_eqb entries (2, 19) = own entries (2, 19).
Proof.
  split; [reflexivity|]. split; [reflexivity|]. split; [discriminate|].
  exists [((2, 19), 100); ((3, 19), 200)]. repeat split; vm_compute; discriminate.
Qed.
