(* C09/Proofs_vote.v — the mirror vote does not isolate the true solution (root cause of finding F09b). *)
From CF Require Import Common.Bytes C09.Vote.
Open Scope Z_scope.

Definition zsum (l : list Z) : Z := fold_right Z.add 0 l.

(* One sample, candidates in IPPE order: the TRUE relative position first (0 cm: both stations took their best
   reprojection solution), then the three mirror combinations at 30 cm, 250 cm, 260 cm.  The winning bucket is not
   {truth}: it also holds the mirror candidate 30 cm away, so its mean (15 cm) is not the truth. *)
Lemma vote_lumps_mirror : vote near_cm [[0; 30; 250; 260]] = [0; 30].
Proof. reflexivity. Qed.

(* the same with three samples that all contain the exact truth: the mean of the winner is still off *)
Lemma vote_lumps_mirror_3 :
  vote near_cm [[0; 30; 250; 260]; [0; 45; 300; 310]; [0; 400; 20; 410]] = [0; 30; 0; 45; 0; 20].
Proof. reflexivity. Qed.

(* statement used in Property.v: every sample holds the exact truth as its FIRST candidate (what IPPE delivers for
   error-free angles), yet the mean of the winning bucket is not the truth *)
Lemma mirror_vote_refuted :
  exists (position_lists : list (list Z)) (truth : Z),
    (length position_lists >= 3)%nat /\
    (forall cands, In cands position_lists -> exists rest, cands = truth :: rest /\ length rest = 3%nat) /\
    (exists p, In p (vote near_cm position_lists) /\ p <> truth) /\
    zsum (vote near_cm position_lists) <> Z.of_nat (length (vote near_cm position_lists)) * truth.
Proof.
  exists [[0; 30; 250; 260]; [0; 45; 300; 310]; [0; 400; 20; 410]], 0. split; [cbn; lia|]. split.
  - intros cands [<-|[<-|[<-|[]]]]; eexists; split; reflexivity.
  - rewrite vote_lumps_mirror_3. split; [exists 30; split; [cbn; tauto | lia] | cbn; lia].
Qed.
