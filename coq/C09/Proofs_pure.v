(* C09/Proofs_pure.v — overlapping calls of shared-state-free code are independent; a shared scratch cell is not. *)
From CF Require Import Common.Bytes C09.Pure.

Section InterleaveProofs.
  Context {L S : Type}.
  Notation step := (@step L S).

  Lemma alone_local (p : list step) : Forall local_only p ->
    exists g, forall l s, run_alone p l s = (g l, s).
  Proof.
    induction p as [|st p IH]; intros H.
    - exists (fun l => l). reflexivity.
    - inversion H as [|? ? [f Hf] Hp]; subst. destruct (IH Hp) as [g Hg].
      exists (fun l => g (f l)). intros l s. cbn [run_alone]. rewrite Hf. apply Hg.
  Qed.

  Lemma both_local (sched : list bool) : forall (p1 p2 : list step) l1 l2 s s1 s2,
    Forall local_only p1 -> Forall local_only p2 ->
    run_both sched p1 p2 l1 l2 s = (fst (run_alone p1 l1 s1), fst (run_alone p2 l2 s2), s).
  Proof.
    induction sched as [|b sched IH]; intros p1 p2 l1 l2 s s1 s2 H1 H2.
    - cbn [run_both]. destruct (alone_local p1 H1) as [g1 Hg1]. destruct (alone_local p2 H2) as [g2 Hg2].
      rewrite (Hg1 l1 s), (Hg2 l2 s), (Hg1 l1 s1), (Hg2 l2 s2). reflexivity.
    - destruct b; cbn [run_both].
      + destruct p1 as [|st p1']; [apply IH; assumption|].
        inversion H1 as [|? ? [f Hf] Hp]; subst. rewrite (Hf l1 s).
        rewrite (IH p1' p2 (f l1) l2 s s1 s2 Hp H2). cbn [run_alone]. rewrite (Hf l1 s1). reflexivity.
      + destruct p2 as [|st p2']; [apply IH; assumption|].
        inversion H2 as [|? ? [f Hf] Hp]; subst. rewrite (Hf l2 s).
        rewrite (IH p1 p2' l1 (f l2) s s1 s2 H1 Hp). cbn [run_alone]. rewrite (Hf l2 s2). reflexivity.
  Qed.
End InterleaveProofs.

Section EstimatorProofs.
  Context {I M R : Type}.
  Variable find : I -> M.
  Variable pick : I -> M -> R.

  Lemma pure_estimate_local S : Forall local_only (@pure_estimate I M R find pick S).
  Proof.
    repeat constructor.
    - exists (fun l : elocal => let '(i, _, r) := l in (i, Some (find i), r)). intros [[i m] r] s. reflexivity.
    - exists (fun l : elocal => let '(i, m, r) := l in
                (i, m, match m with Some m' => Some (pick i m') | None => r end)).
      intros [[i m] r] s. reflexivity.
  Qed.

  Lemma pure_estimate_alone S i (s : S) :
    result (fst (run_alone (pure_estimate find pick) (start i) s)) = Some (pick i (find i)).
  Proof. reflexivity. Qed.

  Lemma overlapping_estimates_independent S (sched : list bool) i1 i2 (s : S) :
    let '(l1, l2, s') := run_both sched (pure_estimate find pick) (pure_estimate find pick) (start i1) (start i2) s in
    result l1 = Some (pick i1 (find i1)) /\ result l2 = Some (pick i2 (find i2)) /\ s' = s.
  Proof.
    rewrite (both_local sched _ _ (start i1) (start i2) s s s (pure_estimate_local S) (pure_estimate_local S)).
    repeat split.
  Qed.
End EstimatorProofs.

(* the scratch cell: call 1 does pass 1, call 2 does pass 1, call 1 does pass 2 => call 1 answers from call 2's data *)
Lemma shared_scratch_refuted :
  exists (find : nat -> nat) (pick : nat -> nat -> nat) (i1 i2 : nat) (sched : list bool),
    let '(l1, _, _) := run_both sched (cell_estimate find pick) (cell_estimate find pick) (start i1) (start i2) None in
    result l1 <> Some (pick i1 (find i1)) /\
    result (fst (run_alone (cell_estimate find pick) (start i1) None)) = Some (pick i1 (find i1)).
Proof.
  exists (fun i => i), (fun _ m => m), 1%nat, 2%nat, [true; false; true]. cbn. split; [discriminate | reflexivity].
Qed.
