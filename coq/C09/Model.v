(* C09/Model.v — executable definitions only (no proofs).

   1. LighthouseSampleMatcher.match / _append_result  (cflib/localization/lighthouse_sample_matcher.py).
      Time stamps are an abstract type T; the only thing the code does with them is the test
      `ts > (current.timestamp + max_time_diff)`, modelled by the parameter [late cur ts : bool]
      (so the theorems hold for Python ints, for binary64 floats with their rounding, for anything).
      `angles_calibrated` is a Python dict: an association list in insertion order; assigning to an
      existing key replaces the value and keeps the key's position.
   2. LighthouseInitialEstimator._estimate_remaining_bs_poses / _estimate_cf_poses and the bookkeeping
      of `estimate` around them (cflib/localization/lighthouse_initial_estimator.py), with a sample
      abstracted to the association list "base-station id -> pose of that station in the Crazyflie
      frame of the sample" that `_angles_to_poses` produces.  Poses are elements of an abstract type G
      with composition [op], inverse [inv]; `_avarage_poses` is the parameter [avg]; the element of
      `known` the code picks (`list(known)[0]`, i.e. CPython set order) is the parameter [choose].
      The numeric steps (IPPE, mirror vote, eigen-decomposition) are NOT modelled. *)
From CF Require Export Common.Bytes.
Open Scope Z_scope.

(* ------------------------------------------------------------------ Python dict as association list *)
Section Dict.
  Context {V : Type}.

  Fixpoint dict_set (k : Z) (v : V) (d : list (Z * V)) : list (Z * V) :=
    match d with
    | [] => [(k, v)]
    | (k', v') :: d' => if k' =? k then (k, v) :: d' else (k', v') :: dict_set k v d'
    end.

  Fixpoint dict_get (k : Z) (d : list (Z * V)) : option V :=
    match d with
    | [] => None
    | (k', v') :: d' => if k' =? k then Some v' else dict_get k d'
    end.

  Definition keys (d : list (Z * V)) : list Z := map fst d.
End Dict.

Definition mem (x : Z) (l : list Z) : bool := existsb (Z.eqb x) l.

(* set-like list operations (order = first occurrence, as a dict/loop would produce) *)
Fixpoint first_occ (l : list Z) : list Z :=
  match l with
  | [] => []
  | x :: tl => x :: filter (fun y => negb (y =? x)) (first_occ tl)
  end.

(* ------------------------------------------------------------------ 1. sample matcher *)
Section Matcher.
  Context {T A : Type}.
  Variable late : T -> T -> bool.      (* late cur ts  :=  ts > (cur + max_time_diff) *)

  Record meas : Type := Meas { m_ts : T; m_bs : Z; m_ang : A }.   (* LhMeasurement *)
  Definition sample : Type := (T * list (Z * A))%type.            (* LhCfPoseSample: timestamp, angles_calibrated *)

  (* _append_result *)
  Definition append_result (min_nr : Z) (cur : option sample) (res : list sample) : list sample :=
    match cur with
    | None => res
    | Some c => if Z.of_nat (length (snd c)) >=? min_nr then res ++ [c] else res
    end.

  (* the body of the for loop, then the final _append_result *)
  Fixpoint match_loop (min_nr : Z) (cur : option sample) (res : list sample) (l : list meas) : list sample :=
    match l with
    | [] => append_result min_nr cur res
    | m :: l' =>
        let ts := m_ts m in
        let cur1 : sample := match cur with None => (ts, []) | Some c => c end in
        let '(cur2, res2) :=
          if late (fst cur1) ts then ((ts, []) : sample, append_result min_nr (Some cur1) res)
          else (cur1, res) in
        match_loop min_nr (Some (fst cur2, dict_set (m_bs m) (m_ang m) (snd cur2))) res2 l'
    end.

  Definition match_samples (min_nr : Z) (l : list meas) : list sample := match_loop min_nr None [] l.

  (* ---- specification side: the segmentation of the input the property text speaks about *)
  Definition group_ok (g : list meas) : Prop :=
    match g with
    | [] => False
    | h :: tl => Forall (fun m => late (m_ts h) (m_ts m) = false) tl
    end.

  Fixpoint boundaries_ok (gs : list (list meas)) : Prop :=
    match gs with
    | g :: ((g' :: _) as rest) =>
        match g, g' with
        | h :: _, h' :: _ => late (m_ts h) (m_ts h') = true
        | _, _ => False
        end /\ boundaries_ok rest
    | _ => True
    end.

  (* gs is THE split of l into maximal runs whose time stamps are not late w.r.t. the run's first one *)
  Definition segmentation (gs : list (list meas)) (l : list meas) : Prop :=
    concat gs = l /\ Forall group_ok gs /\ boundaries_ok gs.

  (* the dict a run produces: keys in order of first occurrence, value = angles of the LAST measurement of that station *)
  Definition last_ang (k : Z) (g : list meas) : option A :=
    match find (fun m => m_bs m =? k) (rev g) with
    | Some m => Some (m_ang m)
    | None => None
    end.

  Definition dict_of (g : list meas) : list (Z * A) :=
    fold_left (fun d m => dict_set (m_bs m) (m_ang m) d) g [].

  Definition sample_of (g : list meas) : option sample :=
    match g with
    | [] => None
    | h :: _ => Some (m_ts h, dict_of g)
    end.

  Definition enough (min_nr : Z) (g : list meas) : bool :=
    Z.of_nat (length (first_occ (map m_bs g))) >=? min_nr.

  Fixpoint somes {X : Type} (l : list (option X)) : list X :=
    match l with
    | [] => []
    | Some x :: tl => x :: somes tl
    | None :: tl => somes tl
    end.

  (* greedy split used in the proofs and for the non-vacuity examples *)
  Fixpoint seg_from (t : T) (g : list meas) (l : list meas) : list (list meas) :=
    match l with
    | [] => [g]
    | m :: l' => if late t (m_ts m) then g :: seg_from (m_ts m) [m] l' else seg_from t (g ++ [m]) l'
    end.

  Definition segment (l : list meas) : list (list meas) :=
    match l with
    | [] => []
    | m :: l' => seg_from (m_ts m) [m] l'
    end.
End Matcher.

Arguments Meas {T A}.
Arguments m_ts {T A}.
Arguments m_bs {T A}.
Arguments m_ang {T A}.

(* ------------------------------------------------------------------ 2. linkage of base stations through shared samples *)
Inductive lres (X : Type) : Type :=
| LOk (x : X)          (* loop left normally *)
| LRaise               (* LhException('Can not link positions between all base stations') *)
| LFuel.               (* artefact of the fuel encoding; proved unreachable *)
Arguments LOk {X}.
Arguments LRaise {X}.
Arguments LFuel {X}.

Section Linkage.
  Context {G : Type}.
  Variable op : G -> G -> G.            (* Pose composition: (op P Q) = P.rotate_translate_pose(Q) *)
  Variable inv : G -> G.
  Variable avg : list G -> G.           (* _avarage_poses *)
  Variable choose : list Z -> Z.        (* list(known)[0] *)

  Definition psample : Type := list (Z * G).     (* dict[int, Pose] of one sample: station poses, CF frame *)

  (* _map_cf_pos_to_cf_pos (pose1_ref1, pose1_ref2) : R = R1 R2^T, t = t1 - R t2 *)
  Definition map_cf_pos_to_cf_pos (p1r1 p1r2 : G) : G := op p1r1 (inv p1r2).
  (* _map_pose_to_ref_frame *)
  Definition map_pose_to_ref_frame (p1r1 p1r2 p2r2 : G) : G := op (map_cf_pos_to_cf_pos p1r1 p1r2) p2r2.

  Definition all_bs (ss : list psample) : list Z := first_occ (concat (map keys ss)).
  Definition to_find (ss : list psample) (bs_poses : list (Z * G)) : list Z :=
    filter (fun b => negb (mem b (keys bs_poses))) (all_bs ss).

  Definition dict_default (k : Z) (d : list (Z * G)) (dflt : G) : G :=
    match dict_get k d with Some v => v | None => dflt end.

  (* contributions of one sample to the buckets: (unknown id, its pose in the global frame) *)
  Definition sample_contrib (bs_poses : list (Z * G)) (s : psample) : list (Z * G) :=
    let known := filter (fun b => mem b (keys bs_poses)) (keys s) in
    match known with
    | [] => []
    | _ :: _ =>
        let kb := choose known in
        match dict_get kb bs_poses, dict_get kb s with
        | Some known_global, Some known_cf =>
            map (fun e => (fst e, map_pose_to_ref_frame known_global known_cf (snd e)))
                (filter (fun e => negb (mem (fst e) (keys bs_poses))) s)
        | _, _ => []          (* unreachable when [choose known] is a member of [known] *)
        end
    end.

  Definition contribs (ss : list psample) (bs_poses : list (Z * G)) : list (Z * G) :=
    flat_map (sample_contrib bs_poses) ss.

  (* buckets: id -> list of poses, ids in first-insertion order *)
  Definition bucket (c : list (Z * G)) (b : Z) : list G :=
    map snd (filter (fun e => fst e =? b) c).

  Definition round (ss : list psample) (bs_poses : list (Z * G)) : list (Z * G) :=
    let c := contribs ss bs_poses in
    bs_poses ++ map (fun b => (b, avg (bucket c b))) (first_occ (keys c)).

  Fixpoint link_loop (fuel : nat) (ss : list psample) (bs_poses : list (Z * G)) (remaining : nat)
    : lres (list (Z * G)) :=
    match fuel with
    | O => LFuel
    | S f =>
        let bs_poses' := round ss bs_poses in
        let tf := to_find ss bs_poses' in
        if (length tf =? 0)%nat then LOk bs_poses'
        else if (length tf =? remaining)%nat then LRaise
        else link_loop f ss bs_poses' (length tf)
    end.

  (* _estimate_remaining_bs_poses (bs_poses_ref_cfs, bs_poses) *)
  Definition estimate_remaining (ss : list psample) (bs_poses : list (Z * G)) : lres (list (Z * G)) :=
    let r := length (to_find ss bs_poses) in
    if (r =? 0)%nat then LOk bs_poses else link_loop r ss bs_poses r.

  Fixpoint all_some {X : Type} (l : list (option X)) : option (list X) :=
    match l with
    | [] => Some []
    | Some x :: tl => match all_some tl with Some r => Some (x :: r) | None => None end
    | None :: _ => None
    end.

  (* _estimate_cf_poses, one sample: the averaged pose; None models an exception: `bs_poses[bs_id]` KeyError for a
     station without a pose, or _avarage_poses([]) failing on a sample without stations *)
  Definition estimate_cf_pose (bs_poses : list (Z * G)) (s : psample) : option G :=
    match s with
    | [] => None
    | _ :: _ =>
        match all_some (map (fun e => match dict_get (fst e) bs_poses with
                                      | Some g => Some (map_cf_pos_to_cf_pos g (snd e))
                                      | None => None end) s) with
        | Some l => Some (avg l)
        | None => None
        end
    end.

  Inductive eres : Type :=
  | ENoReference                                   (* LhException('Too little data, no reference') *)
  | ECannotLink                                    (* LhException('Can not link positions ...') *)
  | ECrash                                         (* a sample with no station: _avarage_poses([]) raises (numpy LinAlgError) *)
  | EFuel
  | EOk (bs_poses : list (Z * G)) (cf_poses : list G).

  Fixpoint first_entry (ss : list psample) : option (Z * G) :=
    match ss with
    | [] => None
    | [] :: tl => first_entry tl
    | (e :: _) :: _ => Some e
    end.

  (* `estimate` after _angles_to_poses *)
  Definition estimate_tail (ss : list psample) : eres :=
    match first_entry ss with
    | None => ENoReference
    | Some ref =>
        match estimate_remaining ss [ref] with
        | LRaise => ECannotLink
        | LFuel => EFuel
        | LOk bs_poses =>
            match all_some (map (estimate_cf_pose bs_poses) ss) with
            | None => ECrash
            | Some cfs => EOk bs_poses cfs
            end
        end
    end.

  (* ---- specification side *)
  (* b is linked to the initially known stations through shared samples *)
  Inductive linked (ss : list psample) (known0 : list Z) : Z -> Prop :=
  | linked_known : forall b, In b known0 -> linked ss known0 b
  | linked_step : forall a b s, linked ss known0 a -> In s ss -> In a (keys s) -> In b (keys s) ->
                                linked ss known0 b.
End Linkage.

Arguments ENoReference {G}.
Arguments ECannotLink {G}.
Arguments ECrash {G}.
Arguments EFuel {G}.
Arguments EOk {G}.

(* ---- the bookkeeping of _angles_to_poses on ids (every _choose_solutions succeeding, as for error-free data):
        a sample with stations ids (dict order) yields the dict with keys sorted(ids) when there are >= 2, else {} *)
Fixpoint insert_sorted (x : Z) (l : list Z) : list Z :=
  match l with
  | [] => [x]
  | y :: tl => if x <=? y then x :: l else y :: insert_sorted x tl
  end.
Definition sort_ids (l : list Z) : list Z := fold_right insert_sorted [] l.

Definition angles_to_poses_keys (ids : list Z) : list Z :=
  match sort_ids ids with
  | first :: ((_ :: _) as others) => first :: others
  | _ => []
  end.

(* ---- concrete instances used by the correspondence step (vm_compute) *)
(* time stamps as integers (Python ints, or floats holding integers: exact) *)
Definition late_Z (d : Z) (cur ts : Z) : bool := ts >? cur + d.
(* poses as integers under addition (pure translations along one axis, exact in binary64) *)
Definition choose_min (l : list Z) : Z := match sort_ids l with x :: _ => x | [] => 0 end.
Definition avg_hd (l : list Z) : Z := match l with x :: _ => x | [] => 0 end.
