(* C09/Decide.v — the DECISION logic of LighthouseInitialEstimator between the numeric kernels (definitions only):
     _find_solutions -> _add_solution_permutations -> _find_most_likely_positions (Vote.v) -> np.mean
     _angles_to_poses -> _choose_solutions (first strict minimum of the distance to the voted position, outlier test)
   The kernels are parameters: IPPE = the two scripted solutions per (sample, station) carried by the sample;
   distances D with the strict comparison [dlt]; [mean] = np.mean of a bucket; [rel a b] = translation of
   a.inv_rotate_translate_pose(b); [g0] = Pose().  Thresholds: radius = accept_radius (0.8), outlier =
   OUTLIER_DETECTION_ERROR (0.5), maxd = the initial min_dist (100000.0). *)
From CF Require Import Common.Bytes C09.Model C09.Vote.
Open Scope Z_scope.

Section Decide.
  Context {P D G : Type}.
  Variable dist : P -> P -> D.
  Variable dlt : D -> D -> bool.             (* strict < on distances *)
  Variables radius outlier maxd : D.
  Variable mean : list P -> P.
  Variable rel : G -> G -> P.
  Variable g0 : G.

  Definition near (a b : P) : bool := dlt (dist a b) radius.           (* np.linalg.norm(pos - ref) < accept_radius *)
  Definition voted (pls : list (list P)) : P := mean (vote near pls).  (* _find_best_position_bucket: np.mean(bucket) *)

  (* for solution_1 in solutions_1: for solution_2 in solutions_2: ... *)
  Definition pairs (s1s s2s : list G) : list (G * G) := flat_map (fun a => map (fun b => (a, b)) s2s) s1s.

  (* _choose_solutions: dist < min_dist  =>  min_dist, best = dist, (solution_1, solution_2) *)
  Definition choose_step (e : P) (st : D * (G * G)) (c : G * G) : D * (G * G) :=
    let d := dist e (rel (fst c) (snd c)) in if dlt d (fst st) then (d, c) else st.
  Definition choose (e : P) (s1s s2s : list G) : bool * (G * G) :=
    let st := fold_left (choose_step e) (pairs s1s s2s) (maxd, (g0, g0)) in
    (negb (dlt outlier (fst st)), snd st).                              (* min_dist > OUTLIER => success = False *)

  (* a sample after IPPE: station id -> its candidate poses in the CF frame (dict order) *)
  Definition dsample : Type := list (Z * list G).
  Definition sols_of (s : dsample) (b : Z) : list G := match dict_get b s with Some l => l | None => [] end.
  (* _add_solution_permutations for the pair (i, j): pose1..pose4 *)
  Definition cands (s : dsample) (i j : Z) : list P :=
    map (fun c => rel (fst c) (snd c)) (pairs (sols_of s i) (sols_of s j)).
  Definition pair_lists (ss : list dsample) (i j : Z) : list (list P) :=
    map (fun s => cands s i j) (filter (fun s => mem i (keys s) && mem j (keys s)) ss).
  Definition expected (ss : list dsample) (i j : Z) : P := voted (pair_lists ss i j).   (* bs_positions[(i, j)] *)

  (* _angles_to_poses, one sample: None = the sample is dropped (is_sample_valid = False) *)
  Fixpoint a2p_loop (ss : list dsample) (s : dsample) (first : Z) (others : list Z) (poses : list (Z * G))
    : option (list (Z * G)) :=
    match others with
    | [] => Some poses
    | o :: tl =>
        let r := choose (expected ss first o) (sols_of s first) (sols_of s o) in
        if fst r then a2p_loop ss s first tl (dict_set o (snd (snd r)) (dict_set first (fst (snd r)) poses))
        else None
    end.
  Definition a2p_sample (ss : list dsample) (s : dsample) : option (list (Z * G)) :=
    match sort_ids (keys s) with
    | [] => Some []                      (* not reached by the matcher's output; ids[0] would raise *)
    | first :: others => a2p_loop ss s first others []
    end.
  Definition decide (ss : list dsample) : list (option (list (Z * G))) := map (a2p_sample ss) ss.

  (* ---- NOT the code of /repo: a variant that trusts a station pair only when it is seen together in at least nmin
          samples (e.g. nmin = ceil(0.05 * number of samples)) and drops a sample whose pair has no trusted position *)
  Definition expected_thr (nmin : nat) (ss : list dsample) (i j : Z) : option P :=
    let pl := pair_lists ss i j in if (length pl <? nmin)%nat then None else Some (voted pl).
  Fixpoint a2p_loop_thr (nmin : nat) (ss : list dsample) (s : dsample) (first : Z) (others : list Z)
           (poses : list (Z * G)) : option (list (Z * G)) :=
    match others with
    | [] => Some poses
    | o :: tl =>
        match expected_thr nmin ss first o with
        | None => None
        | Some e =>
            let r := choose e (sols_of s first) (sols_of s o) in
            if fst r then a2p_loop_thr nmin ss s first tl (dict_set o (snd (snd r)) (dict_set first (fst (snd r)) poses))
            else None
        end
    end.
  Definition a2p_sample_thr (nmin : nat) (ss : list dsample) (s : dsample) : option (list (Z * G)) :=
    match sort_ids (keys s) with
    | [] => Some []
    | first :: others => a2p_loop_thr nmin ss s first others []
    end.
  Definition decide_thr (nmin : nat) (ss : list dsample) : list (option (list (Z * G))) :=
    map (a2p_sample_thr nmin ss) ss.
End Decide.

(* ---- instances *)
(* positions on a line in centimetres, integer distances *)
Definition dist_cm (a b : Z) : Z := Z.abs (a - b).
Definition mean_cm (l : list Z) : Z := fold_right Z.add 0 l / Z.of_nat (length l).
