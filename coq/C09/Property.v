(* C09/Property.v — property C09 (lighthouse geometry estimation), the part a proof can carry.  Theorems only; each is
   closed by `exact <lemma>` and followed by Print Assumptions.  Definitions: C09/Model.v.

   C09 as a whole ("for every room in the envelope the pipeline returns the truth within 1 mm / 1 mrad, unlinked
   systems raise") depends on IPPE (SVD), the mirror vote, an eigen-decomposition and scipy.least_squares; none of
   these has a Gallina model here.  Shape of the full statement, over an arbitrary pipeline function: *)
From CF Require Import Common.Bytes C09.Model C09.Proofs_matcher C09.Proofs_link C09.Proofs_est C09.Gen_Matcher C09.GenTie C09.Vote C09.Proofs_vote C09.Pure C09.Proofs_pure C09.Decide C09.Proofs_decide C09.Container C09.Proofs_container C09.PairKey C09.Proofs_pairkey.
Open Scope Z_scope.

Definition C09_full {Room Answer : Type} (in_envelope linked : Room -> Prop) (pipeline : Room -> option Answer)
           (within_1mm_1mrad_of_truth : Room -> Answer -> Prop) : Prop :=
  forall room, in_envelope room ->
    (linked room -> exists a, pipeline room = Some a /\ within_1mm_1mrad_of_truth room a) /\
    (~ linked room -> pipeline room = None).
(* Proved below (the `_partial` parts): sample matching, the linkage decision with termination, the outcome
   classification of `estimate`, exactness of the pose chaining/averaging bookkeeping for consistent data.
   The numeric clause is validated by sampling only (harness/props/c09.py). *)

(* ---- tie by translation: the Gallina regenerated from lighthouse_sample_matcher.py on every run (Gen_Matcher.v;
        None = the Python code would raise) never raises and equals the hand model [match_samples] used below *)
Theorem C09_matcher_code_is_model :
  forall (T A : Type) (late : T -> T -> bool) (min_nr : Z) (l : list (@meas T A)),
    gen_match late min_nr l = Some (match_samples late min_nr l).
Proof. exact (@gen_match_eq). Qed.
Print Assumptions C09_matcher_code_is_model.

(* ---- LighthouseSampleMatcher.match, for ANY time-stamp type and ANY outcome of the test
        `ts > current.timestamp + max_time_diff` (= late cur ts): provided the first measurement is not late with
        respect to itself (true whenever max_time_diff >= 0), the input has exactly one split into consecutive non-empty
        runs in which no time stamp is late w.r.t. the run's first one and each next run starts with a late one, and
        the result is: one sample per run with at least min_nr distinct stations, in order, stamped with the run's
        first time stamp, nothing else. *)
Theorem C09_matcher_groups_partial :
  forall (T A : Type) (late : T -> T -> bool) (min_nr : Z) (l : list (@meas T A)),
    (match l with m :: _ => late (m_ts m) (m_ts m) = false | [] => True end) ->
    (exists gs, segmentation late gs l) /\
    (forall gs, segmentation late gs l ->
       match_samples late min_nr l = somes (map sample_of (filter (enough min_nr) gs))).
Proof. exact (@matcher_groups). Qed.
Print Assumptions C09_matcher_groups_partial.

(* what a run's sample contains: stations in order of first occurrence, no station twice, exactly the stations
   of the run, and for each station the angles of its LAST measurement in the run (a later one overwrites);
   every stored angle object is one of the input's (nothing invented) *)
Theorem C09_matcher_sample_content_partial :
  forall (T A : Type) (g : list (@meas T A)),
    keys (dict_of g) = first_occ (map m_bs g) /\
    NoDup (keys (dict_of g)) /\
    (forall k, In k (keys (dict_of g)) <-> In k (map m_bs g)) /\
    (forall k, dict_get k (dict_of g) = last_ang k g) /\
    (forall k a, dict_get k (dict_of g) = Some a -> exists m, In m g /\ m_bs m = k /\ m_ang m = a).
Proof. exact (@matcher_sample_content). Qed.
Print Assumptions C09_matcher_sample_content_partial.

(* quirk of the code: when the first measurement IS late w.r.t. itself (negative max_time_diff) and
   min_nr_of_bs_in_match <= 0 (the default is 0) the result starts with an EMPTY sample *)
Theorem C09_matcher_negative_window_partial :
  forall (T A : Type) (late : T -> T -> bool) (min_nr : Z) (m : @meas T A) (l : list (@meas T A)),
    late (m_ts m) (m_ts m) = true ->
    match_samples late min_nr (m :: l)
    = (if 0 >=? min_nr then [(m_ts m, [])] else []) ++ emit min_nr (segment late (m :: l)).
Proof. exact (@matcher_degenerate). Qed.
Print Assumptions C09_matcher_negative_window_partial.

(* ---- _estimate_remaining_bs_poses on the abstract samples (dict station id -> pose), any pose type, any
        averaging function, any choice of the known station used for chaining:
        it raises iff some station of some sample is not linked to the initially known stations through shared
        samples; otherwise it returns poses for exactly the linked stations, which include every station of every
        sample; the loop always terminates (the fuel of the model never runs out). *)
Theorem C09_linkage_decision_partial :
  forall (G : Type) (op : G -> G -> G) (inv : G -> G) (avg : list G -> G) (choose : list Z -> Z),
    (forall l, l <> [] -> In (choose l) l) ->
    forall (ss : list (@psample G)) (bp0 : list (Z * G)),
      (estimate_remaining op inv avg choose ss bp0 = LRaise <->
         exists b, In b (concat (map keys ss)) /\ ~ linked ss (keys bp0) b) /\
      (forall bp, estimate_remaining op inv avg choose ss bp0 = LOk bp ->
         (forall b, In b (keys bp) <-> linked ss (keys bp0) b) /\
         (forall b, In b (concat (map keys ss)) -> In b (keys bp))) /\
      estimate_remaining op inv avg choose ss bp0 <> LFuel.
Proof. exact (@linkage_decision). Qed.
Print Assumptions C09_linkage_decision_partial.

(* ---- `estimate` after _angles_to_poses: no usable sample => 'no reference'; otherwise the reference is the first
        entry of the first non-empty sample, the call raises 'Can not link' iff some station is not linked to it;
        if all are linked it crashes iff some sample has no station, else it answers with exactly the stations seen
        and one Crazyflie pose per sample *)
Theorem C09_estimate_outcome_partial :
  forall (G : Type) (op : G -> G -> G) (inv : G -> G) (avg : list G -> G) (choose : list Z -> Z),
    (forall l, l <> [] -> In (choose l) l) ->
    forall ss : list (@psample G),
    match first_entry ss with
    | None => estimate_tail op inv avg choose ss = ENoReference
    | Some (r, _) =>
        In r (concat (map keys ss)) /\
        (estimate_tail op inv avg choose ss = ECannotLink <->
           exists b, In b (concat (map keys ss)) /\ ~ linked ss [r] b) /\
        ((forall b, In b (concat (map keys ss)) -> linked ss [r] b) ->
           (In [] ss -> estimate_tail op inv avg choose ss = ECrash) /\
           (~ In [] ss -> exists bp cfs, estimate_tail op inv avg choose ss = EOk bp cfs /\
                (forall b, In b (keys bp) <-> In b (concat (map keys ss))) /\ length cfs = length ss)) /\
        estimate_tail op inv avg choose ss <> EFuel /\ estimate_tail op inv avg choose ss <> ENoReference
    end.
Proof. exact (@estimate_outcome). Qed.
Print Assumptions C09_estimate_outcome_partial.

(* ---- exactness of the chaining (_map_pose_to_ref_frame, _map_cf_pos_to_cf_pos, buckets, averaging of equal poses):
        poses form a group; if every sample k holds, for each of its stations b, the true pose of b seen from the
        Crazyflie pose C_k, i.e. inv C_k * BS b, then an answer consists of the true station poses and the true
        Crazyflie poses expressed in the frame of the Crazyflie of the first non-empty sample *)
Theorem C09_linkage_exact_poses_partial :
  forall (G : Type) (op : G -> G -> G) (inv : G -> G) (avg : list G -> G) (choose : list Z -> Z) (e : G),
    (forall x y z, op x (op y z) = op (op x y) z) -> (forall x, op e x = x) -> (forall x, op x e = x) ->
    (forall x, op (inv x) x = e) -> (forall x, op x (inv x) = e) ->
    (forall g l, l <> [] -> Forall (fun p => p = g) l -> avg l = g) ->
    forall (BS : Z -> G) (Cs : list G) (ss : list (@psample G)) bp cfs,
      Forall2 (sample_at op inv BS) Cs ss -> estimate_tail op inv avg choose ss = EOk bp cfs ->
      exists REF, ref_cf Cs ss = Some REF /\
        (forall b p, In (b, p) bp -> p = op (inv REF) (BS b)) /\
        cfs = map (fun C => op (inv REF) C) Cs.
Proof. exact (@estimate_exact). Qed.
Print Assumptions C09_linkage_exact_poses_partial.

(* ---- _angles_to_poses bookkeeping on ids: a sample with fewer than two stations contributes an empty dict, any other
        the dict with keys sorted(ids) -- so the reference station is the SMALLEST id of the first sample that has
        two or more stations (not "the first station of the first sample") *)
Theorem C09_reference_station_partial : forall ids,
  (length ids < 2)%nat /\ angles_to_poses_keys ids = [] \/
  (2 <= length ids)%nat /\ angles_to_poses_keys ids = sort_ids ids /\
    exists r rest, angles_to_poses_keys ids = r :: rest /\ In r ids /\ forall y, In y ids -> r <= y.
Proof. exact angles_to_poses_keys_spec. Qed.
Print Assumptions C09_reference_station_partial.

(* ---- REFUTED clause (finding F09b, root cause): the cluster vote _find_most_likely_positions does not isolate the
        true relative station position.  Even when every sample's FIRST candidate is the exact truth (three samples
        here), mirror candidates closer than accept_radius to a reference candidate are put into the same bucket, so
        the mean of the winning bucket differs from the truth.  (Model C09/Vote.v, compared with the real
        _find_most_likely_positions on every run; real-room witnesses: corpus/C09/f09b..f09d.) *)
Theorem C09_mirror_vote_refuted :
  exists (position_lists : list (list Z)) (truth : Z),
    (length position_lists >= 3)%nat /\
    (forall cands, In cands position_lists -> exists rest, cands = truth :: rest /\ length rest = 3%nat) /\
    (exists p, In p (vote near_cm position_lists) /\ p <> truth) /\
    zsum (vote near_cm position_lists) <> Z.of_nat (length (vote near_cm position_lists)) * truth.
Proof. exact mirror_vote_refuted. Qed.
Print Assumptions C09_mirror_vote_refuted.

(* ---- EXTENSION beyond C09's stated quantifier (inputs, configurations -- not schedules): the result of a call is a
        function of its arguments also when two calls overlap in time.  The estimator as its two passes over the samples
        (find = _find_solutions: IPPE + vote; pick = _angles_to_poses and everything after), intermediate kept inside
        the call as in /repo: for EVERY interleaving of the steps of two calls, every initial content of any state
        shared between calls, both calls return what they return alone, and the shared state is untouched. *)
Theorem C09_overlapping_estimates_independent :
  forall (I M R S : Type) (find : I -> M) (pick : I -> M -> R) (sched : list bool) (i1 i2 : I) (s : S),
    let '(l1, l2, s') := run_both sched (pure_estimate find pick) (pure_estimate find pick) (start i1) (start i2) s in
    result l1 = Some (pick i1 (find i1)) /\ result l2 = Some (pick i2 (find i2)) /\ s' = s.
Proof. intros I M R S find pick. exact (@overlapping_estimates_independent I M R find pick S). Qed.
Print Assumptions C09_overlapping_estimates_independent.

(* the general form: any two programs whose steps neither read nor write the shared state *)
Theorem C09_local_steps_commute :
  forall (L S : Type) (sched : list bool) (p1 p2 : list (@step L S)) l1 l2 s s1 s2,
    Forall local_only p1 -> Forall local_only p2 ->
    run_both sched p1 p2 l1 l2 s = (fst (run_alone p1 l1 s1), fst (run_alone p2 l2 s2), s).
Proof. exact (@both_local). Qed.
Print Assumptions C09_local_steps_commute.

(* refuted for a scratch cell shared by all calls, written by pass 1 and read by pass 2 (a class attribute): alone the
   call is right, but under the schedule [call 1: pass 1; call 2: pass 1; call 1: pass 2] call 1 answers from the data
   of call 2 *)
Theorem C09_shared_scratch_refuted :
  exists (find : nat -> nat) (pick : nat -> nat -> nat) (i1 i2 : nat) (sched : list bool),
    let '(l1, _, _) := run_both sched (cell_estimate find pick) (cell_estimate find pick) (start i1) (start i2) None in
    result l1 <> Some (pick i1 (find i1)) /\
    result (fst (run_alone (cell_estimate find pick) (start i1) None)) = Some (pick i1 (find i1)).
Proof. exact shared_scratch_refuted. Qed.
Print Assumptions C09_shared_scratch_refuted.

(* ================= the estimator's DECISION logic between the numeric kernels (model C09/Decide.v + Vote.v) =========
   Kernels are parameters with contracts: IPPE = the candidate poses carried by each sample; distances [dist] with the
   strict test [dlt]; [mean] = np.mean with the contract "the mean of candidates that are all true (within eps of the
   truth) is true" (convexity of the eps-ball); nothing is assumed about the number of samples or stations. *)

(* ---- the bucket vote for one station pair.  IF all true candidates fall into one bucket h (e.g. they are within
        accept_radius of the first sample's true candidate and of no earlier reference) AND every bucket that holds a
        non-true candidate is another bucket, strictly smaller than bucket h when it comes before h and not larger
        when it comes after h (counting premise with the code's tie-break: the FIRST largest bucket wins; a pair seen in
        a single sample satisfies it when IPPE lists the true solutions first), THEN the vote returns
        exactly the bucket of the true candidates, and its mean is true. *)
Theorem C09_vote_sufficient_partial :
  forall (P : Type) (near : P -> P -> bool) (mean : list P -> P) (istrue : P -> Prop),
    (forall p, istrue p \/ ~ istrue p) ->
    (forall l, l <> [] -> Forall istrue l -> istrue (mean l)) ->
    forall (refs : list P) (rest : list (list P)) (h : nat),
      let pls := refs :: rest in
      let all := concat pls in
      (h < 4)%nat ->
      (forall c, In c all -> istrue c -> first_near near c refs O = Some h) ->
      (exists c, In c all /\ istrue c) ->
      (forall i, (i < 4)%nat -> (exists c, In c (bucket_of near refs all i) /\ ~ istrue c) ->
                 ((i < h)%nat /\ (length (bucket_of near refs all i) < length (bucket_of near refs all h))%nat) \/
                 ((h < i)%nat /\ (length (bucket_of near refs all i) <= length (bucket_of near refs all h))%nat)) ->
      vote near pls = bucket_of near refs all h /\ Forall istrue (vote near pls) /\ istrue (mean (vote near pls)).
Proof. exact (@vote_correct). Qed.
Print Assumptions C09_vote_sufficient_partial.

(* ---- _choose_solutions.  IF a true pair is among the candidates, every true pair is strictly nearer to the voted
        position than every non-true pair, and true pairs pass the outlier test, THEN the call succeeds and returns a
        true pair (first strict minimum, as the code breaks ties). *)
Theorem C09_choose_sufficient_partial :
  forall (P D G : Type) (dist : P -> P -> D) (dlt : D -> D -> bool) (outlier maxd : D) (rel : G -> G -> P) (g0 : G),
    (forall a, dlt a a = false) -> (forall a b c, dlt a b = true -> dlt b c = true -> dlt a c = true) ->
    forall (ptrue : G * G -> Prop), (forall c, ptrue c \/ ~ ptrue c) ->
    forall (e : P) (s1s s2s : list G),
      (exists c, In c (pairs s1s s2s) /\ ptrue c /\ dlt (dd dist rel e c) maxd = true) ->
      (forall c c', In c (pairs s1s s2s) -> In c' (pairs s1s s2s) -> ptrue c -> ~ ptrue c' ->
                    dlt (dd dist rel e c) (dd dist rel e c') = true) ->
      (forall c, In c (pairs s1s s2s) -> ptrue c -> dlt outlier (dd dist rel e c) = false) ->
      fst (choose dist dlt outlier maxd rel g0 e s1s s2s) = true /\
      ptrue (snd (choose dist dlt outlier maxd rel g0 e s1s s2s)) /\
      In (snd (choose dist dlt outlier maxd rel g0 e s1s s2s)) (pairs s1s s2s).
Proof. exact (@choose_correct). Qed.
Print Assumptions C09_choose_sufficient_partial.

(* ---- _angles_to_poses for one sample: IF for every other station of the sample the choice against the voted position
        succeeds with true poses, THEN the sample is kept, every pose stored is a true one, and the stored stations are
        exactly the sample's stations (none when the sample has a single station). *)
Theorem C09_angles_to_poses_sufficient_partial :
  forall (P D G : Type) (dist : P -> P -> D) (dlt : D -> D -> bool) (radius outlier maxd : D) (mean : list P -> P)
         (rel : G -> G -> P) (g0 : G) (gtrue : Z -> G -> Prop) (ss : list (@dsample G)) (s : @dsample G) first others,
    sort_ids (keys s) = first :: others ->
    (forall o, In o others -> pair_ok dist dlt radius outlier maxd mean rel g0 gtrue ss s first o) ->
    exists res, a2p_sample dist dlt radius outlier maxd mean rel g0 ss s = Some res /\
      (forall k g, In (k, g) res -> gtrue k g) /\
      (forall k, In k (keys res) <-> (others <> [] /\ In k (keys s))).
Proof. exact (@a2p_sample_correct). Qed.
Print Assumptions C09_angles_to_poses_sufficient_partial.

(* ---- traversal: together with C09_linkage_decision_partial (every station reachable through shared samples gets a
        pose, unlinkable systems take the error path) each station gets its pose exactly once *)
Theorem C09_linkage_exactly_once_partial :
  forall (G : Type) (op : G -> G -> G) (inv : G -> G) (avg : list G -> G) (choose : list Z -> Z),
    (forall l, l <> [] -> In (choose l) l) ->
    forall (ss : list (@psample G)) (bp0 bp : list (Z * G)),
      NoDup (keys bp0) -> estimate_remaining op inv avg choose ss bp0 = LOk bp -> NoDup (keys bp).
Proof. exact (@estimate_remaining_nodup). Qed.
Print Assumptions C09_linkage_exactly_once_partial.

(* ---- the premise fails, and the vote picks a wrong bucket, on: F09b (polluted bucket), F09e (two mirror families
        coincide, two votes per sample, the unmixed true bucket loses), near-coincident stations (one bucket) *)
Theorem C09_vote_premise_fails_F09b_refuted :
  premise_fails cfg_f09b 0 0 /\ vote near80 cfg_f09b = [0; 30; 0; 45; 0; 20].
Proof. exact f09b_config. Qed.
Print Assumptions C09_vote_premise_fails_F09b_refuted.

Theorem C09_vote_premise_fails_F09e_refuted :
  premise_fails cfg_f09e 0 0 /\ vote near80 cfg_f09e = [200; 210; 195; 205; 204; 199] /\
  bucket_of near80 [0; 200; 210; 410] (concat cfg_f09e) 0 = [0; 0; 0].
Proof. exact f09e_config. Qed.
Print Assumptions C09_vote_premise_fails_F09e_refuted.

Theorem C09_vote_premise_fails_near_coincident_refuted :
  premise_fails cfg_coincident 20 0 /\ vote near80 cfg_coincident = [20; 12; -15; -23; 20; 9; -22; -33].
Proof. exact coincident_config. Qed.
Print Assumptions C09_vote_premise_fails_near_coincident_refuted.

(* ---- Wave 11: LighthouseBsVectors.projection_pair_list / angle_list are functions of the CURRENT contents of the
        container (a Python list): after ANY sequence of in-place updates (item / slice assignment, clear + extend,
        append, pop, reverse) and earlier reads, the k-th read returns angle_list of the contents at that moment, and
        reads change nothing. *)
Theorem C09_container_reads_are_pure :
  forall (ops : list cop) (l : list bsvec),
    (forall pre k, nth_error (reads ops l) k = Some pre ->
       exists before after, ops = before ++ CRead :: after /\ pre = angle_list (contents before l) /\
                            length (filter is_read before) = k) /\
    last (reads (ops ++ [CRead]) l) [] = angle_list (contents ops l) /\
    contents ops l = contents (filter (fun o => negb (is_read o)) ops) l.
Proof. exact container_reads_are_pure. Qed.
Print Assumptions C09_container_reads_are_pure.

(* refuted for a container that keeps the array of an earlier read while the NUMBER of vectors is unchanged *)
Theorem C09_length_keyed_cache_refuted :
  exists (ops : list cop) (l : list bsvec),
    last (cached_reads (ops ++ [CRead]) l None) [] <> angle_list (contents ops l) /\
    last (reads (ops ++ [CRead]) l) [] = angle_list (contents ops l).
Proof. exact length_keyed_cache_refuted. Qed.
Print Assumptions C09_length_keyed_cache_refuted.

(* ---- Wave 12: the code of /repo has NO count threshold on station pairs: a pair seen together in at least one sample
        always gets a non-empty winning bucket, hence a voted position (for any accept test that accepts a candidate
        against itself); together with C09_angles_to_poses_sufficient_partial, which holds for any number of samples,
        no error-free sample is dropped under the premises. *)
Theorem C09_every_seen_pair_voted_partial :
  forall (P : Type) (near : P -> P -> bool) (refs : list P) (rest : list (list P)),
    (forall p, near p p = true) -> refs <> [] -> vote near (refs :: rest) <> [].
Proof. exact (@vote_nonempty). Qed.
Print Assumptions C09_every_seen_pair_voted_partial.

(* refuted for a variant that trusts a pair only when it is seen in >= ceil(0.05 n) samples, at n = 21 (threshold 2):
   21 error-free samples, stations 1 and 2 together only in the FIRST one; /repo's logic keeps all 21 samples and stores
   the true poses for the first; the variant drops exactly the first sample (the reference frame) and nothing else;
   with threshold 1 (n <= 20) the variant coincides with /repo's logic on this input *)
Theorem C09_pair_count_threshold_refuted :
  length cfg_sparse = 21%nat /\
  forallb is_some (decide dist_cm Z.ltb 80 50 10000000 mean_cm (fun a b => b - a) 0 cfg_sparse) = true /\
  nth 0 (decide dist_cm Z.ltb 80 50 10000000 mean_cm (fun a b => b - a) 0 cfg_sparse) None
    = Some [(1, 0); (2, 200)] /\
  nth 0 (decide_thr dist_cm Z.ltb 80 50 10000000 mean_cm (fun a b => b - a) 0 2 cfg_sparse) None = None /\
  forallb is_some (tl (decide_thr dist_cm Z.ltb 80 50 10000000 mean_cm (fun a b => b - a) 0 2 cfg_sparse)) = true.
Proof. exact pair_threshold_refuted. Qed.
Print Assumptions C09_pair_count_threshold_refuted.

(* ---- Wave 15: "any base-station ids".  The per-pair aggregates (position_permutations, bs_positions) are keyed by the
        PAIR; ids are unbounded integers.  (1) In the estimator model the candidate lists voted on for (i, j) are exactly
        those of the samples that see both i and j -- nothing of another pair, for any ids.  (2) Any injective key gives
        every pair exactly its own entries.  (3) Refuted for the packed key (bs1 << 4) | bs2: (2, 19) and (3, 19) both
        map to 51 and their entries are pooled. *)
Theorem C09_pair_lists_are_own_partial :
  forall (P G : Type) (rel : G -> G -> P) (ss : list (@dsample G)) (i j : Z) (cl : list P),
    In cl (pair_lists rel ss i j) <->
    exists s, In s ss /\ In i (keys s) /\ In j (keys s) /\ cl = cands rel s i j.
Proof. exact (@pair_lists_own). Qed.
Print Assumptions C09_pair_lists_are_own_partial.

Theorem C09_pair_aggregates_do_not_mix_partial :
  forall (K V : Type) (key : pair_id -> K) (keq : K -> K -> bool),
    (forall a b, keq a b = true <-> a = b) -> (forall p q, key p = key q -> p = q) ->
    forall (entries : list (pair_id * V)) (p : pair_id), aggregate key keq entries p = own entries p.
Proof. exact (@aggregate_injective). Qed.
Print Assumptions C09_pair_aggregates_do_not_mix_partial.

Theorem C09_packed_pair_key_refuted :
  key16 (2, 19) = 51 /\ key16 (3, 19) = 51 /\ (2, 19) <> (3, 19) /\
  exists entries : list (pair_id * Z),
    aggregate key16 Z.eqb entries (2, 19) <> own entries (2, 19) /\
    aggregate key16 Z.eqb entries (3, 19) <> own entries (3, 19) /\
    aggregate (fun q => q) pair_eqb entries (2, 19) = own entries (2, 19).
Proof. exact key16_refuted. Qed.
Print Assumptions C09_packed_pair_key_refuted.
