(* C09/Proofs_est.v — the bookkeeping of LighthouseInitialEstimator.estimate after _angles_to_poses:
   reference choice, outcome classification, exactness of all poses for consistent data. *)
From CF Require Import Common.Bytes C09.Model C09.Proofs_matcher C09.Proofs_link.
From Coq Require Import ZifyBool.
Open Scope Z_scope.

Section EstProofs.
  Context {G : Type}.
  Variable op : G -> G -> G.
  Variable inv : G -> G.
  Variable avg : list G -> G.
  Variable choose : list Z -> Z.
  Hypothesis choose_ok : forall l, l <> [] -> In (choose l) l.

  Notation psample := (@psample G).
  Notation estimate_remaining := (estimate_remaining op inv avg choose).
  Notation estimate_tail := (estimate_tail op inv avg choose).
  Notation estimate_cf_pose := (estimate_cf_pose op inv avg).
  Implicit Types (ss : list psample) (s : psample) (bp : list (Z * G)).

  Lemma first_entry_none ss : first_entry ss = None <-> Forall (fun s => s = []) ss.
  Proof.
    induction ss as [|[|e s] ss IH]; cbn [first_entry].
    - split; [constructor | reflexivity].
    - rewrite IH. split; [intros H; constructor; [reflexivity | exact H] | intros H; inversion H; assumption].
    - split; [discriminate | intros H; inversion H; discriminate].
  Qed.

  Lemma first_entry_in ss r p : first_entry ss = Some (r, p) -> exists s, In s ss /\ In (r, p) s.
  Proof.
    induction ss as [|[|e s] ss IH]; cbn [first_entry]; [discriminate| |].
    - intros H. destruct (IH H) as (s & Hs & Hin). exists s. split; [right; exact Hs | exact Hin].
    - intros H. injection H as ->. exists ((r, p) :: s). split; left; reflexivity.
  Qed.

  Lemma all_some_none {X} (l : list (option X)) : all_some l = None <-> In None l.
  Proof.
    induction l as [|[x|] l IH]; cbn [all_some In].
    - split; [discriminate | tauto].
    - destruct (all_some l).
      + split; [discriminate|]. intros [H|H]; [discriminate|]. apply IH in H. discriminate.
      + split; [intros _; right; apply IH; reflexivity | reflexivity].
    - split; [intros _; left; reflexivity | reflexivity].
  Qed.

  Lemma estimate_cf_pose_none bp s : (forall b, In b (keys s) -> In b (keys bp)) ->
    (estimate_cf_pose bp s = None <-> s = []).
  Proof.
    intros Hk. unfold estimate_cf_pose. destruct s as [|e0 s']; [tauto|].
    destruct (all_some _) eqn:E; [split; discriminate|]. exfalso.
    apply all_some_none, in_map_iff in E as ([b p] & E & Hin). cbn [fst snd] in E.
    assert (Hb : In b (keys bp)) by (apply Hk; apply (in_keys b p); exact Hin).
    apply dict_get_in_keys in Hb as [g Hg]. rewrite Hg in E. discriminate.
  Qed.

  (* ---- outcome of `estimate` on the per-sample dicts *)
  Lemma estimate_outcome ss :
    match first_entry ss with
    | None => estimate_tail ss = ENoReference
    | Some (r, _) =>
        In r (concat (map keys ss)) /\
        (estimate_tail ss = ECannotLink <-> exists b, In b (concat (map keys ss)) /\ ~ linked ss [r] b) /\
        ((forall b, In b (concat (map keys ss)) -> linked ss [r] b) ->
           (In [] ss -> estimate_tail ss = ECrash) /\
           (~ In [] ss -> exists bp cfs, estimate_tail ss = EOk bp cfs /\
                (forall b, In b (keys bp) <-> In b (concat (map keys ss))) /\ length cfs = length ss)) /\
        estimate_tail ss <> EFuel /\ estimate_tail ss <> ENoReference
    end.
  Proof.
    unfold estimate_tail. destruct (first_entry ss) as [[r p]|] eqn:Ef; [|reflexivity].
    destruct (first_entry_in ss r p Ef) as (s0 & Hs0 & Hrp).
    assert (Hr : In r (concat (map keys ss))).
    { apply in_concat. exists (keys s0). split; [apply in_map, Hs0 | apply (in_keys r p), Hrp]. }
    destruct (linkage_decision op inv avg choose choose_ok ss [(r, p)]) as (HR & HOk & HF).
    change (keys [(r, p)]) with [r] in *.
    split; [exact Hr|]. split; [|split; [|split]].
    - rewrite <- HR. destruct (estimate_remaining ss [(r, p)]) as [bp| |]; [|tauto|].
      + destruct (all_some _); split; discriminate.
      + split; discriminate.
    - intros Hall. destruct (estimate_remaining ss [(r, p)]) as [bp| |] eqn:E.
      + destruct (HOk bp eq_refl) as [H1 H2].
        assert (Hk : forall s, In s ss -> forall b, In b (keys s) -> In b (keys bp)).
        { intros s Hs b Hb. apply H2, in_concat. exists (keys s). split; [apply in_map, Hs | exact Hb]. }
        split.
        * intros Hnil. destruct (all_some _) eqn:Ea; [|reflexivity]. exfalso.
          assert (Hn : In None (map (estimate_cf_pose bp) ss)).
          { apply in_map_iff. exists []. split; [reflexivity | exact Hnil]. }
          apply all_some_none in Hn. congruence.
        * intros Hnn. destruct (all_some _) as [cfs|] eqn:Ea.
          -- exists bp, cfs. split; [reflexivity|]. split.
             ++ intros b. rewrite H1. split; [|apply Hall]. intros Hl.
                destruct (linked_in_scope _ _ _ Hl) as [[<-|[]]|Hs]; [exact Hr|].
                unfold all_bs in Hs. rewrite first_occ_in in Hs. exact Hs.
             ++ apply all_some_length in Ea. rewrite map_length in Ea. exact Ea.
          -- exfalso. apply all_some_none, in_map_iff in Ea as (s & Es & Hs).
             apply (estimate_cf_pose_none bp s (Hk s Hs)) in Es. subst s. apply Hnn, Hs.
      + exfalso. destruct (proj1 HR eq_refl) as (b & Hb & Hn). apply Hn, Hall, Hb.
      + congruence.
    - destruct (estimate_remaining ss [(r, p)]) as [bp| |]; [destruct (all_some _); discriminate | discriminate | congruence].
    - destruct (estimate_remaining ss [(r, p)]) as [bp| |]; [destruct (all_some _); discriminate | discriminate | discriminate].
  Qed.

  (* ---- exactness: with per-sample station poses that are the truth seen from the Crazyflie, every pose
          returned is the truth expressed in the frame of the Crazyflie of the first non-empty sample *)
  Section Exact.
    Variable e : G.
    Hypothesis op_assoc : forall x y z, op x (op y z) = op (op x y) z.
    Hypothesis op_e_l : forall x, op e x = x.
    Hypothesis op_e_r : forall x, op x e = x.
    Hypothesis inv_l : forall x, op (inv x) x = e.
    Hypothesis inv_r : forall x, op x (inv x) = e.
    Hypothesis avg_const : forall g l, l <> [] -> Forall (fun p => p = g) l -> avg l = g.
    Variable BS : Z -> G.

    Fixpoint ref_cf (Cs : list G) (ss : list psample) : option G :=
      match Cs, ss with
      | _ :: Cs', [] :: ss' => ref_cf Cs' ss'
      | C :: _, (_ :: _) :: _ => Some C
      | _, _ => None
      end.

    Lemma ref_cf_first_entry Cs ss r p :
      Forall2 (sample_at op inv BS) Cs ss -> first_entry ss = Some (r, p) ->
      exists REF, ref_cf Cs ss = Some REF /\ p = op (inv REF) (BS r).
    Proof.
      intros HF. induction HF as [|C s Cs ss Hs HF IH]; cbn [first_entry ref_cf]; [discriminate|].
      destruct s as [|e0 s']; [exact IH|]. intros H. injection H as ->. exists C. split; [reflexivity|].
      apply Hs. left. reflexivity.
    Qed.

    Lemma cf_poses_exact REF bp Cs ss cfs :
      exact op inv BS REF bp -> Forall2 (sample_at op inv BS) Cs ss ->
      all_some (map (estimate_cf_pose bp) ss) = Some cfs -> cfs = map (fun C => op (inv REF) C) Cs.
    Proof.
      intros Hb HF. revert cfs. induction HF as [|C s Cs ss Hs HF IH]; intros cfs E; cbn [map all_some] in E.
      - injection E as <-. reflexivity.
      - destruct (estimate_cf_pose bp s) as [g|] eqn:Eg; [|discriminate].
        destruct (all_some _) as [r|]; [|discriminate]. injection E as <-. cbn [map]. f_equal.
        + apply (estimate_cf_pose_exact op inv avg e op_assoc op_e_l op_e_r inv_l inv_r avg_const BS REF bp s C g Hb Hs Eg).
        + apply IH. reflexivity.
    Qed.

    Lemma estimate_exact Cs ss bp cfs :
      Forall2 (sample_at op inv BS) Cs ss -> estimate_tail ss = EOk bp cfs ->
      exists REF, ref_cf Cs ss = Some REF /\
        (forall b p, In (b, p) bp -> p = op (inv REF) (BS b)) /\
        cfs = map (fun C => op (inv REF) C) Cs.
    Proof.
      intros HF. unfold estimate_tail. destruct (first_entry ss) as [[r p]|] eqn:Ef; [|discriminate].
      intros Hest. revert Hest.
      destruct (ref_cf_first_entry Cs ss r p HF Ef) as (REF & HR & Hp). destruct (estimate_remaining ss [(r, p)]) as [bp'| |] eqn:E; [|discriminate|discriminate].
      destruct (all_some _) as [cfs'|] eqn:Ea; [|discriminate]. intros Hinj. injection Hinj as <- <-. exists REF. split; [exact HR|].
      assert (Hss : forall s, In s ss -> exists C, sample_at op inv BS C s).
      { intros s Hs. clear -HF Hs. induction HF as [|C s1 Cs ss Hsa HF IH]; [destruct Hs|].
        destruct Hs as [<-|Hs]; [exists C; exact Hsa | apply IH, Hs]. }
      assert (H0 : exact op inv BS REF [(r, p)]).
      { intros b q [H|[]]. injection H as <- <-. exact Hp. }
      assert (Hb := estimate_remaining_exact op inv avg choose e op_assoc op_e_l op_e_r inv_l inv_r avg_const
                      BS REF ss [(r, p)] bp' Hss H0 E).
      split; [exact Hb|]. apply (cf_poses_exact REF bp' Cs ss cfs' Hb HF Ea).
    Qed.
  End Exact.
End EstProofs.

(* ---- _angles_to_poses bookkeeping: the reference station is the smallest id of the first sample with >= 2 stations *)
Lemma insert_sorted_in x y l : In y (insert_sorted x l) <-> y = x \/ In y l.
Proof.
  induction l as [|z l IH]; cbn [insert_sorted In]; [intuition|].
  destruct (x <=? z); cbn [In]; [intuition|]. rewrite IH. intuition.
Qed.

Lemma sort_ids_in y l : In y (sort_ids l) <-> In y l.
Proof.
  induction l as [|x l IH]; cbn [sort_ids fold_right In]; [tauto|].
  fold (sort_ids l). rewrite insert_sorted_in, IH. intuition.
Qed.

Lemma insert_sorted_length x l : length (insert_sorted x l) = S (length l).
Proof. induction l as [|z l IH]; cbn [insert_sorted length]; [reflexivity|]. destruct (x <=? z); cbn [length]; lia. Qed.

Lemma sort_ids_length l : length (sort_ids l) = length l.
Proof.
  induction l as [|x l IH]; [reflexivity|]. cbn [sort_ids fold_right]. fold (sort_ids l).
  rewrite insert_sorted_length, IH. reflexivity.
Qed.

Definition head_le_all (l : list Z) : Prop :=
  match l with [] => True | h :: tl => forall y, In y tl -> h <= y end.

Fixpoint sortedZ (l : list Z) : Prop :=
  match l with [] => True | h :: tl => (forall y, In y tl -> h <= y) /\ sortedZ tl end.

Lemma insert_sorted_sorted x l : sortedZ l -> sortedZ (insert_sorted x l).
Proof.
  induction l as [|z l IH]; cbn [insert_sorted sortedZ]; [intros _; split; [intros y []|exact I]|].
  intros [Hz Hs]. destruct (x <=? z) eqn:E.
  - cbn [sortedZ]. split; [|split; assumption]. intros y [<-|Hy]; [lia|]. specialize (Hz y Hy). lia.
  - cbn [sortedZ]. split; [|apply IH, Hs]. intros y Hy. apply insert_sorted_in in Hy as [->|Hy]; [lia | apply Hz, Hy].
Qed.

Lemma sort_ids_sorted l : sortedZ (sort_ids l).
Proof.
  induction l as [|x l IH]; [exact I|]. cbn [sort_ids fold_right]. fold (sort_ids l).
  apply insert_sorted_sorted, IH.
Qed.

Lemma angles_to_poses_keys_spec ids :
  (length ids < 2)%nat /\ angles_to_poses_keys ids = [] \/
  (2 <= length ids)%nat /\ angles_to_poses_keys ids = sort_ids ids /\
    exists r rest, angles_to_poses_keys ids = r :: rest /\ In r ids /\ forall y, In y ids -> r <= y.
Proof.
  unfold angles_to_poses_keys. assert (HL := sort_ids_length ids). assert (HS := sort_ids_sorted ids).
  assert (HI := fun y => sort_ids_in y ids).
  destruct (sort_ids ids) as [|r [|r2 rest]] eqn:E; cbn [length] in HL.
  - left. split; [lia | reflexivity].
  - left. split; [lia | reflexivity].
  - right. split; [lia|]. split; [reflexivity|]. exists r, (r2 :: rest). split; [reflexivity|].
    split; [apply HI; left; reflexivity|]. intros y Hy. apply HI in Hy. destruct Hy as [<-|Hy]; [lia|].
    cbn [sortedZ] in HS. apply (proj1 HS), Hy.
Qed.
