(* C09/Proofs_container.v — reads are functions of the current contents; a length-keyed cache is not. *)
From CF Require Import Common.Bytes C09.Container.
Open Scope Z_scope.

Definition is_read (o : cop) : bool := match o with CRead => true | _ => false end.

Lemma contents_ignores_reads ops : forall l,
  contents ops l = contents (filter (fun o => negb (is_read o)) ops) l.
Proof.
  induction ops as [|o ops IH]; intros l; [reflexivity|].
  destruct o; cbn [filter is_read negb]; unfold contents in *; cbn [fold_left apply_op]; apply IH.
Qed.

(* every read returns angle_list of the contents produced by the updates before it *)
Lemma reads_pure ops : forall l pre k,
  nth_error (reads ops l) k = Some pre ->
  exists before after, ops = before ++ CRead :: after /\ pre = angle_list (contents before l) /\
                       length (filter is_read before) = k.
Proof.
  induction ops as [|o ops IH]; intros l pre k H; [destruct k; discriminate|].
  destruct o.
  - cbn [reads] in H. destruct k as [|k].
    + cbn [nth_error] in H. injection H as <-. exists [], ops. repeat split.
    + cbn [nth_error] in H. destruct (IH l pre k H) as (b & a & E & Hp & Hk).
      exists (CRead :: b), a. subst ops. split; [reflexivity|]. split; [exact Hp|]. cbn [filter is_read length]. lia.
  - cbn [reads] in H. destruct (IH _ pre k H) as (b & a & E & Hp & Hk).
    exists (CItem i v :: b), a. subst ops. repeat split; assumption.
  - cbn [reads] in H. destruct (IH _ pre k H) as (b & a & E & Hp & Hk).
    exists (CSlice l0 :: b), a. subst ops. repeat split; assumption.
  - cbn [reads] in H. destruct (IH _ pre k H) as (b & a & E & Hp & Hk).
    exists (CClearExtend l0 :: b), a. subst ops. repeat split; assumption.
  - cbn [reads] in H. destruct (IH _ pre k H) as (b & a & E & Hp & Hk).
    exists (CAppend v :: b), a. subst ops. repeat split; assumption.
  - cbn [reads] in H. destruct (IH _ pre k H) as (b & a & E & Hp & Hk).
    exists (CPop :: b), a. subst ops. repeat split; assumption.
  - cbn [reads] in H. destruct (IH _ pre k H) as (b & a & E & Hp & Hk).
    exists (CReverse :: b), a. subst ops. repeat split; assumption.
Qed.

Lemma final_read_pure ops l : reads (ops ++ [CRead]) l <> [] /\
  last (reads (ops ++ [CRead]) l) [] = angle_list (contents ops l).
Proof.
  revert l. induction ops as [|o ops IH]; intros l.
  - split; [discriminate | reflexivity].
  - destruct (IH (apply_op o l)) as [Hne Hl]. destruct o; cbn [app reads];
      try (split; [exact Hne | exact Hl]).
    cbn [apply_op] in *. split; [discriminate|].
    destruct (reads (ops ++ [CRead]) l) eqn:E; [congruence|]. exact Hl.
Qed.

Lemma container_reads_are_pure (ops : list cop) (l : list bsvec) :
    (forall pre k, nth_error (reads ops l) k = Some pre ->
       exists before after, ops = before ++ CRead :: after /\ pre = angle_list (contents before l) /\
                            length (filter is_read before) = k) /\
    last (reads (ops ++ [CRead]) l) [] = angle_list (contents ops l) /\
    contents ops l = contents (filter (fun o => negb (is_read o)) ops) l.
Proof.
  split; [intros pre k; apply reads_pure|]. split; [apply final_read_pure | apply contents_ignores_reads].
Qed.

(* the length-keyed cache: read (primes the cache), replace one vector in place, read again *)
Lemma length_keyed_cache_refuted :
  exists (ops : list cop) (l : list bsvec),
    last (cached_reads (ops ++ [CRead]) l None) [] <> angle_list (contents ops l) /\
    last (reads (ops ++ [CRead]) l) [] = angle_list (contents ops l).
Proof. exists [CRead; CItem 0 (5, 6)], [(1, 2)]. split; [cbn; discriminate | reflexivity]. Qed.
