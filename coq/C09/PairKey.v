(* C09/PairKey.v — per-pair aggregation through a key function (definitions only).
   /repo keys position_permutations / bs_positions by the pair itself (the BsPairIds tuple: an injective key);
   [key16] is the packed key (bs1 << 4) | bs2 = bs1 * 16 + bs2 (for bs2 < 16 they agree; the refutation uses the sum,
   which equals the bit-or on the witness). *)
From CF Require Import Common.Bytes.
Open Scope Z_scope.

Definition pair_id : Type := (Z * Z)%type.

Section Keyed.
  Context {K V : Type}.
  Variable key : pair_id -> K.
  Variable keq : K -> K -> bool.

  (* dict[key(pair)].append(v) over all entries, read back at key(p) *)
  Definition aggregate (entries : list (pair_id * V)) (p : pair_id) : list V :=
    map snd (filter (fun e => keq (key (fst e)) (key p)) entries).
End Keyed.

Definition pair_eqb (a b : pair_id) : bool := (fst a =? fst b) && (snd a =? snd b).
(* what belongs to pair p *)
Definition own {V} (entries : list (pair_id * V)) (p : pair_id) : list V :=
  map snd (filter (fun e => pair_eqb (fst e) p) entries).

Definition key16 (p : pair_id) : Z := Z.lor (Z.shiftl (fst p) 4) (snd p).
