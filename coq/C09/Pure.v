(* C09/Pure.v — "the result of a call is a function of its arguments", also when two calls overlap in time.
   Definitions only.  A call is a list of steps; a step maps (local state of the call, state shared by all calls) to
   new ones.  Two calls run under an arbitrary schedule of their steps (threads: a step = the code between two
   hand-over points).  The estimator is modelled by its two passes over the samples:
     pass 1  _find_solutions   : IPPE for every sample + vote            m := find i
     pass 2  _angles_to_poses .. _estimate_cf_poses                      r := pick i m
   once with m kept in a local variable (the code of /repo: everything is recomputed from the arguments), once with m
   parked in a cell shared by all calls (a class attribute written by pass 1 and read by pass 2). *)
From CF Require Import Common.Bytes.

Section Interleave.
  Context {L S : Type}.
  Definition step : Type := L -> S -> L * S.

  Fixpoint run_alone (p : list step) (l : L) (s : S) : L * S :=
    match p with
    | [] => (l, s)
    | st :: p' => let '(l', s') := st l s in run_alone p' l' s'
    end.

  (* schedule: true = call 1 makes its next step, false = call 2; a finished call's turn is skipped; when the schedule
     is used up call 1 runs to its end, then call 2 *)
  Fixpoint run_both (sched : list bool) (p1 p2 : list step) (l1 l2 : L) (s : S) : L * L * S :=
    match sched with
    | [] => let '(l1', s1) := run_alone p1 l1 s in
            let '(l2', s2) := run_alone p2 l2 s1 in (l1', l2', s2)
    | true :: sched' =>
        match p1 with
        | st :: p1' => let '(l1', s') := st l1 s in run_both sched' p1' p2 l1' l2 s'
        | [] => run_both sched' p1 p2 l1 l2 s
        end
    | false :: sched' =>
        match p2 with
        | st :: p2' => let '(l2', s') := st l2 s in run_both sched' p1 p2' l1 l2' s'
        | [] => run_both sched' p1 p2 l1 l2 s
        end
    end.

  (* a step that neither reads nor writes the shared state *)
  Definition local_only (st : step) : Prop := exists f, forall l s, st l s = (f l, s).
End Interleave.

Section Estimator.
  Context {I M R : Type}.
  Variable find : I -> M.
  Variable pick : I -> M -> R.

  Definition elocal : Type := (I * option M * option R)%type.
  Definition start (i : I) : elocal := (i, None, None).
  Definition result (l : elocal) : option R := snd l.

  (* /repo: the intermediate lives in the call *)
  Definition pure_pass1 {S} : @step elocal S := fun l s => let '(i, _, r) := l in ((i, Some (find i), r), s).
  Definition pure_pass2 {S} : @step elocal S :=
    fun l s => let '(i, m, r) := l in
               ((i, m, match m with Some m' => Some (pick i m') | None => r end), s).
  Definition pure_estimate {S} : list (@step elocal S) := [pure_pass1; pure_pass2].

  (* shared scratch cell: pass 1 writes it, pass 2 reads it *)
  Definition cell_pass1 : @step elocal (option M) := fun l _ => let '(i, _, _) := l in (l, Some (find i)).
  Definition cell_pass2 : @step elocal (option M) :=
    fun l s => let '(i, m, r) := l in
               ((i, m, match s with Some m' => Some (pick i m') | None => r end), s).
  Definition cell_estimate : list (@step elocal (option M)) := [cell_pass1; cell_pass2].
End Estimator.
