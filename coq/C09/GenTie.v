(* C09/GenTie.v — the Gallina generated from lighthouse_sample_matcher.py (Gen_Matcher.v) never takes the
   exception branch and computes exactly the hand model the theorems are about. *)
From CF Require Import Common.Bytes C09.Model C09.Gen_Matcher.
Open Scope Z_scope.

Section GenTie.
  Context {T A : Type}.
  Variable late : T -> T -> bool.

  Lemma gen_append_result_eq min_nr (cur : option (@sample T A)) res :
    gen_append_result min_nr cur res = append_result min_nr cur res.
  Proof. destruct cur; reflexivity. Qed.

  Lemma gen_loop_eq min_nr (l : list (@meas T A)) : forall cur res,
    match gen_loop late min_nr cur res l with
    | Some (c, r) => append_result min_nr c r = match_loop late min_nr cur res l
    | None => False
    end.
  Proof.
    induction l as [|m l IH]; intros cur res.
    - cbn [gen_loop match_loop]. reflexivity.
    - cbn [gen_loop match_loop]. unfold gen_step.
      destruct cur as [c|]; cbn [fst snd].
      + destruct (late (fst c) (m_ts m)); cbn [fst snd]; rewrite ?gen_append_result_eq; apply IH.
      + destruct (late (m_ts m) (m_ts m)); cbn [fst snd]; rewrite ?gen_append_result_eq; apply IH.
  Qed.

  Lemma gen_match_eq min_nr (l : list (@meas T A)) :
    gen_match late min_nr l = Some (match_samples late min_nr l).
  Proof.
    unfold gen_match, match_samples. assert (H := gen_loop_eq min_nr l None []).
    destruct (gen_loop late min_nr None [] l) as [[c r]|]; [|destruct H].
    rewrite gen_append_result_eq, H. reflexivity.
  Qed.
End GenTie.
