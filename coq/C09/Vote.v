(* C09/Vote.v — LighthouseInitialEstimator._find_most_likely_positions for ONE station pair
   (_map_positions_to_ref + _find_best_position_bucket), positions abstracted to a type P with the test
   `np.linalg.norm(pos - ref) < accept_radius` as the parameter [near pos ref].  The mean of the winning bucket is
   left symbolic: the function returns the bucket itself (np.mean(bucket, axis=0) is applied by the harness).
   Definitions only; the refutation lemmas (root cause of finding F09b) are in Proofs_vote.v. *)
From CF Require Import Common.Bytes.
Open Scope Z_scope.

Section Vote.
  Context {P : Type}.
  Variable near : P -> P -> bool.

  (* for i, ref in enumerate(bucket_ref_positions): if near pos ref: buckets[i].append(pos); break *)
  Fixpoint first_near (pos : P) (refs : list P) (i : nat) : option nat :=
    match refs with
    | [] => None
    | r :: tl => if near pos r then Some i else first_near pos tl (S i)
    end.

  Definition bucket_of (refs : list P) (all_pos : list P) (i : nat) : list P :=
    filter (fun pos => match first_near pos refs O with Some j => Nat.eqb j i | None => false end) all_pos.

  (* max_len = 0; max_i = 0; for i, bucket: if len(bucket) > max_len: max_len, max_i = len(bucket), i *)
  Fixpoint best_index (lens : list nat) (i max_len max_i : nat) : nat :=
    match lens with
    | [] => max_i
    | n :: tl => if Nat.ltb max_len n then best_index tl (S i) n i else best_index tl (S i) max_len max_i
    end.

  (* position_lists: one list of 4 candidates per sample; the first sample's candidates are the bucket references;
     exactly 4 buckets exist whatever the number of references *)
  Definition vote (position_lists : list (list P)) : list P :=
    match position_lists with
    | [] => []
    | refs :: _ =>
        let all_pos := concat position_lists in
        let buckets := map (bucket_of refs all_pos) [0; 1; 2; 3]%nat in
        nth (best_index (map (@length P) buckets) O O O) buckets []
    end.
End Vote.

(* positions on a line, in centimetres; accept_radius = 0.8 m *)
Definition near_cm (a b : Z) : bool := Z.abs (a - b) <? 80.

