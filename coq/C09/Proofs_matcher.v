(* C09/Proofs_matcher.v — LighthouseSampleMatcher.match: dict lemmas, loop invariant, segmentation. *)
From CF Require Import Common.Bytes C09.Model.
From Coq Require Import ZifyBool.
Open Scope Z_scope.

(* ------------------------------------------------------------------ dict *)
Section DictLemmas.
  Context {V : Type}.
  Implicit Types (d : list (Z * V)).

  Lemma mem_true_iff x l : mem x l = true <-> In x l.
  Proof.
    unfold mem. rewrite existsb_exists. split.
    - intros (y & Hy & E). apply Z.eqb_eq in E. subst. exact Hy.
    - intros H. exists x. split; [exact H | apply Z.eqb_refl].
  Qed.

  Lemma mem_false_iff x l : mem x l = false <-> ~ In x l.
  Proof. rewrite <- mem_true_iff. destruct (mem x l); split; congruence. Qed.

  Lemma mem_cons x y l : mem x (y :: l) = (x =? y) || mem x l.
  Proof. reflexivity. Qed.

  Lemma keys_dict_set k v d :
    keys (dict_set k v d) = if mem k (keys d) then keys d else keys d ++ [k].
  Proof.
    induction d as [|[k' v'] d IH]; [reflexivity|].
    cbn [dict_set]. change (keys ((k', v') :: d)) with (k' :: keys d). rewrite mem_cons.
    destruct (k' =? k) eqn:E.
    - apply Z.eqb_eq in E. subst. rewrite Z.eqb_refl. reflexivity.
    - rewrite Z.eqb_sym, E. cbn [orb]. change (keys ((k', v') :: dict_set k v d)) with (k' :: keys (dict_set k v d)).
      rewrite IH. destruct (mem k (keys d)); reflexivity.
  Qed.

  Lemma dict_get_set_same k v d : dict_get k (dict_set k v d) = Some v.
  Proof.
    induction d as [|[k' v'] d IH]; cbn [dict_set dict_get].
    - rewrite Z.eqb_refl. reflexivity.
    - destruct (k' =? k) eqn:E; cbn [dict_get].
      + rewrite Z.eqb_refl. reflexivity.
      + rewrite E. exact IH.
  Qed.

  Lemma dict_get_set_other k k' v d : k' <> k -> dict_get k' (dict_set k v d) = dict_get k' d.
  Proof.
    intros N. induction d as [|[k2 v2] d IH]; cbn [dict_set dict_get].
    - destruct (k =? k') eqn:E; [apply Z.eqb_eq in E; congruence | reflexivity].
    - destruct (k2 =? k) eqn:E; cbn [dict_get].
      + apply Z.eqb_eq in E. subst k2.
        destruct (k =? k') eqn:E2; [apply Z.eqb_eq in E2; congruence | reflexivity].
      + destruct (k2 =? k'); [reflexivity | exact IH].
  Qed.

  Lemma dict_get_in_keys k d : In k (keys d) <-> exists v, dict_get k d = Some v.
  Proof.
    induction d as [|[k' v'] d IH]; cbn [keys map fst dict_get In].
    - split; [tauto | intros (v & H); discriminate].
    - destruct (k' =? k) eqn:E.
      + apply Z.eqb_eq in E. split; [intros _; eauto | intros _; left; exact E].
      + apply Z.eqb_neq in E. fold (keys d). rewrite <- IH. split; [intros [H|H]; [congruence|exact H] | tauto].
  Qed.
End DictLemmas.

(* ------------------------------------------------------------------ first_occ *)
Definition add_key (acc : list Z) (k : Z) : list Z := if mem k acc then acc else acc ++ [k].

Lemma filter_filter {X} (p q : X -> bool) l : filter p (filter q l) = filter (fun x => q x && p x) l.
Proof.
  induction l as [|x l IH]; cbn [filter]; [reflexivity|].
  destruct (q x); cbn [filter andb]; [destruct (p x)|]; rewrite IH; reflexivity.
Qed.

Lemma filter_ext_in' {X} (p q : X -> bool) l : (forall x, In x l -> p x = q x) -> filter p l = filter q l.
Proof.
  induction l as [|x l IH]; intros H; cbn [filter]; [reflexivity|].
  rewrite (H x (or_introl eq_refl)), IH; [reflexivity|]. intros y Hy. apply H. right. exact Hy.
Qed.

Lemma mem_app x a b : mem x (a ++ b) = mem x a || mem x b.
Proof. unfold mem. apply existsb_app. Qed.

Lemma fold_add_key ks : forall acc,
  fold_left add_key ks acc = acc ++ filter (fun y => negb (mem y acc)) (first_occ ks).
Proof.
  induction ks as [|x ks IH]; intros acc; cbn [fold_left first_occ filter].
  - rewrite app_nil_r. reflexivity.
  - unfold add_key at 2. destruct (mem x acc) eqn:M; cbn [negb].
    + rewrite IH. f_equal. rewrite filter_filter. apply filter_ext_in'. intros y _.
      destruct (y =? x) eqn:E; cbn [negb andb]; [|reflexivity].
      apply Z.eqb_eq in E. subst. rewrite M. reflexivity.
    + rewrite IH, <- app_assoc. cbn [app]. f_equal. f_equal. rewrite filter_filter.
      apply filter_ext_in'. intros y _. rewrite mem_app. cbn [mem existsb]. rewrite orb_false_r.
      rewrite negb_orb, andb_comm. reflexivity.
Qed.

Lemma first_occ_in x l : In x (first_occ l) <-> In x l.
Proof.
  induction l as [|y l IH]; cbn [first_occ In]; [tauto|].
  rewrite filter_In, IH. destruct (Z.eq_dec y x) as [->|N].
  - tauto.
  - split; [tauto|]. intros [H|H]; [tauto|]. right. split; [exact H|].
    apply negb_true_iff, Z.eqb_neq. congruence.
Qed.

Lemma first_occ_nodup l : NoDup (first_occ l).
Proof.
  induction l as [|y l IH]; cbn [first_occ]; constructor.
  - rewrite filter_In. intros [_ H]. rewrite Z.eqb_refl in H. discriminate.
  - apply NoDup_filter. exact IH.
Qed.

(* ------------------------------------------------------------------ matcher *)
Section MatcherProofs.
  Context {T A : Type}.
  Variable late : T -> T -> bool.
  Notation meas := (@meas T A).
  Notation sample := (@sample T A).
  Implicit Types (g l tl x : list meas) (m h : meas) (rest : list (list meas)).

  Lemma dict_of_snoc g m : dict_of (g ++ [m]) = dict_set (m_bs m) (m_ang m) (dict_of g).
  Proof. unfold dict_of. rewrite fold_left_app. reflexivity. Qed.

  Lemma keys_dict_of_fold g : keys (dict_of g) = fold_left add_key (map m_bs g) [].
  Proof.
    induction g as [|m g IH] using rev_ind; [reflexivity|].
    rewrite dict_of_snoc, keys_dict_set, IH, map_app, fold_left_app. reflexivity.
  Qed.

  Lemma keys_dict_of g : keys (dict_of g) = first_occ (map m_bs g).
  Proof.
    rewrite keys_dict_of_fold, fold_add_key. cbn [app].
    rewrite (filter_ext_in' _ (fun _ => true)); [|reflexivity].
    induction (first_occ (map m_bs g)) as [|x l IH]; cbn [filter]; congruence.
  Qed.

  Lemma length_dict_of g : length (dict_of g) = length (first_occ (map m_bs g)).
  Proof. rewrite <- keys_dict_of. unfold keys. rewrite map_length. reflexivity. Qed.

  Lemma dict_get_dict_of k g : dict_get k (dict_of g) = last_ang k g.
  Proof.
    induction g as [|m g IH] using rev_ind; [reflexivity|].
    rewrite dict_of_snoc. unfold last_ang. rewrite rev_app_distr. cbn [rev app find].
    destruct (m_bs m =? k) eqn:E.
    - apply Z.eqb_eq in E. subst k. apply dict_get_set_same.
    - apply Z.eqb_neq in E. rewrite dict_get_set_other by congruence. exact IH.
  Qed.

  (* ---- what one run contributes to the result *)
  Definition emit (min_nr : Z) (gs : list (list meas)) : list sample :=
    somes (map sample_of (filter (enough min_nr) gs)).

  Lemma emit_cons min_nr g gs :
    emit min_nr (g :: gs) = (if enough min_nr g then somes [sample_of g] else []) ++ emit min_nr gs.
  Proof.
    unfold emit. cbn [filter]. destruct (enough min_nr g); [|reflexivity].
    cbn [map somes]. destruct (sample_of g); reflexivity.
  Qed.

  Lemma append_result_group min_nr h tl res :
    append_result min_nr (Some (m_ts h, dict_of (h :: tl))) res
    = res ++ (if enough min_nr (h :: tl) then somes [sample_of (h :: tl)] else []).
  Proof.
    unfold append_result, enough. cbn [snd]. rewrite length_dict_of.
    destruct (_ >=? min_nr); [reflexivity | rewrite app_nil_r; reflexivity].
  Qed.

  Lemma loop_spec min_nr l : forall h tl res,
    match_loop late min_nr (Some (m_ts h, dict_of (h :: tl))) res l
    = res ++ emit min_nr (seg_from late (m_ts h) (h :: tl) l).
  Proof.
    induction l as [|m l IH]; intros h tl res.
    - cbn [match_loop seg_from]. rewrite append_result_group, emit_cons. unfold emit at 1.
      cbn [filter map somes]. rewrite app_nil_r. reflexivity.
    - cbn [match_loop seg_from fst snd]. destruct (late (m_ts h) (m_ts m)) eqn:L.
      + cbn [fst snd]. change (dict_set (m_bs m) (m_ang m) []) with (dict_of [m]).
        rewrite (IH m []), append_result_group, emit_cons, app_assoc. reflexivity.
      + cbn [fst snd]. rewrite <- dict_of_snoc. change ((h :: tl) ++ [m]) with (h :: (tl ++ [m])).
        rewrite IH. reflexivity.
  Qed.

  (* the extra EMPTY sample the code emits in front when the very first measurement is late w.r.t. itself
     (only possible for a negative max_time_diff, or a NaN-free float quirk) and min_nr <= 0 *)
  Definition degenerate_prefix (min_nr : Z) (l : list meas) : list sample :=
    match l with
    | m :: _ => if late (m_ts m) (m_ts m) && (0 >=? min_nr) then [(m_ts m, [])] else []
    | [] => []
    end.

  Lemma match_samples_spec min_nr l :
    match_samples late min_nr l = degenerate_prefix min_nr l ++ emit min_nr (segment late l).
  Proof.
    destruct l as [|m l]; [reflexivity|].
    unfold match_samples. cbn [match_loop fst snd segment degenerate_prefix].
    destruct (late (m_ts m) (m_ts m)) eqn:L; cbn [fst snd andb].
    - change (dict_set (m_bs m) (m_ang m) []) with (dict_of [m]). rewrite (loop_spec min_nr l m []).
      unfold append_result. cbn [snd length Z.of_nat app]. destruct (0 >=? min_nr); reflexivity.
    - change (dict_set (m_bs m) (m_ang m) []) with (dict_of [m]). rewrite (loop_spec min_nr l m []).
      reflexivity.
  Qed.

  (* ---- the greedy split is a segmentation *)
  Lemma seg_from_head l : forall t g, exists pre rest, seg_from late t g l = (g ++ pre) :: rest.
  Proof.
    induction l as [|m l IH]; intros t g; cbn [seg_from].
    - exists [], []. rewrite app_nil_r. reflexivity.
    - destruct (late t (m_ts m)).
      + exists [], (seg_from late (m_ts m) [m] l). rewrite app_nil_r. reflexivity.
      + destruct (IH t (g ++ [m])) as (pre & rest & E). exists (m :: pre), rest.
        rewrite E, <- app_assoc. reflexivity.
  Qed.

  Lemma seg_from_concat l : forall t g, concat (seg_from late t g l) = g ++ l.
  Proof.
    induction l as [|m l IH]; intros t g; cbn [seg_from].
    - cbn [concat]. rewrite app_nil_r. reflexivity.
    - destruct (late t (m_ts m)); [cbn [concat]; rewrite IH; reflexivity|].
      rewrite IH, <- app_assoc. reflexivity.
  Qed.

  Lemma seg_from_groups l : forall h tl, group_ok late (h :: tl) ->
    Forall (group_ok late) (seg_from late (m_ts h) (h :: tl) l).
  Proof.
    induction l as [|m l IH]; intros h tl Hg; cbn [seg_from].
    - constructor; [exact Hg | constructor].
    - destruct (late (m_ts h) (m_ts m)) eqn:L.
      + constructor; [exact Hg|]. apply (IH m []). cbn [group_ok]. constructor.
      + apply (IH h (tl ++ [m])). cbn [group_ok] in *. apply Forall_app. split; [exact Hg|].
        constructor; [exact L | constructor].
  Qed.

  Lemma seg_from_boundaries l : forall h tl, boundaries_ok late (seg_from late (m_ts h) (h :: tl) l).
  Proof.
    induction l as [|m l IH]; intros h tl; cbn [seg_from].
    - cbn [boundaries_ok]. exact I.
    - destruct (late (m_ts h) (m_ts m)) eqn:L.
      + specialize (IH m []). destruct (seg_from_head l (m_ts m) [m]) as (pre & rest & E).
        rewrite E in *. cbn [boundaries_ok app]. split; [exact L | exact IH].
      + apply (IH h (tl ++ [m])).
  Qed.

  Lemma segment_is_segmentation l : segmentation late (segment late l) l.
  Proof.
    destruct l as [|m l]; [repeat split; constructor|].
    unfold segmentation, segment. split; [apply (seg_from_concat l (m_ts m) [m])|]. split.
    - apply (seg_from_groups l m []). cbn [group_ok]. constructor.
    - apply (seg_from_boundaries l m []).
  Qed.

  (* ---- and the only one *)
  Lemma concat_nil_groups (gs : list (list meas)) :
    Forall (group_ok late) gs -> concat gs = [] -> gs = [].
  Proof.
    destruct gs as [|g gs]; [reflexivity|]. intros HF HC. inversion HF as [|? ? Hg _]; subst.
    destruct g; [destruct Hg | discriminate].
  Qed.

  Lemma seg_unique l : forall h tl x rest,
    concat (((h :: tl) ++ x) :: rest) = (h :: tl) ++ l ->
    Forall (group_ok late) (((h :: tl) ++ x) :: rest) ->
    boundaries_ok late (((h :: tl) ++ x) :: rest) ->
    ((h :: tl) ++ x) :: rest = seg_from late (m_ts h) (h :: tl) l.
  Proof.
    induction l as [|m l IH]; intros h tl x rest HC HF HB.
    - cbn [concat] in HC. rewrite <- app_assoc in HC. apply app_inv_head in HC.
      apply app_eq_nil in HC as [-> HC]. inversion HF as [|? ? _ HF']; subst.
      rewrite (concat_nil_groups rest HF' HC), app_nil_r. reflexivity.
    - cbn [concat] in HC. rewrite <- app_assoc in HC. apply app_inv_head in HC.
      inversion HF as [|? ? Hg HF']; subst. cbn [seg_from]. destruct x as [|m' x].
      + cbn [app] in HC. destruct rest as [|g' rest']; [discriminate|].
        inversion HF' as [|? ? Hg' HF'']; subst. destruct g' as [|h' x']; [destruct Hg'|].
        cbn [concat app] in HC. injection HC as -> HC.
        rewrite app_nil_r in *. cbn [boundaries_ok] in HB. destruct HB as [HL HB].
        rewrite HL. f_equal. apply (IH m [] x' rest').
        * cbn [concat app]. rewrite HC. reflexivity.
        * exact HF'.
        * exact HB.
      + cbn [app] in HC. injection HC as -> HC.
        assert (L : late (m_ts h) (m_ts m) = false).
        { cbn [group_ok app] in Hg. rewrite Forall_forall in Hg. apply Hg. apply in_or_app. right. left. reflexivity. }
        rewrite L. specialize (IH h (tl ++ [m]) x rest).
        assert (E : (h :: tl) ++ m :: x = (h :: tl ++ [m]) ++ x).
        { cbn [app]. rewrite <- app_assoc. reflexivity. }
        rewrite E in *. apply IH.
        * cbn [concat]. rewrite <- app_assoc, HC. reflexivity.
        * exact HF.
        * exact HB.
  Qed.

  Lemma segmentation_unique gs l : segmentation late gs l -> gs = segment late l.
  Proof.
    intros (HC & HF & HB). destruct l as [|m l].
    - apply (concat_nil_groups gs HF HC).
    - destruct gs as [|g gs]; [discriminate|]. inversion HF as [|? ? Hg _]; subst.
      destruct g as [|h x]; [destruct Hg|]. cbn [concat app] in HC. injection HC as -> HC.
      unfold segment. apply (seg_unique l m [] x gs).
      + cbn [concat app]. rewrite HC. reflexivity.
      + exact HF.
      + exact HB.
  Qed.

  (* ---- the statement proved in Property.v *)
  Lemma matcher_groups min_nr l :
    (match l with m :: _ => late (m_ts m) (m_ts m) = false | [] => True end) ->
    (exists gs, segmentation late gs l) /\
    (forall gs, segmentation late gs l ->
       match_samples late min_nr l = somes (map sample_of (filter (enough min_nr) gs))).
  Proof.
    intros H0. split; [exists (segment late l); apply segment_is_segmentation|].
    intros gs Hs. rewrite (segmentation_unique gs l Hs), match_samples_spec.
    unfold degenerate_prefix. destruct l as [|m l]; [reflexivity|]. rewrite H0. reflexivity.
  Qed.

  Lemma matcher_sample_content g :
    keys (dict_of g) = first_occ (map m_bs g) /\
    NoDup (keys (dict_of g)) /\
    (forall k, In k (keys (dict_of g)) <-> In k (map m_bs g)) /\
    (forall k, dict_get k (dict_of g) = last_ang k g) /\
    (forall k a, dict_get k (dict_of g) = Some a -> exists m, In m g /\ m_bs m = k /\ m_ang m = a).
  Proof.
    split; [apply keys_dict_of|]. split; [rewrite keys_dict_of; apply first_occ_nodup|].
    split; [intros k; rewrite keys_dict_of; apply first_occ_in|]. split; [intros k; apply dict_get_dict_of|].
    intros k a. rewrite dict_get_dict_of. unfold last_ang.
    destruct (find _ (rev g)) as [m|] eqn:F; [|discriminate]. intros E. injection E as <-.
    apply find_some in F as [Hin Hk]. exists m. rewrite <- in_rev in Hin. apply Z.eqb_eq in Hk. auto.
  Qed.

  Lemma matcher_degenerate min_nr m l : late (m_ts m) (m_ts m) = true ->
    match_samples late min_nr (m :: l)
    = (if 0 >=? min_nr then [(m_ts m, [])] else []) ++ emit min_nr (segment late (m :: l)).
  Proof.
    intros H. rewrite match_samples_spec. unfold degenerate_prefix. rewrite H. reflexivity.
  Qed.
End MatcherProofs.
