(* C09/Proofs_decide.v — sufficient conditions under which the estimator's decision logic (bucket vote, choice of the
   candidate pair, per-sample linking) picks the TRUE candidates, for any number of samples; and three candidate
   configurations on which the premise fails and the vote picks the wrong bucket (F09b, F09e, near-coincident stations). *)
From CF Require Import Common.Bytes C09.Model C09.Vote C09.Decide C09.Proofs_matcher C09.Proofs_link C09.Proofs_est.
From Coq Require Import ZifyBool.
Open Scope Z_scope.

(* ------------------------------------------------------------------ largest bucket, ties as the code breaks them *)
Lemma best_index_le_all (lens : list nat) : forall i ml mi,
  (forall n, In n lens -> (n <= ml)%nat) -> best_index lens i ml mi = mi.
Proof.
  induction lens as [|n tl IH]; intros i ml mi H; [reflexivity|]. cbn [best_index].
  assert (Hn : (n <= ml)%nat) by (apply H; left; reflexivity).
  destruct (Nat.ltb ml n) eqn:E; [apply Nat.ltb_lt in E; lia|].
  apply IH. intros k Hk. apply H. right. exact Hk.
Qed.

(* the FIRST largest bucket wins (the code replaces the best only on a strictly larger one) *)
Lemma best_index_first_max (lens : list nat) : forall i ml mi h m,
  nth_error lens h = Some m -> (ml < m)%nat ->
  (forall j n, nth_error lens j = Some n -> (j < h)%nat -> (n < m)%nat) ->
  (forall j n, nth_error lens j = Some n -> (h < j)%nat -> (n <= m)%nat) ->
  best_index lens i ml mi = (i + h)%nat.
Proof.
  induction lens as [|n tl IH]; intros i ml mi h m Hh Hm Hbefore Hafter.
  - destruct h; discriminate.
  - cbn [best_index]. destruct h as [|k].
    + cbn [nth_error] in Hh. injection Hh as ->. apply Nat.ltb_lt in Hm. rewrite Hm.
      rewrite best_index_le_all; [lia|]. intros n Hn. apply In_nth_error in Hn as [j Hj].
      apply (Hafter (S j) n); [exact Hj | lia].
    + cbn [nth_error] in Hh.
      assert (Hn : (n < m)%nat) by (apply (Hbefore O n); [reflexivity | lia]).
      assert (Hb : forall j n0, nth_error tl j = Some n0 -> (j < k)%nat -> (n0 < m)%nat).
      { intros j n0 Hj Hlt. apply (Hbefore (S j) n0); [exact Hj | lia]. }
      assert (Ha : forall j n0, nth_error tl j = Some n0 -> (k < j)%nat -> (n0 <= m)%nat).
      { intros j n0 Hj Hlt. apply (Hafter (S j) n0); [exact Hj | lia]. }
      destruct (Nat.ltb ml n).
      * rewrite (IH (S i) n i k m Hh Hn Hb Ha). lia.
      * rewrite (IH (S i) ml mi k m Hh Hm Hb Ha). lia.
Qed.

(* whatever the candidates: the winner is at least as large as every bucket *)
Lemma best_index_is_max (lens : list nat) : forall i ml mi,
  let r := best_index lens i ml mi in
  (r = mi /\ forall n, In n lens -> (n <= ml)%nat) \/
  (exists k m, r = (i + k)%nat /\ nth_error lens k = Some m /\ (ml < m)%nat /\ forall n, In n lens -> (n <= m)%nat).
Proof.
  induction lens as [|n tl IH]; intros i ml mi; cbn [best_index].
  - left. split; [reflexivity | intros n []].
  - destruct (Nat.ltb ml n) eqn:E.
    + apply Nat.ltb_lt in E. right. destruct (IH (S i) n i) as [[Hr Hall]|(k & m & Hr & Hk & Hm & Hall)].
      * exists 0%nat, n. split; [lia|]. split; [reflexivity|]. split; [exact E|].
        intros x [<-|Hx]; [lia | apply Hall, Hx].
      * exists (S k), m. split; [lia|]. split; [exact Hk|]. split; [lia|].
        intros x [<-|Hx]; [lia | apply Hall, Hx].
    + apply Nat.ltb_ge in E. destruct (IH (S i) ml mi) as [[Hr Hall]|(k & m & Hr & Hk & Hm & Hall)].
      * left. split; [exact Hr|]. intros x [<-|Hx]; [lia | apply Hall, Hx].
      * right. exists (S k), m. split; [lia|]. split; [exact Hk|]. split; [exact Hm|].
        intros x [<-|Hx]; [lia | apply Hall, Hx].
Qed.

(* ------------------------------------------------------------------ the vote *)
Section VoteCorrect.
  Context {P : Type}.
  Variable near : P -> P -> bool.
  Variable mean : list P -> P.
  Variable istrue : P -> Prop.          (* "within eps of the true relative station position" *)
  Hypothesis istrue_dec : forall p, istrue p \/ ~ istrue p.
  (* contract of the averaging kernel: the eps-ball is convex *)
  Hypothesis mean_contract : forall l, l <> [] -> Forall istrue l -> istrue (mean l).

  Lemma vote_correct (refs : list P) (rest : list (list P)) (h : nat) :
    let pls := refs :: rest in
    let all := concat pls in
    (h < 4)%nat ->
    (* the true candidates of all samples fall into one bucket, number h *)
    (forall c, In c all -> istrue c -> first_near near c refs O = Some h) ->
    (exists c, In c all /\ istrue c) ->
    (* counting premise, ties as the code breaks them (first largest bucket wins): a bucket that holds a non-true
       candidate is not bucket h, is strictly smaller than bucket h when it comes before it, not larger when after *)
    (forall i, (i < 4)%nat -> (exists c, In c (bucket_of near refs all i) /\ ~ istrue c) ->
               ((i < h)%nat /\ (length (bucket_of near refs all i) < length (bucket_of near refs all h))%nat) \/
               ((h < i)%nat /\ (length (bucket_of near refs all i) <= length (bucket_of near refs all h))%nat)) ->
    vote near pls = bucket_of near refs all h /\ Forall istrue (vote near pls) /\ istrue (mean (vote near pls)).
  Proof.
    intros pls all Hh Hhome [c0 [Hc0 Tc0]] Hcount.
    assert (Hne : bucket_of near refs all h <> []).
    { intros E. assert (Hin : In c0 (bucket_of near refs all h)).
      { unfold bucket_of. apply filter_In. split; [exact Hc0|]. rewrite (Hhome c0 Hc0 Tc0). apply Nat.eqb_refl. }
      rewrite E in Hin. destruct Hin. }
    assert (Hpure : Forall istrue (bucket_of near refs all h)).
    { apply Forall_forall. intros c Hc. destruct (istrue_dec c) as [T|N]; [exact T|]. exfalso.
      destruct (Hcount h Hh (ex_intro _ c (conj Hc N))) as [[H _]|[H _]]; lia. }
    assert (Hother : forall j, (j < 4)%nat -> j <> h ->
              ((j < h)%nat -> (length (bucket_of near refs all j) < length (bucket_of near refs all h))%nat) /\
              ((h < j)%nat -> (length (bucket_of near refs all j) <= length (bucket_of near refs all h))%nat)).
    { intros j Hj Hne'. destruct (bucket_of near refs all j) as [|c tl] eqn:E.
      - destruct (bucket_of near refs all h); [congruence | cbn [length]; split; lia].
      - rewrite <- E. assert (Hx : exists c, In c (bucket_of near refs all j) /\ ~ istrue c).
        { exists c. split; [rewrite E; left; reflexivity|].
          intros T. assert (Hin : In c (bucket_of near refs all j)) by (rewrite E; left; reflexivity).
          unfold bucket_of in Hin. apply filter_In in Hin as [Hin Hf]. rewrite (Hhome c Hin T) in Hf.
          apply Nat.eqb_eq in Hf. congruence. }
        destruct (Hcount j Hj Hx) as [[H1 H2]|[H1 H2]]; split; lia. }
    assert (Hv : vote near pls = bucket_of near refs all h).
    { unfold vote, pls. fold pls. fold all. cbn [map].
      set (b0 := bucket_of near refs all 0%nat). set (b1 := bucket_of near refs all 1%nat).
      set (b2 := bucket_of near refs all 2%nat). set (b3 := bucket_of near refs all 3%nat).
      assert (Hb : best_index [length b0; length b1; length b2; length b3] 0 0 0 = (0 + h)%nat).
      { apply (best_index_first_max _ 0 0 0 h (length (bucket_of near refs all h)))%nat.
        - destruct h as [|[|[|[|h']]]]; try reflexivity; lia.
        - destruct (bucket_of near refs all h); [congruence | cbn [length]; lia].
        - intros j n Hj Hlt. destruct j as [|[|[|[|j']]]]; cbn [nth_error] in Hj;
            try (injection Hj as <-; apply Hother; lia).
          destruct j'; discriminate.
        - intros j n Hj Hlt. destruct j as [|[|[|[|j']]]]; cbn [nth_error] in Hj;
            try (injection Hj as <-; apply Hother; lia).
          destruct j'; discriminate. }
      rewrite Hb. destruct h as [|[|[|[|h']]]]; try reflexivity; lia. }
    split; [exact Hv|]. rewrite Hv. split; [exact Hpure | apply mean_contract; assumption].
  Qed.

  (* no count threshold: a pair seen in at least one sample always gets a (non-empty) winning bucket, provided a
     candidate is within accept_radius of itself *)
  Lemma vote_nonempty (refs : list P) (rest : list (list P)) :
    (forall p, near p p = true) -> refs <> [] -> vote near (refs :: rest) <> [].
  Proof.
    intros Hrefl Hne. destruct refs as [|c0 refs']; [congruence|].
    unfold vote. set (all := concat ((c0 :: refs') :: rest)). cbn [map].
    set (b0 := bucket_of near (c0 :: refs') all 0%nat). set (b1 := bucket_of near (c0 :: refs') all 1%nat).
    set (b2 := bucket_of near (c0 :: refs') all 2%nat). set (b3 := bucket_of near (c0 :: refs') all 3%nat).
    assert (H0 : (0 < length b0)%nat).
    { assert (Hin : In c0 b0).
      { unfold b0, bucket_of. apply filter_In. split; [unfold all; cbn [concat app]; left; reflexivity|].
        cbn [first_near]. rewrite Hrefl. reflexivity. }
      destruct b0; [destruct Hin | cbn [length]; lia]. }
    destruct (best_index_is_max [length b0; length b1; length b2; length b3] 0 0 0)
      as [[_ Hall]|(k & m & Hr & Hk & Hm & _)].
    - assert (length b0 <= 0)%nat by (apply Hall; left; reflexivity). lia.
    - cbv zeta in Hr. rewrite Hr. cbn [Nat.add].
      destruct k as [|[|[|[|k']]]]; cbn [nth_error] in Hk; try (injection Hk as <-; cbn [nth]; intros E; rewrite E in Hm; cbn [length] in Hm; lia).
      destruct k'; discriminate.
  Qed.
End VoteCorrect.

(* ------------------------------------------------------------------ _choose_solutions *)
Section ChooseCorrect.
  Context {P D G : Type}.
  Variable dist : P -> P -> D.
  Variable dlt : D -> D -> bool.
  Variables outlier maxd : D.
  Variable rel : G -> G -> P.
  Variable g0 : G.
  Hypothesis dlt_irrefl : forall a, dlt a a = false.
  Hypothesis dlt_trans : forall a b c, dlt a b = true -> dlt b c = true -> dlt a c = true.
  Variable ptrue : G * G -> Prop.        (* both poses of the pair are the true ones (within eps) *)
  Hypothesis ptrue_dec : forall c, ptrue c \/ ~ ptrue c.

  Notation choose_step := (choose_step dist dlt rel).
  Notation choose := (choose dist dlt outlier maxd rel g0).

  Definition dd (e : P) (c : G * G) : D := dist e (rel (fst c) (snd c)).

  Definition cinv (e : P) (pr : list (G * G)) (st : D * (G * G)) : Prop :=
    (forall c, In c pr -> dlt (dd e c) (fst st) = false) /\
    (fst st = maxd \/ (In (snd st) pr /\ fst st = dd e (snd st))).

  Lemma choose_fold e (todo : list (G * G)) : forall pr st,
    cinv e pr st -> cinv e (pr ++ todo) (fold_left (choose_step e) todo st).
  Proof.
    induction todo as [|c todo IH]; intros pr st H; [rewrite app_nil_r; exact H|].
    cbn [fold_left]. replace (pr ++ c :: todo) with ((pr ++ [c]) ++ todo) by (rewrite <- app_assoc; reflexivity).
    apply IH. destruct H as [HA HB]. unfold choose_step. fold (dd e c).
    destruct (dlt (dd e c) (fst st)) eqn:E.
    - split; cbn [fst snd].
      + intros c' Hc'. apply in_app_or in Hc' as [Hc'|[<-|[]]]; [|apply dlt_irrefl].
        destruct (dlt (dd e c') (dd e c)) eqn:E2; [|reflexivity].
        assert (Hx := HA c' Hc'). rewrite (dlt_trans _ _ _ E2 E) in Hx. discriminate Hx.
      + right. split; [apply in_or_app; right; left; reflexivity | reflexivity].
    - split.
      + intros c' Hc'. apply in_app_or in Hc' as [Hc'|[<-|[]]]; [apply HA, Hc' | exact E].
      + destruct HB as [HB|[HB1 HB2]]; [left; exact HB | right; split; [apply in_or_app; left; exact HB1 | exact HB2]].
  Qed.

  Lemma choose_correct (e : P) (s1s s2s : list G) :
    (* some true pair is among the candidates and closer to the voted position than the initial min_dist *)
    (exists c, In c (pairs s1s s2s) /\ ptrue c /\ dlt (dd e c) maxd = true) ->
    (* every true pair is strictly closer to the voted position than every non-true pair *)
    (forall c c', In c (pairs s1s s2s) -> In c' (pairs s1s s2s) -> ptrue c -> ~ ptrue c' ->
                  dlt (dd e c) (dd e c') = true) ->
    (* true pairs pass the outlier test *)
    (forall c, In c (pairs s1s s2s) -> ptrue c -> dlt outlier (dd e c) = false) ->
    fst (choose e s1s s2s) = true /\ ptrue (snd (choose e s1s s2s)) /\ In (snd (choose e s1s s2s)) (pairs s1s s2s).
  Proof.
    intros [cs [Hcs [Tcs Dcs]]] Hnearer Hout. unfold choose.
    assert (H0 : cinv e [] (maxd, (g0, g0))) by (split; [intros c [] | left; reflexivity]).
    assert (H := choose_fold e (pairs s1s s2s) [] _ H0). cbn [app] in H.
    set (st := fold_left (choose_step e) (pairs s1s s2s) (maxd, (g0, g0))) in *.
    destruct H as [HA HB]. cbn [fst snd].
    assert (Hs := HA cs Hcs). destruct HB as [HB|[HB1 HB2]].
    - rewrite HB in Hs. congruence.
    - assert (Tb : ptrue (snd st)).
      { destruct (ptrue_dec (snd st)) as [T|N]; [exact T|]. exfalso.
        assert (Hn := Hnearer cs (snd st) Hcs HB1 Tcs N). rewrite HB2 in Hs. congruence. }
      split; [|split; [exact Tb | exact HB1]]. rewrite HB2, (Hout _ HB1 Tb). reflexivity.
  Qed.
End ChooseCorrect.

(* ------------------------------------------------------------------ _angles_to_poses, one sample *)
Lemma in_dict_set {V} k0 (v0 : V) d k v : In (k, v) (dict_set k0 v0 d) -> (k, v) = (k0, v0) \/ In (k, v) d.
Proof.
  induction d as [|[k' v'] d IH]; cbn [dict_set].
  - intros [H|[]]. left. congruence.
  - destruct (k' =? k0).
    + intros [H|H]; [left; congruence | right; right; exact H].
    + intros [H|H]; [right; left; exact H|]. destruct (IH H) as [E|E]; [left; exact E | right; right; exact E].
Qed.

Lemma in_keys_dict_set {V} k0 (v0 : V) d k : In k (keys (dict_set k0 v0 d)) <-> k = k0 \/ In k (keys d).
Proof.
  rewrite keys_dict_set. destruct (mem k0 (keys d)) eqn:M.
  - apply mem_true_iff in M. split; [tauto|]. intros [->|H]; assumption.
  - rewrite in_app_iff. cbn [In]. split; [intros [H|[H|[]]]; auto | intros [H|H]; auto].
Qed.

Section A2PCorrect.
  Context {P D G : Type}.
  Variable dist : P -> P -> D.
  Variable dlt : D -> D -> bool.
  Variables radius outlier maxd : D.
  Variable mean : list P -> P.
  Variable rel : G -> G -> P.
  Variable g0 : G.
  Variable gtrue : Z -> G -> Prop.      (* for THIS sample: g is the true pose of station k (within eps) *)

  Notation choose := (choose dist dlt outlier maxd rel g0).
  Notation expected := (expected dist dlt radius mean rel).
  Notation a2p_loop := (a2p_loop dist dlt radius outlier maxd mean rel g0).
  Notation a2p_sample := (a2p_sample dist dlt radius outlier maxd mean rel g0).

  Definition pair_ok (ss : list (@dsample G)) (s : @dsample G) (first o : Z) : Prop :=
    let r := choose (expected ss first o) (sols_of s first) (sols_of s o) in
    fst r = true /\ gtrue first (fst (snd r)) /\ gtrue o (snd (snd r)).

  Lemma a2p_loop_correct ss s first (others : list Z) : forall poses,
    (forall o, In o others -> pair_ok ss s first o) ->
    (forall k g, In (k, g) poses -> gtrue k g) ->
    exists res, a2p_loop ss s first others poses = Some res /\
      (forall k g, In (k, g) res -> gtrue k g) /\
      (forall k, In k (keys res) <-> In k (keys poses) \/ (others <> [] /\ k = first) \/ In k others).
  Proof.
    induction others as [|o tl IH]; intros poses Hok Hp.
    - exists poses. split; [reflexivity|]. split; [exact Hp|]. intros k. cbn [In]. intuition congruence.
    - cbn [a2p_loop]. destruct (Hok o (or_introl eq_refl)) as (Hs & T1 & T2). cbv zeta in Hs, T1, T2.
      rewrite Hs.
      set (p1 := fst (snd (choose (expected ss first o) (sols_of s first) (sols_of s o)))) in *.
      set (p2 := snd (snd (choose (expected ss first o) (sols_of s first) (sols_of s o)))) in *.
      destruct (IH (dict_set o p2 (dict_set first p1 poses))) as (res & E & Ht & Hk).
      + intros o' Ho'. apply Hok. right. exact Ho'.
      + intros k g Hin. apply in_dict_set in Hin as [Hin|Hin]; [injection Hin as -> ->; exact T2|].
        apply in_dict_set in Hin as [Hin|Hin]; [injection Hin as -> ->; exact T1 | apply Hp, Hin].
      + exists res. split; [exact E|]. split; [exact Ht|]. intros k. rewrite Hk, !in_keys_dict_set. cbn [In].
        split.
        * intros [[->|[->|H]]|[[_ ->]|H]]; auto; right; left; split; try discriminate; reflexivity.
        * intros [H|[[_ ->]|[<-|H]]]; auto.
  Qed.

  Lemma a2p_sample_correct ss s first others :
    sort_ids (keys s) = first :: others ->
    (forall o, In o others -> pair_ok ss s first o) ->
    exists res, a2p_sample ss s = Some res /\
      (forall k g, In (k, g) res -> gtrue k g) /\
      (forall k, In k (keys res) <-> (others <> [] /\ In k (keys s))).
  Proof.
    intros Hs Hok. unfold a2p_sample. rewrite Hs.
    destruct (a2p_loop_correct ss s first others [] Hok) as (res & E & Ht & Hk); [intros k g []|].
    exists res. split; [exact E|]. split; [exact Ht|]. intros k. rewrite Hk. cbn [keys map In].
    assert (Hin : In k (keys s) <-> k = first \/ In k others).
    { rewrite <- (sort_ids_in k (keys s)). rewrite Hs. cbn [In]. split; intros [H|H]; auto. }
    rewrite Hin. destruct others as [|o tl]; cbn [In]; [intuition congruence|].
    split; [intros [[]|[[_ H]|H]]; split; try discriminate; auto | intros [_ [H|H]]; [right; left; split; [discriminate | exact H] | auto]].
  Qed.
End A2PCorrect.

(* ------------------------------------------------------------------ configurations on which the premise fails *)
Definition near80 (a b : Z) : bool := dist_cm a b <? 80.       (* centimetres on a line, accept_radius = 0.8 m *)

(* the counting premise of vote_correct, negated: some bucket holding a non-true candidate is bucket h itself, or comes
   before h and is at least as large, or comes after h and is larger *)
Definition premise_fails (pls : list (list Z)) (truth : Z) (h : nat) : Prop :=
  match pls with
  | [] => False
  | refs :: _ =>
      let all := concat pls in
      (forall c, In c all -> c = truth -> first_near near80 c refs O = Some h) /\
      exists i c, (i < 4)%nat /\ In c (bucket_of near80 refs all i) /\ c <> truth /\
                  (i = h \/ ((i < h)%nat /\ (length (bucket_of near80 refs all h) <= length (bucket_of near80 refs all i))%nat)
                         \/ ((h < i)%nat /\ (length (bucket_of near80 refs all h) < length (bucket_of near80 refs all i))%nat))
  end.

(* F09b: a mirror candidate within accept_radius of the reference of the true bucket pollutes it *)
Definition cfg_f09b : list (list Z) := [[0; 30; 250; 280]; [0; 45; 300; 345]; [0; 400; 20; 420]].
Lemma f09b_config : premise_fails cfg_f09b 0 0 /\ vote near80 cfg_f09b = [0; 30; 0; 45; 0; 20].
Proof.
  split; [|reflexivity]. split.
  - intros c _ ->. reflexivity.
  - exists 0%nat, 30. split; [lia|]. split; [vm_compute; tauto|]. split; [lia | left; reflexivity].
Qed.

(* F09e: symmetric room: the families (true A, mirror B) and (mirror A, true B) coincide within accept_radius, share
   bucket 1 and get two entries per sample; the true bucket 0 is unmixed but gets one *)
Definition cfg_f09e : list (list Z) := [[0; 200; 210; 410]; [0; 195; 205; 400]; [0; 204; 199; 403]].
Lemma f09e_config : premise_fails cfg_f09e 0 0 /\ vote near80 cfg_f09e = [200; 210; 195; 205; 204; 199] /\
                    bucket_of near80 [0; 200; 210; 410] (concat cfg_f09e) 0 = [0; 0; 0].
Proof.
  split; [|split; reflexivity]. split.
  - intros c _ ->. reflexivity.
  - exists 1%nat, 200. split; [lia|]. split; [vm_compute; tauto|]. split; [lia | right; right; vm_compute; lia].
Qed.

(* two stations 0.2 m apart: every candidate of every sample is within accept_radius of the first reference *)
Definition cfg_coincident : list (list Z) := [[20; 12; -15; -23]; [20; 9; -22; -33]].
Lemma coincident_config : premise_fails cfg_coincident 20 0 /\
                          vote near80 cfg_coincident = [20; 12; -15; -23; 20; 9; -22; -33].
Proof.
  split; [|reflexivity]. split.
  - intros c _ ->. reflexivity.
  - exists 0%nat, 12. split; [lia|]. split; [vm_compute; tauto|]. split; [lia | left; reflexivity].
Qed.

(* ------------------------------------------------------------------ no count threshold in /repo *)
(* 21 error-free samples (centimetres on a line): the first one is the only one that sees stations 1 and 2 together,
   the other twenty see 2 and 3.  The code of /repo keeps all of them; with a threshold of ceil(0.05 * 21) = 2 samples
   per pair the first sample - the one that defines the reference frame - is dropped. *)
Definition cfg_sparse : list (@dsample Z) :=
  [(1, [0; 300]); (2, [200; 900])] :: repeat [(2, [200; 900]); (3, [500; 1500])] 20.

Definition is_some {X} (o : option X) : bool := match o with Some _ => true | None => false end.

Lemma pair_threshold_refuted :
  length cfg_sparse = 21%nat /\
  forallb is_some (decide dist_cm Z.ltb 80 50 10000000 mean_cm (fun a b => b - a) 0 cfg_sparse) = true /\
  nth 0 (decide dist_cm Z.ltb 80 50 10000000 mean_cm (fun a b => b - a) 0 cfg_sparse) None
    = Some [(1, 0); (2, 200)] /\
  nth 0 (decide_thr dist_cm Z.ltb 80 50 10000000 mean_cm (fun a b => b - a) 0 2 cfg_sparse) None = None /\
  forallb is_some (tl (decide_thr dist_cm Z.ltb 80 50 10000000 mean_cm (fun a b => b - a) 0 2 cfg_sparse)) = true.
Proof. vm_compute. repeat split. Qed.

(* with the threshold at 1 (what ceil(0.05 n) is for n <= 20) the variant is the code of /repo on this input *)
Lemma pair_threshold_one_same :
  decide_thr dist_cm Z.ltb 80 50 10000000 mean_cm (fun a b => b - a) 0 1 cfg_sparse
  = decide dist_cm Z.ltb 80 50 10000000 mean_cm (fun a b => b - a) 0 cfg_sparse.
Proof. vm_compute. reflexivity. Qed.
