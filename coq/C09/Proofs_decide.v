(* C09/Proofs_decide.v — sufficient conditions under which the estimator's decision logic (bucket vote, choice of the
   candidate pair, per-sample linking) picks the TRUE candidates, for any number of samples; and three candidate
   configurations on which the premise fails and the vote picks the wrong bucket (F09b, F09e, near-coincident stations). *)
From CF Require Import Common.Bytes C09.Model C09.Vote C09.Decide C09.Proofs_matcher C09.Proofs_link C09.Proofs_est.
From Coq Require Import ZifyBool.
Open Scope Z_scope.

(* ------------------------------------------------------------------ largest bucket, ties as the code breaks them *)
Lemma best_index_le_all (lens : list nat) : forall i ml mi,
  (forall n, In n lens -> (n <= ml)%nat) -> best_index lens i ml mi = mi.
Proof.
  induction lens as [|n tl IH]; intros i ml mi H; [reflexivity|]. cbn [best_index].
  assert (Hn : (n <= ml)%nat) by (apply H; left; reflexivity).
  destruct (Nat.ltb ml n) eqn:E; [apply Nat.ltb_lt in E; lia|].
  apply IH. intros k Hk. apply H. right. exact Hk.
Qed.

Lemma best_index_unique_max (lens : list nat) : forall i ml mi h m,
  nth_error lens h = Some m -> (ml < m)%nat ->
  (forall j n, nth_error lens j = Some n -> j <> h -> (n < m)%nat) ->
  best_index lens i ml mi = (i + h)%nat.
Proof.
  induction lens as [|n tl IH]; intros i ml mi h m Hh Hm Hothers.
  - destruct h; discriminate.
  - cbn [best_index]. destruct h as [|k].
    + cbn [nth_error] in Hh. injection Hh as ->. apply Nat.ltb_lt in Hm. rewrite Hm.
      rewrite best_index_le_all; [lia|]. intros n Hn. apply In_nth_error in Hn as [j Hj].
      assert (n < m)%nat by (apply (Hothers (S j) n); [exact Hj | discriminate]). lia.
    + cbn [nth_error] in Hh.
      assert (Hn : (n < m)%nat) by (apply (Hothers O n); [reflexivity | discriminate]).
      assert (Ho : forall j n0, nth_error tl j = Some n0 -> j <> k -> (n0 < m)%nat).
      { intros j n0 Hj Hne. apply (Hothers (S j) n0); [exact Hj | congruence]. }
      destruct (Nat.ltb ml n).
      * rewrite (IH (S i) n i k m Hh Hn Ho). lia.
      * rewrite (IH (S i) ml mi k m Hh Hm Ho). lia.
Qed.

(* ------------------------------------------------------------------ the vote *)
Section VoteCorrect.
  Context {P : Type}.
  Variable near : P -> P -> bool.
  Variable mean : list P -> P.
  Variable istrue : P -> Prop.          (* "within eps of the true relative station position" *)
  Hypothesis istrue_dec : forall p, istrue p \/ ~ istrue p.
  (* contract of the averaging kernel: the eps-ball is convex *)
  Hypothesis mean_contract : forall l, l <> [] -> Forall istrue l -> istrue (mean l).

  Lemma vote_correct (refs : list P) (rest : list (list P)) (h : nat) :
    let pls := refs :: rest in
    let all := concat pls in
    (h < 4)%nat ->
    (* the true candidates of all samples fall into one bucket, number h *)
    (forall c, In c all -> istrue c -> first_near near c refs O = Some h) ->
    (exists c, In c all /\ istrue c) ->
    (* counting premise: a bucket that holds a non-true candidate holds strictly fewer than the true bucket *)
    (forall i, (i < 4)%nat -> (exists c, In c (bucket_of near refs all i) /\ ~ istrue c) ->
               (length (bucket_of near refs all i) < length (bucket_of near refs all h))%nat) ->
    vote near pls = bucket_of near refs all h /\ Forall istrue (vote near pls) /\ istrue (mean (vote near pls)).
  Proof.
    intros pls all Hh Hhome [c0 [Hc0 Tc0]] Hcount.
    assert (Hne : bucket_of near refs all h <> []).
    { intros E. assert (Hin : In c0 (bucket_of near refs all h)).
      { unfold bucket_of. apply filter_In. split; [exact Hc0|]. rewrite (Hhome c0 Hc0 Tc0). apply Nat.eqb_refl. }
      rewrite E in Hin. destruct Hin. }
    assert (Hpure : Forall istrue (bucket_of near refs all h)).
    { apply Forall_forall. intros c Hc. destruct (istrue_dec c) as [T|N]; [exact T|]. exfalso.
      assert (H := Hcount h Hh (ex_intro _ c (conj Hc N))). lia. }
    assert (Hsmall : forall j, (j < 4)%nat -> j <> h ->
              (length (bucket_of near refs all j) < length (bucket_of near refs all h))%nat).
    { intros j Hj Hne'. destruct (bucket_of near refs all j) as [|c tl] eqn:E.
      - destruct (bucket_of near refs all h); [congruence | cbn [length]; lia].
      - rewrite <- E. apply (Hcount j Hj). exists c. split; [rewrite E; left; reflexivity|].
        intros T. assert (Hin : In c (bucket_of near refs all j)) by (rewrite E; left; reflexivity).
        unfold bucket_of in Hin. apply filter_In in Hin as [Hin Hf]. rewrite (Hhome c Hin T) in Hf.
        apply Nat.eqb_eq in Hf. congruence. }
    assert (Hv : vote near pls = bucket_of near refs all h).
    { unfold vote, pls. fold pls. fold all. cbn [map].
      set (b0 := bucket_of near refs all 0%nat). set (b1 := bucket_of near refs all 1%nat).
      set (b2 := bucket_of near refs all 2%nat). set (b3 := bucket_of near refs all 3%nat).
      assert (Hb : best_index [length b0; length b1; length b2; length b3] 0 0 0 = (0 + h)%nat).
      { apply (best_index_unique_max _ 0 0 0 h (length (bucket_of near refs all h)))%nat.
        - destruct h as [|[|[|[|h']]]]; try reflexivity; lia.
        - destruct (bucket_of near refs all h); [congruence | cbn [length]; lia].
        - intros j n Hj Hne'. destruct j as [|[|[|[|j']]]]; cbn [nth_error] in Hj;
            try (injection Hj as <-; apply Hsmall; [lia | exact Hne']).
          destruct j'; discriminate. }
      rewrite Hb. destruct h as [|[|[|[|h']]]]; try reflexivity; lia. }
    split; [exact Hv|]. rewrite Hv. split; [exact Hpure | apply mean_contract; assumption].
  Qed.
End VoteCorrect.

(* ------------------------------------------------------------------ _choose_solutions *)
Section ChooseCorrect.
  Context {P D G : Type}.
  Variable dist : P -> P -> D.
  Variable dlt : D -> D -> bool.
  Variables outlier maxd : D.
  Variable rel : G -> G -> P.
  Variable g0 : G.
  Hypothesis dlt_irrefl : forall a, dlt a a = false.
  Hypothesis dlt_trans : forall a b c, dlt a b = true -> dlt b c = true -> dlt a c = true.
  Variable ptrue : G * G -> Prop.        (* both poses of the pair are the true ones (within eps) *)
  Hypothesis ptrue_dec : forall c, ptrue c \/ ~ ptrue c.

  Notation choose_step := (choose_step dist dlt rel).
  Notation choose := (choose dist dlt outlier maxd rel g0).

  Definition dd (e : P) (c : G * G) : D := dist e (rel (fst c) (snd c)).

  Definition cinv (e : P) (pr : list (G * G)) (st : D * (G * G)) : Prop :=
    (forall c, In c pr -> dlt (dd e c) (fst st) = false) /\
    (fst st = maxd \/ (In (snd st) pr /\ fst st = dd e (snd st))).

  Lemma choose_fold e (todo : list (G * G)) : forall pr st,
    cinv e pr st -> cinv e (pr ++ todo) (fold_left (choose_step e) todo st).
  Proof.
    induction todo as [|c todo IH]; intros pr st H; [rewrite app_nil_r; exact H|].
    cbn [fold_left]. replace (pr ++ c :: todo) with ((pr ++ [c]) ++ todo) by (rewrite <- app_assoc; reflexivity).
    apply IH. destruct H as [HA HB]. unfold choose_step. fold (dd e c).
    destruct (dlt (dd e c) (fst st)) eqn:E.
    - split; cbn [fst snd].
      + intros c' Hc'. apply in_app_or in Hc' as [Hc'|[<-|[]]]; [|apply dlt_irrefl].
        destruct (dlt (dd e c') (dd e c)) eqn:E2; [|reflexivity].
        assert (Hx := HA c' Hc'). rewrite (dlt_trans _ _ _ E2 E) in Hx. discriminate Hx.
      + right. split; [apply in_or_app; right; left; reflexivity | reflexivity].
    - split.
      + intros c' Hc'. apply in_app_or in Hc' as [Hc'|[<-|[]]]; [apply HA, Hc' | exact E].
      + destruct HB as [HB|[HB1 HB2]]; [left; exact HB | right; split; [apply in_or_app; left; exact HB1 | exact HB2]].
  Qed.

  Lemma choose_correct (e : P) (s1s s2s : list G) :
    (* some true pair is among the candidates and closer to the voted position than the initial min_dist *)
    (exists c, In c (pairs s1s s2s) /\ ptrue c /\ dlt (dd e c) maxd = true) ->
    (* every true pair is strictly closer to the voted position than every non-true pair *)
    (forall c c', In c (pairs s1s s2s) -> In c' (pairs s1s s2s) -> ptrue c -> ~ ptrue c' ->
                  dlt (dd e c) (dd e c') = true) ->
    (* true pairs pass the outlier test *)
    (forall c, In c (pairs s1s s2s) -> ptrue c -> dlt outlier (dd e c) = false) ->
    fst (choose e s1s s2s) = true /\ ptrue (snd (choose e s1s s2s)) /\ In (snd (choose e s1s s2s)) (pairs s1s s2s).
  Proof.
    intros [cs [Hcs [Tcs Dcs]]] Hnearer Hout. unfold choose.
    assert (H0 : cinv e [] (maxd, (g0, g0))) by (split; [intros c [] | left; reflexivity]).
    assert (H := choose_fold e (pairs s1s s2s) [] _ H0). cbn [app] in H.
    set (st := fold_left (choose_step e) (pairs s1s s2s) (maxd, (g0, g0))) in *.
    destruct H as [HA HB]. cbn [fst snd].
    assert (Hs := HA cs Hcs). destruct HB as [HB|[HB1 HB2]].
    - rewrite HB in Hs. congruence.
    - assert (Tb : ptrue (snd st)).
      { destruct (ptrue_dec (snd st)) as [T|N]; [exact T|]. exfalso.
        assert (Hn := Hnearer cs (snd st) Hcs HB1 Tcs N). rewrite HB2 in Hs. congruence. }
      split; [|split; [exact Tb | exact HB1]]. rewrite HB2, (Hout _ HB1 Tb). reflexivity.
  Qed.
End ChooseCorrect.

(* ------------------------------------------------------------------ _angles_to_poses, one sample *)
Lemma in_dict_set {V} k0 (v0 : V) d k v : In (k, v) (dict_set k0 v0 d) -> (k, v) = (k0, v0) \/ In (k, v) d.
Proof.
  induction d as [|[k' v'] d IH]; cbn [dict_set].
  - intros [H|[]]. left. congruence.
  - destruct (k' =? k0).
    + intros [H|H]; [left; congruence | right; right; exact H].
    + intros [H|H]; [right; left; exact H|]. destruct (IH H) as [E|E]; [left; exact E | right; right; exact E].
Qed.

Lemma in_keys_dict_set {V} k0 (v0 : V) d k : In k (keys (dict_set k0 v0 d)) <-> k = k0 \/ In k (keys d).
Proof.
  rewrite keys_dict_set. destruct (mem k0 (keys d)) eqn:M.
  - apply mem_true_iff in M. split; [tauto|]. intros [->|H]; assumption.
  - rewrite in_app_iff. cbn [In]. split; [intros [H|[H|[]]]; auto | intros [H|H]; auto].
Qed.

Section A2PCorrect.
  Context {P D G : Type}.
  Variable dist : P -> P -> D.
  Variable dlt : D -> D -> bool.
  Variables radius outlier maxd : D.
  Variable mean : list P -> P.
  Variable rel : G -> G -> P.
  Variable g0 : G.
  Variable gtrue : Z -> G -> Prop.      (* for THIS sample: g is the true pose of station k (within eps) *)

  Notation choose := (choose dist dlt outlier maxd rel g0).
  Notation expected := (expected dist dlt radius mean rel).
  Notation a2p_loop := (a2p_loop dist dlt radius outlier maxd mean rel g0).
  Notation a2p_sample := (a2p_sample dist dlt radius outlier maxd mean rel g0).

  Definition pair_ok (ss : list (@dsample G)) (s : @dsample G) (first o : Z) : Prop :=
    let r := choose (expected ss first o) (sols_of s first) (sols_of s o) in
    fst r = true /\ gtrue first (fst (snd r)) /\ gtrue o (snd (snd r)).

  Lemma a2p_loop_correct ss s first (others : list Z) : forall poses,
    (forall o, In o others -> pair_ok ss s first o) ->
    (forall k g, In (k, g) poses -> gtrue k g) ->
    exists res, a2p_loop ss s first others poses = Some res /\
      (forall k g, In (k, g) res -> gtrue k g) /\
      (forall k, In k (keys res) <-> In k (keys poses) \/ (others <> [] /\ k = first) \/ In k others).
  Proof.
    induction others as [|o tl IH]; intros poses Hok Hp.
    - exists poses. split; [reflexivity|]. split; [exact Hp|]. intros k. cbn [In]. intuition congruence.
    - cbn [a2p_loop]. destruct (Hok o (or_introl eq_refl)) as (Hs & T1 & T2). cbv zeta in Hs, T1, T2.
      rewrite Hs.
      set (p1 := fst (snd (choose (expected ss first o) (sols_of s first) (sols_of s o)))) in *.
      set (p2 := snd (snd (choose (expected ss first o) (sols_of s first) (sols_of s o)))) in *.
      destruct (IH (dict_set o p2 (dict_set first p1 poses))) as (res & E & Ht & Hk).
      + intros o' Ho'. apply Hok. right. exact Ho'.
      + intros k g Hin. apply in_dict_set in Hin as [Hin|Hin]; [injection Hin as -> ->; exact T2|].
        apply in_dict_set in Hin as [Hin|Hin]; [injection Hin as -> ->; exact T1 | apply Hp, Hin].
      + exists res. split; [exact E|]. split; [exact Ht|]. intros k. rewrite Hk, !in_keys_dict_set. cbn [In].
        split.
        * intros [[->|[->|H]]|[[_ ->]|H]]; auto; right; left; split; try discriminate; reflexivity.
        * intros [H|[[_ ->]|[<-|H]]]; auto.
  Qed.

  Lemma a2p_sample_correct ss s first others :
    sort_ids (keys s) = first :: others ->
    (forall o, In o others -> pair_ok ss s first o) ->
    exists res, a2p_sample ss s = Some res /\
      (forall k g, In (k, g) res -> gtrue k g) /\
      (forall k, In k (keys res) <-> (others <> [] /\ In k (keys s))).
  Proof.
    intros Hs Hok. unfold a2p_sample. rewrite Hs.
    destruct (a2p_loop_correct ss s first others [] Hok) as (res & E & Ht & Hk); [intros k g []|].
    exists res. split; [exact E|]. split; [exact Ht|]. intros k. rewrite Hk. cbn [keys map In].
    assert (Hin : In k (keys s) <-> k = first \/ In k others).
    { rewrite <- (sort_ids_in k (keys s)). rewrite Hs. cbn [In]. split; intros [H|H]; auto. }
    rewrite Hin. destruct others as [|o tl]; cbn [In]; [intuition congruence|].
    split; [intros [[]|[[_ H]|H]]; split; try discriminate; auto | intros [_ [H|H]]; [right; left; split; [discriminate | exact H] | auto]].
  Qed.
End A2PCorrect.

(* ------------------------------------------------------------------ configurations on which the premise fails *)
Definition near80 (a b : Z) : bool := dist_cm a b <? 80.       (* centimetres on a line, accept_radius = 0.8 m *)

(* the counting premise of vote_correct, negated: some bucket holding a non-true candidate is at least as large as
   the bucket h of the true candidates *)
Definition premise_fails (pls : list (list Z)) (truth : Z) (h : nat) : Prop :=
  match pls with
  | [] => False
  | refs :: _ =>
      let all := concat pls in
      (forall c, In c all -> c = truth -> first_near near80 c refs O = Some h) /\
      exists i c, (i < 4)%nat /\ In c (bucket_of near80 refs all i) /\ c <> truth /\
                  (length (bucket_of near80 refs all h) <= length (bucket_of near80 refs all i))%nat
  end.

(* F09b: a mirror candidate within accept_radius of the reference of the true bucket pollutes it *)
Definition cfg_f09b : list (list Z) := [[0; 30; 250; 280]; [0; 45; 300; 345]; [0; 400; 20; 420]].
Lemma f09b_config : premise_fails cfg_f09b 0 0 /\ vote near80 cfg_f09b = [0; 30; 0; 45; 0; 20].
Proof.
  split; [|reflexivity]. split.
  - intros c _ ->. reflexivity.
  - exists 0%nat, 30. split; [lia|]. split; [vm_compute; tauto|]. split; [lia | vm_compute; lia].
Qed.

(* F09e: symmetric room: the families (true A, mirror B) and (mirror A, true B) coincide within accept_radius, share
   bucket 1 and get two entries per sample; the true bucket 0 is unmixed but gets one *)
Definition cfg_f09e : list (list Z) := [[0; 200; 210; 410]; [0; 195; 205; 400]; [0; 204; 199; 403]].
Lemma f09e_config : premise_fails cfg_f09e 0 0 /\ vote near80 cfg_f09e = [200; 210; 195; 205; 204; 199] /\
                    bucket_of near80 [0; 200; 210; 410] (concat cfg_f09e) 0 = [0; 0; 0].
Proof.
  split; [|split; reflexivity]. split.
  - intros c _ ->. reflexivity.
  - exists 1%nat, 200. split; [lia|]. split; [vm_compute; tauto|]. split; [lia | vm_compute; lia].
Qed.

(* two stations 0.2 m apart: every candidate of every sample is within accept_radius of the first reference *)
Definition cfg_coincident : list (list Z) := [[20; 12; -15; -23]; [20; 9; -22; -33]].
Lemma coincident_config : premise_fails cfg_coincident 20 0 /\
                          vote near80 cfg_coincident = [20; 12; -15; -23; 20; 9; -22; -33].
Proof.
  split; [|reflexivity]. split.
  - intros c _ ->. reflexivity.
  - exists 0%nat, 12. split; [lia|]. split; [vm_compute; tauto|]. split; [lia | vm_compute; lia].
Qed.
