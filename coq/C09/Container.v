(* C09/Container.v — LighthouseBsVectors (a Python list subclass) and its two array functions, definitions only.
   Angles are abstract (Z stand-ins in the correspondence); a vector is its (horizontal, vertical) pair.
   [angle_list] is the function of the CURRENT contents the code of /repo computes on every call; the machine [cached_*]
   keeps the array of the first call and rebuilds it only when the NUMBER of vectors changes (the seeded variant). *)
From CF Require Import Common.Bytes.
Open Scope Z_scope.

Definition bsvec : Type := (Z * Z)%type.

Inductive cop : Type :=
| CRead                              (* projection_pair_list() / angle_list(): observes, must not change anything *)
| CItem (i : nat) (v : bsvec)        (* c[i] = v        (i in range) *)
| CSlice (l : list bsvec)            (* c[:] = l *)
| CClearExtend (l : list bsvec)      (* c.clear(); c.extend(l) *)
| CAppend (v : bsvec)
| CPop
| CReverse.

Fixpoint set_nth (i : nat) (v : bsvec) (l : list bsvec) : list bsvec :=
  match l, i with
  | [], _ => []
  | _ :: tl, O => v :: tl
  | x :: tl, S k => x :: set_nth k v tl
  end.

Definition apply_op (o : cop) (l : list bsvec) : list bsvec :=
  match o with
  | CRead => l
  | CItem i v => set_nth i v l
  | CSlice n => n
  | CClearExtend n => n
  | CAppend v => l ++ [v]
  | CPop => removelast l
  | CReverse => rev l
  end.

Definition contents (ops : list cop) (l : list bsvec) : list bsvec := fold_left (fun s o => apply_op o s) ops l.

Definition angle_list (l : list bsvec) : list Z := flat_map (fun v => [fst v; snd v]) l.

(* the container of /repo: every read recomputes from the contents; returns the results of all reads, in order *)
Fixpoint reads (ops : list cop) (l : list bsvec) : list (list Z) :=
  match ops with
  | [] => []
  | CRead :: tl => angle_list l :: reads tl l
  | o :: tl => reads tl (apply_op o l)
  end.

(* a container that keeps the array of an earlier read while the number of vectors is unchanged *)
Definition cached_read (l : list bsvec) (c : option (list Z)) : list Z :=
  match c with
  | Some a => if (length a =? 2 * length l)%nat then a else angle_list l
  | None => angle_list l
  end.
Fixpoint cached_reads (ops : list cop) (l : list bsvec) (c : option (list Z)) : list (list Z) :=
  match ops with
  | [] => []
  | CRead :: tl => let a := cached_read l c in a :: cached_reads tl l (Some a)
  | o :: tl => cached_reads tl (apply_op o l) c
  end.
