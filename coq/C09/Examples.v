(* C09/Examples.v — non-vacuity: concrete instances meeting the hypotheses of the theorems in Property.v. *)
From CF Require Import Common.Bytes C09.Model C09.Proofs_matcher C09.Proofs_link C09.Proofs_est.
Open Scope Z_scope.

(* ---- matcher: integer time stamps, window 2 *)
Definition ex_meas : list (@meas Z Z) :=
  [Meas 10 3 100; Meas 11 1 101; Meas 12 3 102; Meas 13 1 103; Meas 13 2 104; Meas 20 5 105].

Example ex_first_not_late : late_Z 2 10 10 = false.
Proof. reflexivity. Qed.

Example ex_segmentation :
  segmentation (late_Z 2) [[Meas 10 3 100; Meas 11 1 101; Meas 12 3 102]; [Meas 13 1 103; Meas 13 2 104]; [Meas 20 5 105]]
               ex_meas.
Proof. repeat split; repeat constructor. Qed.

(* later angle (102) overwrote the first one (100) of station 3 and kept the key's position; the 1-station run is dropped *)
Example ex_match : match_samples (late_Z 2) 2 ex_meas = [(10, [(3, 102); (1, 101)]); (13, [(1, 103); (2, 104)])].
Proof. reflexivity. Qed.

Example ex_negative_window : match_samples (late_Z (-1)) 0 [Meas 5 1 7] = [(5, []); (5, [(1, 7)])].
Proof. reflexivity. Qed.

(* ---- linkage: poses = integers under addition (translations along one axis) *)
Lemma choose_min_ok : forall l, l <> [] -> In (choose_min l) l.
Proof.
  intros l Hl. unfold choose_min. destruct (sort_ids l) as [|x tl] eqn:E.
  - destruct l as [|y l']; [congruence|]. assert (H : length (sort_ids (y :: l')) = length (y :: l')) by apply sort_ids_length.
    rewrite E in H. discriminate.
  - apply sort_ids_in. rewrite E. left. reflexivity.
Qed.

Lemma avg_hd_const : forall g l, l <> [] -> Forall (fun p => p = g) l -> avg_hd l = g.
Proof. intros g [|x l] Hl HF; [congruence|]. inversion HF; subst. reflexivity. Qed.

(* truth: station b stands at 100 * b; Crazyflie poses 7, 8, 9; samples {1,2}, {2,5}, {5,9} chain 1-2-5-9 *)
Definition ex_BS (b : Z) : Z := 100 * b.
Definition ex_Cs : list Z := [7; 8; 9].
Definition ex_ss : list (list (Z * Z)) :=
  [[(1, ex_BS 1 - 7); (2, ex_BS 2 - 7)]; [(2, ex_BS 2 - 8); (5, ex_BS 5 - 8)]; [(5, ex_BS 5 - 9); (9, ex_BS 9 - 9)]].

Example ex_consistent : Forall2 (sample_at Z.add Z.opp ex_BS) ex_Cs ex_ss.
Proof.
  repeat constructor; intros b p H; cbn [In ex_ss] in H;
    repeat (destruct H as [H|H]; [injection H as <- <-; reflexivity|]); destruct H.
Qed.

Example ex_estimate :
  estimate_tail Z.add Z.opp avg_hd choose_min ex_ss
  = EOk [(1, 93); (2, 193); (5, 493); (9, 893)] [0; 1; 2].
Proof. reflexivity. Qed.

Example ex_exact : exists REF, ref_cf ex_Cs ex_ss = Some REF /\
  (forall b p, In (b, p) [(1, 93); (2, 193); (5, 493); (9, 893)] -> p = Z.opp REF + ex_BS b) /\
  [0; 1; 2] = map (fun C => Z.opp REF + C) ex_Cs.
Proof.
  apply (estimate_exact Z.add Z.opp avg_hd choose_min 0 Z.add_assoc Z.add_0_l Z.add_0_r
           Z.add_opp_diag_l Z.add_opp_diag_r avg_hd_const ex_BS ex_Cs ex_ss _ _ ex_consistent ex_estimate).
Qed.

(* an unlinked system ({1,2} and {5,9} never seen together) raises; a sample without stations crashes *)
Example ex_unlinked :
  estimate_tail Z.add Z.opp avg_hd choose_min [[(1, 0); (2, 5)]; [(5, 1); (9, 2)]] = ECannotLink.
Proof. reflexivity. Qed.

Example ex_unlinked_witness : ~ linked [[(1, 0); (2, 5)]; [(5, 1); (9, 2)]] [1] 5.
Proof.
  intros H. assert (Hc : forall b, linked [[(1, 0); (2, 5)]; [(5, 1); (9, 2)]] [1] b -> b = 1 \/ b = 2).
  { intros b Hb. induction Hb as [b Hb | a b s _ IH Hs Ha Hb].
    - destruct Hb as [<-|[]]. left. reflexivity.
    - destruct Hs as [<-|[<-|[]]]; cbn [keys map fst In] in *; lia. }
  destruct (Hc 5 H); lia.
Qed.

Example ex_crash : estimate_tail Z.add Z.opp avg_hd choose_min [[(1, 0); (2, 5)]; []] = ECrash.
Proof. reflexivity. Qed.

Example ex_no_reference : estimate_tail Z.add Z.opp avg_hd choose_min [[]; []] = ENoReference.
Proof. reflexivity. Qed.
