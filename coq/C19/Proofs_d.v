(* C19/Proofs_d.v — the caller's argument dictionary is only read: every argument list is a fresh object
   [scf] ++ entry, and every object that existed before a (history of) swarm-wide action(s) is unchanged. *)
From CF Require Import Common.Bytes C19.Model.
From Coq Require Import Arith.
Open Scope nat_scope.

Lemma set_obj_last (h : heap) x v : set_obj (h ++ [x]) (List.length h) v = h ++ [v].
Proof.
  unfold set_obj. rewrite firstn_app, firstn_all, Nat.sub_diag. cbn [firstn]. rewrite app_nil_r.
  rewrite skipn_all2; [reflexivity|]. rewrite app_length. cbn. lia.
Qed.

Lemma obj_app_l (h t : heap) r : r < List.length h -> obj (h ++ t) r = obj h r.
Proof. intros H. unfold obj. now apply app_nth1. Qed.

Lemma obj_app_last (h : heap) x : obj (h ++ [x]) (List.length h) = x.
Proof. unfold obj. rewrite app_nth2, Nat.sub_diag by lia. reflexivity. Qed.

Lemma plookup_in d u r : plookup d u = Some r -> In ((u, r) : Z * nat) d.
Proof.
  induction d as [|[u' r'] d IH]; cbn; [discriminate|].
  destruct (Z.eqb_spec u' u) as [->|]; intros H; [injection H as ->; now left|right; now apply IH].
Qed.

Lemma wf_dict_app h t ad : wf_dict h ad -> wf_dict (h ++ t) ad.
Proof.
  destruct ad as [d|]; cbn; [|trivial]. intros H u r Hin. rewrite app_length. specialize (H u r Hin). lia.
Qed.

Lemma entry_app h t ad u : wf_dict h ad -> entry (h ++ t) ad u = entry h ad u.
Proof.
  destruct ad as [[|p d]|]; cbn [entry]; try reflexivity. intros W.
  destruct (plookup (p :: d) u) as [r|] eqn:E; [|reflexivity].
  apply obj_app_l. apply (W u r). now apply plookup_in.
Qed.

Lemma process_args_heap_spec h ad scf u a h' : wf_dict h ad ->
  process_args_heap h ad scf u = Some (a, h') ->
  a = List.length h /\ h' = h ++ [VScf scf :: entry h ad u].
Proof.
  intros W. unfold process_args_heap. destruct ad as [[|p d]|].
  - intros H. injection H as <- <-. split; reflexivity.
  - cbn [entry]. destruct (plookup (p :: d) u) as [r|] eqn:E; [|discriminate].
    intros H. injection H as <- <-. split; [reflexivity|].
    rewrite set_obj_last, obj_app_last. rewrite obj_app_l; [reflexivity|].
    apply (W u r). now apply plookup_in.
  - intros H. injection H as <- <-. split; reflexivity.
Qed.

Definition expected_args (h : heap) (ad : option pdict) (ms : list (Z * nat)) : list (list val) :=
  map (fun m => VScf (snd m) :: entry h ad (fst m)) ms.

Lemma call_args_spec ad : forall ms h ids h', wf_dict h ad ->
  call_args h ad ms = Some (ids, h') ->
  h' = h ++ expected_args h ad ms /\ ids = seq (List.length h) (List.length ms).
Proof.
  induction ms as [|[u i] ms IH]; intros h ids h' W H; cbn [call_args] in H.
  - injection H as <- <-. cbn. now rewrite app_nil_r.
  - destruct (process_args_heap h ad i u) as [[a h1]|] eqn:E; [|discriminate].
    destruct (call_args h1 ad ms) as [[ids1 h2]|] eqn:E2; [|discriminate]. injection H as <- <-.
    destruct (process_args_heap_spec h ad i u a h1 W E) as [-> ->].
    destruct (IH _ _ _ (wf_dict_app _ _ _ W) E2) as [-> ->].
    split.
    + unfold expected_args. cbn [map fst snd]. rewrite <- app_assoc. cbn [app]. do 2 f_equal.
      apply map_ext. intros m. now rewrite entry_app.
    + rewrite app_length. cbn [List.length seq]. f_equal. f_equal. lia.
Qed.

Lemma history_spec ms : forall calls h idss h', (forall ad, In ad calls -> wf_dict h ad) ->
  history h ms calls = Some (idss, h') ->
  h' = h ++ concat (map (fun ad => expected_args h ad ms) calls) /\
  map (map (obj h')) idss = map (fun ad => expected_args h ad ms) calls.
Proof.
  induction calls as [|ad calls IH]; intros h idss h' W H; cbn [history] in H.
  - injection H as <- <-. cbn. now rewrite app_nil_r.
  - destruct (call_args h ad ms) as [[ids h1]|] eqn:E; [|discriminate].
    destruct (history h1 ms calls) as [[idss1 h2]|] eqn:E2; [|discriminate]. injection H as <- <-.
    destruct (call_args_spec ad ms h ids h1 (W ad (or_introl eq_refl)) E) as [-> ->].
    assert (W1 : forall ad', In ad' calls -> wf_dict (h ++ expected_args h ad ms) ad').
    { intros ad' Hin. apply wf_dict_app. apply W. now right. }
    destruct (IH _ _ _ W1 E2) as [-> Hobs].
    assert (Eq : map (fun ad' => expected_args (h ++ expected_args h ad ms) ad' ms) calls =
                 map (fun ad' => expected_args h ad' ms) calls).
    { apply map_ext_in. intros ad' Hin. unfold expected_args. apply map_ext. intros m.
      rewrite entry_app; [reflexivity|]. apply W. now right. }
    rewrite Eq in *. split.
    + cbn [map concat]. now rewrite <- app_assoc.
    + cbn [map]. f_equal; [|exact Hobs].
      (* the objects made by this call are still what they were after the later calls *)
      rewrite <- app_assoc.
      assert (L : List.length (expected_args h ad ms) = List.length ms) by (unfold expected_args; now rewrite map_length).
      rewrite <- L. clear. generalize (expected_args h ad ms) as new.
      generalize (concat (map (fun ad' => expected_args h ad' ms) calls)) as later. intros later new.
      revert h. induction new as [|x new IHn]; intros h; [reflexivity|].
      cbn [List.length seq map]. f_equal.
      * unfold obj. rewrite app_nth2 by lia. rewrite Nat.sub_diag. reflexivity.
      * specialize (IHn (h ++ [x])). rewrite app_length in IHn. cbn [List.length] in IHn.
        rewrite Nat.add_1_r in IHn. rewrite <- app_assoc in IHn. cbn [app] in IHn. exact IHn.
Qed.

(* The statement used in Property.v *)
Theorem args_dict_unchanged ms calls h idss h' :
  (forall ad, In ad calls -> wf_dict h ad) ->
  history h ms calls = Some (idss, h') ->
  firstn (List.length h) h' = h /\
  map (map (obj h')) idss = map (fun ad => map (fun m => VScf (snd m) :: entry h ad (fst m)) ms) calls.
Proof.
  intros W H. destruct (history_spec ms calls h idss h' W H) as [-> Hobs]. split; [|exact Hobs].
  rewrite firstn_app, firstn_all, Nat.sub_diag. cbn [firstn]. now rewrite app_nil_r.
Qed.

(* the pure view used by the transition system (mk_cfg / process_args) is the heap view restricted to integers *)
Definition ints (l : list val) : list Z := map (fun v => match v with VInt z => z | VScf _ => 0%Z end) l.
Definition dict_view (h : heap) (d : pdict) : list (Z * list Z) := map (fun p => (fst p, ints (obj h (snd p)))) d.

Lemma lookup_view h d u : lookup (dict_view h d) u = option_map (fun r => ints (obj h r)) (plookup d u).
Proof.
  induction d as [|[u' r] d IH]; cbn; [reflexivity|]. destruct (u' =? u)%Z; [reflexivity|exact IH].
Qed.

Theorem process_args_view h d u : d <> [] ->
  process_args (Some (dict_view h d)) u = option_map (fun r => ints (obj h r)) (plookup d u) /\
  ints (entry h (Some d) u) = match plookup d u with Some r => ints (obj h r) | None => [] end.
Proof.
  intros Hd. destruct d as [|p d]; [congruence|]. split.
  - unfold process_args. change (dict_view h (p :: d)) with ((fst p, ints (obj h (snd p))) :: dict_view h d).
    rewrite <- lookup_view. reflexivity.
  - cbn [entry]. destruct (plookup (p :: d) u); reflexivity.
Qed.
