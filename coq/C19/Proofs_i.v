(* C19/Proofs_i.v — started threads are kept in a list: all of them are joined; a name-keyed map loses threads. *)
From CF Require Import Common.Bytes C19.Model.
From Coq Require Import Arith.
Open Scope nat_scope.

Lemma dict_set_fresh d u v : ~ In u (map fst d) -> dict_set d u v = d ++ [(u, v)].
Proof.
  induction d as [|[u' v'] d IH]; intros H; [reflexivity|]. cbn [dict_set map fst In] in *.
  destruct (Z.eqb_spec u' u) as [->|Hne]; [exfalso; apply H; now left|].
  rewrite IH; [reflexivity|]. intros Hin. apply H. now right.
Qed.

Lemma build_cfs_fresh : forall uris next d, NoDup uris -> (forall u, In u uris -> ~ In u (map fst d)) ->
  build_cfs uris next d = d ++ combine uris (seq next (List.length uris)).
Proof.
  induction uris as [|u uris IH]; intros next d Hnd Hfresh; cbn [build_cfs combine List.length seq].
  - now rewrite app_nil_r.
  - inversion Hnd as [|? ? Hu Hnd']; subst.
    rewrite dict_set_fresh by (apply Hfresh; now left).
    rewrite IH; [now rewrite <- app_assoc|exact Hnd'|].
    intros x Hx. rewrite map_app, in_app_iff. cbn. intros [H|[H|[]]].
    + apply (Hfresh x); [now right|exact H].
    + subst. contradiction.
Qed.

Lemma map_snd_combine {A B} (l : list A) (l' : list B) : List.length l = List.length l' -> map snd (combine l l') = l'.
Proof.
  revert l'. induction l as [|a l IH]; intros [|b l'] H; try discriminate; [reflexivity|].
  cbn. f_equal. apply IH. now injection H.
Qed.

(* the dictionary of a swarm with distinct URIs: positions and instances in the order given *)
Theorem cfs_distinct uris : NoDup uris -> cfs uris = combine uris (seq 0 (List.length uris)).
Proof. intros H. unfold cfs. rewrite build_cfs_fresh; [reflexivity|exact H|]. intros u _ []. Qed.

(* HEAD: every started thread is joined, for every URI list *)
Theorem joined_equals_started uris : joined_list uris = seq 0 (List.length uris).
Proof. reflexivity. Qed.

(* a name-keyed map is only complete when the names are distinct ... *)
Theorem joined_by_name_distinct name uris : NoDup (map name uris) -> joined_by_name name uris = seq 0 (List.length uris).
Proof.
  intros H. unfold joined_by_name. rewrite (cfs_distinct _ H). rewrite map_length.
  apply map_snd_combine. now rewrite seq_length, map_length.
Qed.

(* ... distinct URIs are not enough: two URIs with the same name, the earlier thread is never joined *)
Theorem joined_by_name_refuted :
  exists name uris, NoDup uris /\ ~ In 0 (joined_by_name name uris) /\ In 0 (joined_list uris).
Proof.
  exists (fun u => (u mod 100)%Z), [8001%Z; 10001%Z]. split.
  - constructor; [intros [H|[]]; discriminate|constructor; [intros []|constructor]].
  - split; [vm_compute; intros [H|[]]; discriminate|vm_compute; tauto].
Qed.
