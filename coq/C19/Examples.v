(* C19/Examples.v — non-vacuity: concrete reachable states meeting the hypotheses of the C19 theorems. *)
From CF Require Import Common.Bytes C19.Model C19.Proofs C19.Proofs_b.
Open Scope Z_scope.

Definition final (c : cfg) (evs : list event) : st := match run c init evs with Some s => s | None => init end.

(* three members (URI 7 given twice: one member, the later instance), members 5 and 9 fail *)
Definition c1 : cfg := mk_cfg [7; 5; 7; 9] (Some [(5, [1; 2]); (7, []); (9, [3])]) [5; 9].

Example c1_members : n c1 = 3%nat /\ map (inst c1) (seq 0 3) = [2%nat; 1%nat; 3%nat] /\ total_args c1.
Proof.
  split; [vm_compute; reflexivity|]. split; [vm_compute; reflexivity|].
  intros k Hk. change (n c1) with 3%nat in Hk.
  destruct k as [|[|[|k]]]; [vm_compute; discriminate|vm_compute; discriminate|vm_compute; discriminate|lia].
Qed.

(* thread 2 reports before thread 1; main checks after joining everybody *)
Definition evs1 : list event :=
  [MSpawn; TBegin 0; MSpawn; MSpawn; TBegin 2; TBegin 1; TFlag 2; TEnd 0; TFlag 1; TAppend 2; MJoin; TAppend 1;
   MJoin; MJoin; MCheck].

Example run1 : exists s, run c1 init evs1 = Some s /\ result s = Some (Raised (EChained 2%nat)) /\
                         errors s = [2%nat; 1%nat] /\ map snd (calls s) = [(2%nat, []); (3%nat, [3]); (1%nat, [1; 2])].
Proof. exists (final c1 evs1). split; [|split; [|split]]; vm_compute; reflexivity. Qed.

Example reach1 : exists s, reachable c1 s /\ result s = Some (Raised (EChained 2%nat)).
Proof. exists (final c1 evs1). split; [exists evs1; vm_compute; reflexivity|vm_compute; reflexivity]. Qed.

(* a state in the middle of a run: result still None, some event enabled *)
Example mid1 : exists s, reachable c1 s /\ result s = None /\ enabled c1 s = [MSpawn; TBegin 0%nat].
Proof. exists (final c1 [MSpawn]). split; [exists [MSpawn]; vm_compute; reflexivity|]. split; vm_compute; reflexivity. Qed.

(* missing entry: KeyError while threads 0 is already running *)
Definition c2 : cfg := mk_cfg [7; 5] (Some [(7, [1])]) [].
Example run2 : exists s, run c2 init [MSpawn; TBegin 0; MSpawn] = Some s /\ result s = Some (Raised (EKey 1%nat)) /\
                         all_done c2 s = false.
Proof. exists (final c2 [MSpawn; TBegin 0; MSpawn]). split; [|split]; vm_compute; reflexivity. Qed.

Example seq1 : sequential c1 = ([(2%nat, []); (1%nat, [1; 2])], Raised (EAction 1%nat)).
Proof. vm_compute. reflexivity. Qed.

(* two URIs share one list object (id 0), URI 9 has its own (id 1); the same dictionary is used three times *)
Example hist1 :
  let h := [[VInt 1; VInt 2]; [VInt 3]] in
  let d := Some [(5, 0%nat); (7, 0%nat); (9, 1%nat)] in
  wf_dict h d /\
  history_obs h [(7, 2%nat); (5, 1%nat); (9, 3%nat)] [d; d; None] =
    Some ([[[(1, 2); (0, 1); (0, 2)]; [(1, 1); (0, 1); (0, 2)]; [(1, 3); (0, 3)]];
           [[(1, 2); (0, 1); (0, 2)]; [(1, 1); (0, 1); (0, 2)]; [(1, 3); (0, 3)]];
           [[(1, 2)]; [(1, 1)]; [(1, 3)]]],
          [[(0, 1); (0, 2)]; [(0, 3)]]).
Proof.
  split; [|vm_compute; reflexivity].
  intros u r [H|[H|[H|[]]]]; injection H as <- <-; cbn; lia.
Qed.
