(* C19/Proofs_g.v — the members a swarm-wide action runs for do not depend on the per-member link state. *)
From CF Require Import Common.Bytes C19.Model C19.Proofs C19.Proofs_b.
From Coq Require Import Arith Permutation.
Open Scope nat_scope.

(* whatever happened to the links (any history of open / close / link down / link up), the run is over ALL members,
   with their own instance, arguments and action *)
Theorem members_independent_of_link_state c evs :
  let c' := restrict c (action_members c (srun evs)) in
  n c' = n c /\ forall k, k < n c -> inst c' k = inst c k /\ args c' k = args c k /\ fails c' k = fails c k.
Proof.
  cbv zeta. unfold action_members, restrict. cbn [n inst args fails]. rewrite seq_length. split; [reflexivity|].
  intros k Hk. rewrite seq_nth by exact Hk. cbn [Nat.add].
  replace (k <? n c) with true by (symmetry; now apply Nat.ltb_lt). repeat split.
Qed.

(* hence, with the earlier theorems: a finished run has called every member of the swarm exactly once *)
Theorem every_member_once_whatever_links c evs s r :
  let c' := restrict c (action_members c (srun evs)) in
  reachable c' s -> result s = Some r -> finished r ->
  Permutation (map fst (calls s)) (seq 0 (n c)) /\
  forall k cl, In (k, cl) (calls s) -> exists a, args c k = Some a /\ cl = (inst c k, a).
Proof.
  cbv zeta. intros R Hr Hf. destruct (members_independent_of_link_state c evs) as [Hn Hm]. cbv zeta in Hn, Hm.
  destruct (waits_all_and_exactly_once _ s r R Hr Hf) as [_ P]. rewrite Hn in P. split; [exact P|].
  intros k cl Hin. destruct (once_each_own_args _ s R) as [_ H]. destruct (H k cl Hin) as (Hk & a & Ha & Hc).
  rewrite Hn in Hk. destruct (Hm k Hk) as (E1 & E2 & _). exists a. rewrite <- E2, <- E1. now split.
Qed.

(* the filtered variant drops members: after open, link of member 1 down, only two of three members are run *)
Theorem filtered_members_refuted :
  exists c evs k, k < n c /\ ~ In k (action_members_filtered c (srun evs)) /\
                  n (restrict c (action_members_filtered c (srun evs))) < n c /\ In k (action_members c (srun evs)).
Proof.
  exists (mk_cfg [1%Z; 2%Z; 3%Z] None []), [SOpenOk; SLinkDown 1], 1. repeat split.
  - vm_compute. lia.
  - vm_compute. intros [H|[H|[]]]; discriminate.
  - vm_compute. lia.
  - vm_compute. tauto.
Qed.
