(* C19/Model.v — executable model of cflib/crazyflie/swarm.py:
   Swarm.__init__ (the URI -> member dictionary), sequential, parallel, parallel_safe (with
   _thread_function_wrapper, _process_args_dict and Reporter), open_links, close_links.
   A member is identified by its position in the dictionary; the action on member k either returns or
   raises "its" error (identified by k).  parallel_safe is a transition system whose events are the atomic
   actions of the main thread (spawn next thread, join next thread, inspect the reporter) and of the member
   threads (call the action, return, set the reporter flag, append to the reporter list); a schedule is any
   list of events the system accepts, so theorems over all accepted event lists cover all interleavings.
   Hand-written; tied to the code by replaying generated schedules on the real Swarm (harness/props/c19.py). *)
From CF Require Export Common.Bytes.
Open Scope Z_scope.

(* ---------------------------------------------------------------- Swarm.__init__ : self._cfs *)
(* uris as given (may repeat); factory.construct is called once per list element and returns instance
   number = position in the list.  A dict keeps the position of the first insertion of a key and the value
   of the last one. *)
Fixpoint dict_set (d : list (Z * nat)) (u : Z) (v : nat) : list (Z * nat) :=
  match d with
  | [] => [(u, v)]
  | (u', v') :: r => if u' =? u then (u', v) :: r else (u', v') :: dict_set r u v
  end.

Fixpoint build_cfs (uris : list Z) (next : nat) (d : list (Z * nat)) : list (Z * nat) :=
  match uris with
  | [] => d
  | u :: r => build_cfs r (S next) (dict_set d u next)
  end.

Definition cfs (uris : list Z) : list (Z * nat) := build_cfs uris 0 [].

(* args_dict: None, or a dictionary uri -> argument list.  An empty dictionary is falsy in Python. *)
Definition argdict := option (list (Z * list Z)).

Fixpoint lookup (d : list (Z * list Z)) (u : Z) : option (list Z) :=
  match d with
  | [] => None
  | (u', a) :: r => if u' =? u then Some a else lookup r u
  end.

(* _process_args_dict: Some args (without the leading scf) or None = KeyError *)
Definition process_args (ad : argdict) (u : Z) : option (list Z) :=
  match ad with
  | None => Some []
  | Some [] => Some []
  | Some d => lookup d u
  end.

(* ---------------------------------------------------------------- configuration of one swarm-wide action *)
Record cfg := {
  n : nat;                          (* number of members *)
  inst : nat -> nat;                (* member k -> instance passed as first argument *)
  args : nat -> option (list Z);    (* member k -> its extra arguments; None = KeyError *)
  fails : nat -> bool               (* does the action raise on member k *)
}.

Definition mk_cfg (uris : list Z) (ad : argdict) (failing : list Z) : cfg :=
  let d := cfs uris in
  {| n := List.length d;
     inst := fun k => snd (nth k d (0, O));
     args := fun k => if Nat.ltb k (List.length d) then process_args ad (fst (nth k d (0, O))) else None;
     fails := fun k => existsb (Z.eqb (fst (nth k d (0, O)))) failing |}.

Inductive err :=
| EKey (k : nat)          (* KeyError from args_dict[uri] of member k, raised in the calling thread *)
| EAction (k : nat)       (* the error raised by the action on member k, propagating unchanged *)
| EChained (k : nat)      (* Exception('One or more threads raised ...') from <error of member k> *)
| EIndex                  (* IndexError from errors[0] (flag set, list still empty) *)
| EAlreadyOpen.
Inductive outcome := Returned | Raised (e : err).

Definition call := (nat * list Z)%type.     (* instance, extra arguments *)

(* ---------------------------------------------------------------- sequential *)
Fixpoint seq_from (c : cfg) (k : nat) (fuel : nat) (log : list call) : list call * outcome :=
  match fuel with
  | O => (log, Returned)
  | S f =>
      match args c k with
      | None => (log, Raised (EKey k))
      | Some a =>
          let log' := log ++ [(inst c k, a)] in
          if fails c k then (log', Raised (EAction k)) else seq_from c (S k) f log'
      end
  end.
Definition sequential (c : cfg) : list call * outcome := seq_from c 0 (n c) [].

(* ---------------------------------------------------------------- parallel_safe as a transition system *)
Inductive tstate := TNot | TReady | TRun | TFlagged | TDone.
Inductive event :=
| MSpawn                   (* main: _process_args_dict for the next member, Thread(...).start() *)
| MJoin                    (* main: join() of the next thread returns *)
| MCheck                   (* main: reporter.is_error_reported() / errors[0] / raise or return *)
| TBegin (k : nat)         (* thread k: _thread_function_wrapper calls func(scf, *args) *)
| TEnd (k : nat)           (* thread k: func returned normally; thread finishes *)
| TFlag (k : nat)          (* thread k: func raised; reporter.error_reported = True *)
| TAppend (k : nat).       (* thread k: reporter._errors.append(e); thread finishes *)

Record st := {
  spawned : nat;
  joined : nat;
  ts : nat -> tstate;
  flag : bool;
  errors : list nat;
  calls : list (nat * call);        (* (member, call) in the order the calls were made *)
  result : option outcome
}.

Definition init : st :=
  {| spawned := 0; joined := 0; ts := fun _ => TNot; flag := false; errors := []; calls := []; result := None |}.

Definition upd (f : nat -> tstate) (k : nat) (v : tstate) : nat -> tstate :=
  fun j => if Nat.eqb j k then v else f j.

Definition tstate_eqb (a b : tstate) : bool :=
  match a, b with
  | TNot, TNot | TReady, TReady | TRun, TRun | TFlagged, TFlagged | TDone, TDone => true
  | _, _ => false
  end.

Definition is_none {A} (o : option A) : bool := match o with None => true | Some _ => false end.

Definition step (c : cfg) (s : st) (e : event) : option st :=
  match e with
  | MSpawn =>
      if is_none (result s) && Nat.ltb (spawned s) (n c) then
        match args c (spawned s) with
        | None => Some {| spawned := spawned s; joined := joined s; ts := ts s; flag := flag s; errors := errors s;
                          calls := calls s; result := Some (Raised (EKey (spawned s))) |}
        | Some _ => Some {| spawned := S (spawned s); joined := joined s; ts := upd (ts s) (spawned s) TReady;
                            flag := flag s; errors := errors s; calls := calls s; result := None |}
        end
      else None
  | TBegin k =>
      if tstate_eqb (ts s k) TReady then
        match args c k with
        | Some a => Some {| spawned := spawned s; joined := joined s; ts := upd (ts s) k TRun; flag := flag s;
                            errors := errors s; calls := calls s ++ [(k, (inst c k, a))]; result := result s |}
        | None => None
        end
      else None
  | TEnd k =>
      if tstate_eqb (ts s k) TRun && negb (fails c k) then
        Some {| spawned := spawned s; joined := joined s; ts := upd (ts s) k TDone; flag := flag s;
                errors := errors s; calls := calls s; result := result s |}
      else None
  | TFlag k =>
      if tstate_eqb (ts s k) TRun && fails c k then
        Some {| spawned := spawned s; joined := joined s; ts := upd (ts s) k TFlagged; flag := true;
                errors := errors s; calls := calls s; result := result s |}
      else None
  | TAppend k =>
      if tstate_eqb (ts s k) TFlagged then
        Some {| spawned := spawned s; joined := joined s; ts := upd (ts s) k TDone; flag := flag s;
                errors := errors s ++ [k]; calls := calls s; result := result s |}
      else None
  | MJoin =>
      if is_none (result s) && Nat.eqb (spawned s) (n c) && Nat.ltb (joined s) (n c)
         && tstate_eqb (ts s (joined s)) TDone then
        Some {| spawned := spawned s; joined := S (joined s); ts := ts s; flag := flag s; errors := errors s;
                calls := calls s; result := None |}
      else None
  | MCheck =>
      if is_none (result s) && Nat.eqb (spawned s) (n c) && Nat.eqb (joined s) (n c) then
        Some {| spawned := spawned s; joined := joined s; ts := ts s; flag := flag s; errors := errors s;
                calls := calls s;
                result := Some (if flag s then match errors s with
                                               | e :: _ => Raised (EChained e)
                                               | [] => Raised EIndex
                                               end
                                else Returned) |}
      else None
  end.

Fixpoint run (c : cfg) (s : st) (evs : list event) : option st :=
  match evs with
  | [] => Some s
  | e :: r => match step c s e with Some s' => run c s' r | None => None end
  end.

(* every event that could happen next *)
Definition all_events (c : cfg) : list event :=
  [MSpawn; MJoin; MCheck] ++
  flat_map (fun k => [TBegin k; TEnd k; TFlag k; TAppend k]) (seq 0 (n c)).
Definition enabled (c : cfg) (s : st) : list event :=
  filter (fun e => negb (is_none (step c s e))) (all_events c).

Definition all_done (c : cfg) (s : st) : bool :=
  forallb (fun k => tstate_eqb (ts s k) TDone) (seq 0 (n c)).

(* parallel: try: parallel_safe(...) except Exception: pass *)
Definition parallel_outcome (r : outcome) : outcome := Returned.

(* ---------------------------------------------------------------- open_links / close_links *)
(* open_links on a swarm whose _is_open flag is `is_open`; `r` is the outcome of the parallel_safe run of
   scf.open_link() over the members (None when it is not even started).
   Result: outcome, new _is_open, members whose close_link() was called (in order). *)
Definition open_links (c : cfg) (is_open : bool) (r : outcome) : outcome * bool * list nat :=
  if is_open then (Raised EAlreadyOpen, true, [])
  else match r with
       | Returned => (Returned, true, [])
       | Raised e => (Raised e, false, map (inst c) (seq 0 (n c)))
       end.
Definition open_links_runs_parallel (is_open : bool) : bool := negb is_open.

Definition close_links (c : cfg) : bool * list nat := (false, map (inst c) (seq 0 (n c))).

(* ---------------------------------------------------------------- observables compared with the implementation *)
Definition obs (c : cfg) (o : option st) :=
  match o with
  | None => None
  | Some s => Some (map snd (calls s), result s, all_done c s, errors s, flag s)
  end.

(* ---------------------------------------------------------------- _process_args_dict on the caller's objects *)
(* The argument dictionary belongs to the caller and is typically reused for several swarm-wide actions; two
   URIs may even share one list object.  Here Python objects are modelled: a heap of list objects (object id =
   position), the dictionary maps URIs to object ids, list elements are integers or member connections.
       args = [scf]                  -- a new list object
       if args_dict: args += args_dict[uri]      -- extends the NEW object in place, reads the caller's one
   Tuples behave like lists here (only read). *)
Inductive val := VInt (z : Z) | VScf (i : nat).
Definition heap := list (list val).
Definition pdict := list (Z * nat).

Fixpoint plookup (d : pdict) (u : Z) : option nat :=
  match d with
  | [] => None
  | (u', r) :: t => if u' =? u then Some r else plookup t u
  end.

Definition obj (h : heap) (r : nat) : list val := nth r h [].
Definition set_obj (h : heap) (a : nat) (v : list val) : heap := firstn a h ++ v :: skipn (S a) h.

(* Some (object id of the argument list handed to Thread/func, heap afterwards); None = KeyError *)
Definition process_args_heap (h : heap) (ad : option pdict) (scf : nat) (u : Z) : option (nat * heap) :=
  let a := List.length h in
  let h1 := h ++ [[VScf scf]] in
  match ad with
  | None => Some (a, h1)
  | Some [] => Some (a, h1)
  | Some d => match plookup d u with
              | None => None
              | Some r => Some (a, set_obj h1 a (obj h1 a ++ obj h1 r))
              end
  end.

(* one swarm-wide action: the calling thread prepares the arguments member by member, in dictionary order
   (sequential, parallel_safe and therefore parallel / open_links all do) *)
Fixpoint call_args (h : heap) (ad : option pdict) (ms : list (Z * nat)) : option (list nat * heap) :=
  match ms with
  | [] => Some ([], h)
  | (u, i) :: r =>
      match process_args_heap h ad i u with
      | None => None
      | Some (a, h') => match call_args h' ad r with
                        | None => None
                        | Some (ids, h'') => Some (a :: ids, h'')
                        end
      end
  end.

(* a history of swarm-wide actions on one swarm, each with some argument dictionary (possibly the same one) *)
Fixpoint history (h : heap) (ms : list (Z * nat)) (calls : list (option pdict)) : option (list (list nat) * heap) :=
  match calls with
  | [] => Some ([], h)
  | ad :: r =>
      match call_args h ad ms with
      | None => None
      | Some (ids, h') => match history h' ms r with
                          | None => None
                          | Some (idss, h'') => Some (ids :: idss, h'')
                          end
      end
  end.

(* what the member with URI u must get after its connection: the caller's entry as it is in heap h *)
Definition entry (h : heap) (ad : option pdict) (u : Z) : list val :=
  match ad with
  | None => []
  | Some [] => []
  | Some d => match plookup d u with Some r => obj h r | None => [] end
  end.

Definition wf_dict (h : heap) (ad : option pdict) : Prop :=
  match ad with None => True | Some d => forall u r, In (u, r) d -> (r < List.length h)%nat end.

(* observables for the correspondence: argument lists per call and member; the caller's objects afterwards *)
Definition enc_val (v : val) : Z * Z := match v with VInt z => (0, z) | VScf i => (1, Z.of_nat i) end.
Definition history_obs (h : heap) (ms : list (Z * nat)) (calls : list (option pdict)) :=
  match history h ms calls with
  | None => None
  | Some (idss, h') => Some (map (map (fun a => map enc_val (obj h' a))) idss,
                             map (map enc_val) (firstn (List.length h) h'))
  end.

(* ---------------------------------------------------------------- several runs in one process *)
(* Error objects have process-wide unique ids.  A run of parallel_safe creates its own Reporter
   (`reporter = self.Reporter()`, whose __init__ gives it its own flag and its own list); the member threads
   report their errors into it; the caller then raises chained from errors[0] iff the flag is set. *)
Definition reporter := (bool * list nat)%type.
Definition fresh_reporter : reporter := (false, []).
Definition report_error (r : reporter) (e : nat) : reporter := (true, snd r ++ [e]).
Definition run_with (r0 : reporter) (errs : list nat) : option nat :=
  let r := fold_left report_error errs r0 in
  if fst r then hd_error (snd r) else None.

Inductive rkind := KSafe | KPar | KSeq.     (* parallel_safe / open_links; parallel; sequential *)
(* the error object the caller gets (as __cause__ for KSafe, as the exception itself for KSeq), None = no exception;
   errs = the error objects raised by the actions of THIS run, in reporting (KSeq: member) order *)
Definition proc_run (r0 : reporter) (k : rkind) (errs : list nat) : option nat :=
  match k with
  | KSafe => run_with r0 errs
  | KPar => None
  | KSeq => hd_error errs
  end.

Definition process_fresh (runs : list (rkind * list nat)) : list (option nat) :=
  map (fun r => proc_run fresh_reporter (fst r) (snd r)) runs.

(* what would happen if the error list were one object shared by all Reporters (flag still per run) *)
Fixpoint process_shared (shared : list nat) (runs : list (rkind * list nat)) : list (option nat) :=
  match runs with
  | [] => []
  | (k, errs) :: t =>
      proc_run (false, shared) k errs ::
      process_shared (match k with KSeq => shared | _ => shared ++ errs end) t
  end.

(* the transition system started with a reporter list that already holds stale errors *)
Definition init_shared (stale : list nat) : st :=
  {| spawned := 0; joined := 0; ts := fun _ => TNot; flag := false; errors := stale; calls := []; result := None |}.

(* ---------------------------------------------------------------- close_link that raises; with-block; helpers *)
(* The code as it is: close_links stops at the first member whose close_link() raises (that error propagates, the
   remaining members are not closed, _is_open keeps its value); in open_links' except path such an error replaces
   the open failure.  A raising close_link() is outside the property text (C19 quantifies over failing actions and
   link openings); the theorems about closing carry the premise `no_close_raises`. *)
Inductive wres :=
| WOk
| WOpenFailed (e : err)        (* what open_links raised *)
| WBody (b : nat)              (* the exception raised by the body of the with-block *)
| WClose (k : nat).            (* the error raised by close_link() of member k *)

Definition no_close_raises (c : cfg) (close_fails : nat -> bool) : bool :=
  forallb (fun k => negb (close_fails k)) (seq 0 (n c)).

(* the loop of close_links: members closed (in order) up to and including the first raising one *)
Fixpoint close_until (c : cfg) (close_fails : nat -> bool) (ks : list nat) : option nat * list nat :=
  match ks with
  | [] => (None, [])
  | k :: r => if close_fails k then (Some k, [inst c k])
              else let '(o, l) := close_until c close_fails r in (o, inst c k :: l)
  end.

(* close_links: outcome, _is_open afterwards, members whose close_link() was called (in order) *)
Definition close_links_f (c : cfg) (is_open : bool) (close_fails : nat -> bool) : wres * bool * list nat :=
  match close_until c close_fails (seq 0 (n c)) with
  | (Some k, l) => (WClose k, is_open, l)
  | (None, l) => (WOk, false, l)
  end.

(* open_links, r = outcome of the parallel_safe run over open_link() *)
Definition open_links_f (c : cfg) (is_open : bool) (r : outcome) (close_fails : nat -> bool) : wres * bool * list nat :=
  if is_open then (WOpenFailed EAlreadyOpen, true, [])
  else match r with
       | Returned => (WOk, true, [])
       | Raised e =>
           match close_links_f c false close_fails with
           | (WClose k, o, l) => (WClose k, o, l)          (* the close error replaces the open failure *)
           | (_, o, l) => (WOpenFailed e, o, l)
           end
       end.

(* with Swarm(...) as swarm: body   — result, did the body run, _is_open afterwards, close_link() calls *)
Definition with_swarm (c : cfg) (r : outcome) (body : option nat) (close_fails : nat -> bool)
  : wres * bool * bool * list nat :=
  match open_links_f c false r close_fails with
  | (WOk, _, _) =>
      let '(cr, o, cl) := close_links_f c true close_fails in
      (match cr with WClose k => WClose k | _ => match body with Some b => WBody b | None => WOk end end,
       true, o, cl)
  | (w, o, cl) => (w, false, o, cl)
  end.

(* get_estimated_positions: the action on member k reads log entries of 'stateEstimate' until the first one and
   stores it under the member's link URI; an empty stream (disconnect before the first sample) stores nothing.
   `ok k` = the action of member k was run to its end without raising. *)
Definition pos := (Z * Z * Z)%type.
Definition positions_after (c : cfg) (uri : nat -> Z) (streams : nat -> list pos) (ok : nat -> bool)
           (old : Z -> option pos) : Z -> option pos :=
  fun u => match find (fun k => (uri k =? u) && ok k) (seq 0 (n c)) with
           | Some k => match streams k with p :: _ => Some p | [] => old u end
           | None => old u
           end.

(* reset_estimators: per member  param 'kalman.resetEstimation' := '1'; sleep 0.1; := '0'; then wait until the
   last ten samples of each variance differ by less than 0.001 (histories start as ten times 1000).
   Samples are integers here (the harness feeds integer-valued floats), so "< 0.001" is "(max-min)*1000 < 1". *)
Inductive pcall := PSet (v : Z) | PSleep100ms.
Definition reset_param_calls : list pcall := [PSet 1; PSleep100ms; PSet 0].

Definition push (w : list Z) (v : Z) : list Z := tl w ++ [v].
Definition maxl (w : list Z) : Z := fold_left Z.max w (hd 0 w).
Definition minl (w : list Z) : Z := fold_left Z.min w (hd 0 w).
Definition stable (w : list Z) : bool := (maxl w - minl w) * 1000 <? 1.
Definition hist0 : list Z := repeat 1000 10.

(* entries consumed, and whether the loop ended by the break (true) or by the end of the stream (false) *)
Fixpoint wait_loop (hx hy hz : list Z) (stream : list pos) (consumed : nat) : nat * bool :=
  match stream with
  | [] => (consumed, false)
  | (x, y, z) :: r =>
      let hx' := push hx x in let hy' := push hy y in let hz' := push hz z in
      if stable hx' && stable hy' && stable hz' then (S consumed, true)
      else wait_loop hx' hy' hz' r (S consumed)
  end.
Definition wait_for_position_estimator (stream : list pos) : nat * bool := wait_loop hist0 hist0 hist0 stream 0.

(* ---------------------------------------------------------------- per-member link state (Wave 12) *)
(* After open_links a member's link can go down on its own (Crazyflie.disconnected, or the member is closed
   individually) while the swarm stays open.  The swarm state carries _is_open and a per-member link flag; the
   runners iterate self._cfs.items() and never consult either: `action_members`.  `restrict c ms` is the
   configuration of the run over the member list ms (what the transition system / sequential are run on). *)
Inductive sev := SOpenOk | SCloseAll | SLinkDown (k : nat) | SLinkUp (k : nat).
Definition sstate := (bool * (nat -> bool))%type.
Definition sstate0 : sstate := (false, fun _ => false).
Definition set_flag (f : nat -> bool) (k : nat) (v : bool) : nat -> bool := fun j => if Nat.eqb j k then v else f j.
Definition sstep (s : sstate) (e : sev) : sstate :=
  match e with
  | SOpenOk => (true, fun _ => true)
  | SCloseAll => (false, fun _ => false)
  | SLinkDown k => (fst s, set_flag (snd s) k false)
  | SLinkUp k => (fst s, set_flag (snd s) k true)
  end.
Definition srun (evs : list sev) : sstate := fold_left sstep evs sstate0.

Definition action_members (c : cfg) (s : sstate) : list nat := seq 0 (n c).
(* the variant that leaves out members whose link is down once the swarm is open *)
Definition action_members_filtered (c : cfg) (s : sstate) : list nat :=
  if fst s then filter (snd s) (seq 0 (n c)) else seq 0 (n c).

Definition restrict (c : cfg) (ms : list nat) : cfg :=
  {| n := List.length ms;
     inst := fun k => inst c (nth k ms O);
     args := fun k => if Nat.ltb k (List.length ms) then args c (nth k ms O) else None;
     fails := fun k => fails c (nth k ms O) |}.

(* ---------------------------------------------------------------- errors with a cause link (Wave 13) *)
(* An action may fail with an explicitly chained error (`raise Outer(...) from inner`): error objects have ids and an
   optional __cause__ link.  _thread_function_wrapper reports the exception object it caught (`report_id`); the variant
   that follows __cause__ to its end reports `root_cause`. *)
Fixpoint root_cause (cause : nat -> option nat) (fuel : nat) (e : nat) : nat :=
  match fuel with
  | O => e
  | S f => match cause e with Some c => root_cause cause f c | None => e end
  end.
Definition report_id (cause : nat -> option nat) (e : nat) : nat := e.
(* what parallel_safe hands the caller when the raised errors are errs (reporting order) and each is reported as f e *)
Definition run_reporting (f : nat -> nat) (errs : list nat) : option nat := run_with fresh_reporter (map f errs).

(* ---------------------------------------------------------------- bookkeeping of the started threads (Wave 14) *)
(* parallel_safe keeps the threads it started in a LIST and joins every element: thread ids 0..n-1 in start order.
   The variant that keeps them in a dict keyed by a name derived from the URI joins `map snd (cfs names)`: the last
   thread of every name (a later thread with the same name replaces the earlier one). *)
Definition joined_list (uris : list Z) : list nat := seq 0 (List.length uris).
Definition joined_by_name (name : Z -> Z) (uris : list Z) : list nat := map snd (cfs (map name uris)).

(* ---------------------------------------------------------------- the per-member action of open_links (Wave 16) *)
(* open_links runs `lambda scf: scf.open_link()` per member: the member thread ends when open_link() returns or raises
   (TEnd / TFlag in the transition system become enabled).  The variant that also waits for the parameter download
   (`scf.wait_for_params()`) ends only if that download completes — it never does on a link that dropped between
   `connected` and `fully_connected`. *)
Definition member_open_ends (open_link_ends params_complete : bool) : bool := open_link_ends.
Definition member_open_waiting_ends (open_link_ends params_complete : bool) : bool := open_link_ends && params_complete.

(* ---------------------------------------------------------------- close_link return values (Wave 17) *)
(* close_links calls cf.close_link() on every member and ignores what it returns (None for SyncCrazyflie).  `ret k` is
   what member k's close_link() would return (Some false = "there was no open link").  The variant accumulates
   `all_were_open = all_were_open and cf.close_link() is not False`: after the first False no later member is closed. *)
Definition close_calls_head (c : cfg) (ret : nat -> option bool) : list nat := seq 0 (n c).
Fixpoint close_calls_sc (ret : nat -> option bool) (ks : list nat) (all_open : bool) : list nat :=
  match ks with
  | [] => []
  | k :: r => if all_open
              then k :: close_calls_sc ret r (match ret k with Some false => false | _ => true end)
              else close_calls_sc ret r false
  end.
Definition close_calls_shortcircuit (c : cfg) (ret : nat -> option bool) : list nat := close_calls_sc ret (seq 0 (n c)) true.
(* is member k's link open afterwards, given which links were open before and which members were closed *)
Definition link_open_after (open_before : nat -> bool) (closed : list nat) (k : nat) : bool :=
  open_before k && negb (existsb (Nat.eqb k) closed).
