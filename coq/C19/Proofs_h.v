(* C19/Proofs_h.v — the error chained by parallel_safe is one of the error OBJECTS the actions raised, whatever cause
   links those objects carry. *)
From CF Require Import Common.Bytes C19.Model C19.Proofs_e.
From Coq Require Import Arith.
Open Scope nat_scope.

Theorem reported_error_is_raised cause errs :
  (forall e, run_reporting (report_id cause) errs = Some e -> In e errs) /\
  (run_reporting (report_id cause) errs = None <-> errs = []).
Proof.
  unfold run_reporting, report_id. rewrite map_id, run_with_fresh. split.
  - intros e H. destruct errs; [discriminate|injection H as <-; now left].
  - destruct errs; split; intros H; try reflexivity; discriminate.
Qed.

(* reporting the root cause instead: as soon as the first raised error has a cause that no action raised, the error
   handed to the caller is not one of the raised errors *)
Theorem root_cause_variant_not_raised cause fuel e c rest :
  cause e = Some c -> cause c = None -> ~ In c (e :: rest) -> fuel >= 1 ->
  exists r, run_reporting (root_cause cause fuel) (e :: rest) = Some r /\ ~ In r (e :: rest).
Proof.
  intros Hc Hn Hnot Hf. unfold run_reporting. rewrite run_with_fresh. cbn [map hd_error].
  exists (root_cause cause fuel e). split; [reflexivity|].
  destruct fuel as [|f]; [lia|]. cbn [root_cause]. rewrite Hc.
  destruct f as [|f']; cbn [root_cause]; [exact Hnot|]. rewrite Hn. exact Hnot.
Qed.

Theorem root_cause_variant_refuted :
  exists cause errs r, run_reporting (root_cause cause 3) errs = Some r /\ ~ In r errs /\
                       run_reporting (report_id cause) errs = Some 1 /\ In 1 errs.
Proof.
  exists (fun e => if Nat.eqb e 1 then Some 7 else None), [1; 2], 7. repeat split.
  - intros [H|[H|[]]]; discriminate.
  - now left.
Qed.
