(* C19/Proofs_b.v — what the invariant gives: the clauses of C19 over all schedules. *)
From CF Require Import Common.Bytes C19.Model C19.Proofs.
From Coq Require Import ZifyBool Arith Permutation.
Open Scope nat_scope.

Lemma run_inv c evs : forall s s', inv c s -> run c s evs = Some s' -> inv c s'.
Proof.
  induction evs as [|e evs IH]; intros s s' I H; cbn [run] in H.
  - now injection H as <-.
  - destruct (step c s e) as [s1|] eqn:E; [|discriminate]. eapply IH; [|exact H]. eapply step_inv; eassumption.
Qed.

Definition reachable (c : cfg) (s : st) : Prop := exists evs, run c init evs = Some s.

Lemma reachable_inv c s : reachable c s -> inv c s.
Proof. intros [evs H]. eapply run_inv; [apply inv_init|exact H]. Qed.

Definition total_args (c : cfg) : Prop := forall k, k < n c -> args c k <> None.
Definition finished (r : outcome) : Prop := match r with Raised (EKey _) => False | _ => True end.

(* every call that is ever made: a member of the swarm, its own instance, its own arguments; never twice *)
Theorem once_each_own_args c s : reachable c s ->
  NoDup (map fst (calls s)) /\
  forall k cl, In (k, cl) (calls s) -> k < n c /\ exists a, args c k = Some a /\ cl = (inst c k, a).
Proof.
  intros R. apply reachable_inv in R. split; [apply (i_calls_nodup c s R)|].
  intros k cl Hin. split; [|now apply (i_calls_args c s R)].
  assert (Hk : In k (map fst (calls s))) by (apply in_map_iff; now exists (k, cl)).
  apply (i_calls_in c s R) in Hk.
  destruct (Nat.lt_ge_cases k (n c)) as [L|L]; [exact L|].
  rewrite (i_not c s R) in Hk; [discriminate|]. pose proof (i_sp c s R). lia.
Qed.

(* when parallel_safe has returned or raised its report, every member thread has finished and every member has
   been called exactly once *)
Theorem waits_all_and_exactly_once c s r : reachable c s -> result s = Some r -> finished r ->
  (forall k, k < n c -> ts s k = TDone) /\ Permutation (map fst (calls s)) (seq 0 (n c)).
Proof.
  intros R Hr Hf. apply reachable_inv in R.
  assert (D : forall k, k < n c -> ts s k = TDone).
  { pose proof (i_res c s R) as Q. unfold res_ok in Q. rewrite Hr in Q.
    destruct r as [|[]]; cbn in Hf; try contradiction.
    - intros k Hk. now apply Q.
    - destruct Q as [Q _]. exact Q. }
  split; [exact D|].
  apply NoDup_Permutation; [apply (i_calls_nodup c s R)|apply seq_NoDup|].
  intros k. rewrite (i_calls_in c s R), in_seq. split.
  - intros H. destruct (Nat.lt_ge_cases k (n c)) as [L|L]; [lia|].
    rewrite (i_not c s R) in H; [discriminate|]. pose proof (i_sp c s R). lia.
  - intros [_ H]. now rewrite D.
Qed.

(* the result: normal return iff nobody failed; otherwise the report chained from the error of a member that did
   fail, namely the first one that reported; a KeyError only for a member without entry; nothing else *)
Theorem result_cases c s r : reachable c s -> result s = Some r ->
  match r with
  | Returned => forall k, k < n c -> fails c k = false
  | Raised (EChained e) => e < n c /\ fails c e = true /\ hd_error (errors s) = Some e
  | Raised (EKey k) => k < n c /\ args c k = None
  | Raised _ => False
  end.
Proof.
  intros R Hr. apply reachable_inv in R. pose proof (i_res c s R) as Q. unfold res_ok in Q. rewrite Hr in Q.
  destruct r as [|[]]; try exact Q.
  - intros k Hk. now apply Q.
  - tauto.
  - tauto.
Qed.

Theorem raises_iff_some_failed c s r : reachable c s -> result s = Some r -> total_args c ->
  (r = Returned <-> forall k, k < n c -> fails c k = false) /\
  (r <> Returned -> exists e, r = Raised (EChained e) /\ e < n c /\ fails c e = true /\ hd_error (errors s) = Some e).
Proof.
  intros R Hr T. pose proof (result_cases c s r R Hr) as Q.
  destruct r as [|[k|k|e| |]]; try contradiction.
  - split; [tauto|congruence].
  - destruct Q as [Hk Ha]. now destruct (T k Hk).
  - destruct Q as (He & Fe & Hh). split.
    + split; [discriminate|]. intros H. rewrite (H e He) in Fe. discriminate.
    + intros _. exists e. tauto.
Qed.

Theorem parallel_never_raises r : parallel_outcome r = Returned.
Proof. reflexivity. Qed.

(* no deadlock: until the main thread has its result some event can happen *)
Theorem progress c s : reachable c s -> total_args c -> result s = None -> exists e s', step c s e = Some s'.
Proof.
  intros R T Hr. apply reachable_inv in R.
  destruct (Nat.lt_ge_cases (spawned s) (n c)) as [L|L].
  - exists MSpawn. cbn [step]. rewrite Hr. cbn [is_none andb].
    replace (spawned s <? n c) with true by (symmetry; now apply Nat.ltb_lt).
    destruct (args c (spawned s)) eqn:E; [eexists; reflexivity|]. now destruct (T _ L).
  - assert (Sp : spawned s = n c) by (pose proof (i_sp c s R); lia).
    destruct (Nat.lt_ge_cases (joined s) (n c)) as [J|J].
    + destruct (ts s (joined s)) eqn:E.
      * exfalso. apply (i_live c s R (joined s)); [lia|exact E].
      * exists (TBegin (joined s)). cbn [step]. rewrite E. cbn.
        destruct (args c (joined s)) eqn:Ea; [eexists; reflexivity|]. now destruct (T _ J).
      * destruct (fails c (joined s)) eqn:F.
        -- exists (TFlag (joined s)). cbn [step]. rewrite E, F. cbn. eexists; reflexivity.
        -- exists (TEnd (joined s)). cbn [step]. rewrite E, F. cbn. eexists; reflexivity.
      * exists (TAppend (joined s)). cbn [step]. rewrite E. cbn. eexists; reflexivity.
      * exists MJoin. cbn [step]. rewrite Hr, Sp, E, Nat.eqb_refl.
        replace (joined s <? n c) with true by (symmetry; now apply Nat.ltb_lt).
        cbn [is_none andb tstate_eqb]. eexists; reflexivity.
    + assert (Jn : joined s = n c) by (pose proof (i_jn2 c s R); lia).
      exists MCheck. cbn [step]. rewrite Hr, Sp, Jn, Nat.eqb_refl. cbn [is_none andb]. eexists; reflexivity.
Qed.

(* ---------------------------------------------------------------- sequential *)
Definition call_of (c : cfg) (k : nat) : call :=
  (inst c k, match args c k with Some a => a | None => [] end).

Lemma seq_from_spec c : forall fuel k log,
  exists m, m <= fuel /\
    fst (seq_from c k fuel log) = log ++ map (call_of c) (seq k m) /\
    match snd (seq_from c k fuel log) with
    | Returned => m = fuel /\ forall j, k <= j < k + fuel -> fails c j = false /\ args c j <> None
    | Raised (EAction j) => m = S (j - k) /\ k <= j < k + fuel /\ fails c j = true /\ args c j <> None /\
                            forall i, k <= i < j -> fails c i = false /\ args c i <> None
    | Raised (EKey j) => m = j - k /\ k <= j < k + fuel /\ args c j = None /\
                         forall i, k <= i < j -> fails c i = false /\ args c i <> None
    | Raised _ => False
    end.
Proof.
  induction fuel as [|f IH]; intros k log; cbn [seq_from].
  - exists 0. cbn. rewrite app_nil_r. repeat split; try lia; intros; lia.
  - destruct (args c k) as [a|] eqn:Ea.
    + destruct (fails c k) eqn:Fk.
      * exists 1. cbn [fst snd seq map]. unfold call_of at 1. rewrite Ea.
        repeat split; try lia; try assumption; try congruence; intros; lia.
      * destruct (IH (S k) (log ++ [(inst c k, a)])) as (m & Hm & Hc & Ho).
        exists (S m). split; [lia|]. split.
        -- rewrite Hc, <- app_assoc. cbn [seq map app]. unfold call_of at 2. now rewrite Ea.
        -- destruct (snd (seq_from c (S k) f (log ++ [(inst c k, a)]))) as [|[j|j|j| |]]; try contradiction.
           ++ destruct Ho as [-> Ho]. split; [reflexivity|]. intros j Hj.
              destruct (Nat.eq_dec j k) as [->|Hne]; [split; congruence|]. apply Ho. lia.
           ++ destruct Ho as (-> & Hj & Aj & Hp).
              split; [lia|]. split; [lia|]. split; [assumption|].
              intros i Hi. destruct (Nat.eq_dec i k) as [->|Hne]; [split; congruence|apply Hp; lia].
           ++ destruct Ho as (-> & Hj & Fj & Aj & Hp).
              split; [lia|]. split; [lia|]. split; [assumption|]. split; [assumption|].
              intros i Hi. destruct (Nat.eq_dec i k) as [->|Hne]; [split; congruence|apply Hp; lia].
    + exists 0. cbn [fst snd seq map]. rewrite app_nil_r. repeat split; try lia; try assumption; intros; lia.
Qed.

(* sequential: the members 0..m-1 in dictionary order, one call each with own instance and arguments, stopping at
   the first member whose action raises (its error propagates) or whose entry is missing *)
Theorem sequential_in_order c :
  exists m, m <= n c /\ fst (sequential c) = map (call_of c) (seq 0 m) /\
    match snd (sequential c) with
    | Returned => m = n c /\ forall j, j < n c -> fails c j = false /\ args c j <> None
    | Raised (EAction j) => m = S j /\ j < n c /\ fails c j = true /\ forall i, i < j -> fails c i = false /\ args c i <> None
    | Raised (EKey j) => m = j /\ j < n c /\ args c j = None /\ forall i, i < j -> fails c i = false /\ args c i <> None
    | Raised _ => False
    end.
Proof.
  unfold sequential. destruct (seq_from_spec c (n c) 0 []) as (m & Hm & Hc & Ho).
  exists m. split; [exact Hm|]. split; [exact Hc|].
  destruct (snd (seq_from c 0 (n c) [])) as [|[j|j|j| |]]; try contradiction.
  - destruct Ho as [-> Ho]. split; [reflexivity|]. intros j Hj. apply Ho. lia.
  - destruct Ho as (-> & Hj & Aj & Hp). repeat split; try lia; try assumption; apply Hp; lia.
  - destruct Ho as (-> & Hj & Fj & Aj & Hp). repeat split; try lia; try assumption; apply Hp; lia.
Qed.

(* ---------------------------------------------------------------- open_links *)
Theorem open_failure_closes_all_and_raises c s r : reachable c s -> result s = Some r -> total_args c ->
  (exists k, k < n c /\ fails c k = true) ->
  exists e, r = Raised (EChained e) /\ e < n c /\ fails c e = true /\
            open_links c false r = (Raised (EChained e), false, map (inst c) (seq 0 (n c))) /\
            (forall k, k < n c -> ts s k = TDone) /\ Permutation (map fst (calls s)) (seq 0 (n c)).
Proof.
  intros R Hr T (k & Hk & Fk).
  destruct (raises_iff_some_failed c s r R Hr T) as [Q1 Q2].
  assert (Hne : r <> Returned).
  { intros ->. destruct Q1 as [Q1 _]. rewrite (Q1 eq_refl k Hk) in Fk. discriminate. }
  destruct (Q2 Hne) as (e & -> & He & Fe & _).
  exists e. repeat split; try assumption; apply (waits_all_and_exactly_once c s _ R Hr Logic.I).
Qed.

Theorem open_success c s r : reachable c s -> result s = Some r -> total_args c ->
  (forall k, k < n c -> fails c k = false) ->
  r = Returned /\ open_links c false r = (Returned, true, []) /\ Permutation (map fst (calls s)) (seq 0 (n c)).
Proof.
  intros R Hr T F. destruct (raises_iff_some_failed c s r R Hr T) as [Q1 _].
  assert (r = Returned) by now apply Q1. subst r. repeat split.
  apply (waits_all_and_exactly_once c s _ R Hr Logic.I).
Qed.

Theorem double_open_refused c r :
  open_links c true r = (Raised EAlreadyOpen, true, []) /\ open_links_runs_parallel true = false.
Proof. split; reflexivity. Qed.

Theorem close_links_all c : close_links c = (false, map (inst c) (seq 0 (n c))).
Proof. reflexivity. Qed.
