(* C19/Proofs.v — invariant of the parallel_safe transition system and its consequences. *)
From CF Require Import Common.Bytes C19.Model.
From Coq Require Import ZifyBool Arith.
Open Scope nat_scope.

Definition started (t : tstate) : bool := match t with TRun | TFlagged | TDone => true | _ => false end.

Lemma tstate_eqb_eq a b : tstate_eqb a b = true <-> a = b.
Proof. destruct a, b; cbn; split; intros H; try reflexivity; try discriminate. Qed.

Lemma is_none_true {A} (o : option A) : is_none o = true <-> o = None.
Proof. destruct o; cbn; split; intros H; try reflexivity; try discriminate. Qed.

Lemma upd_same f k v : upd f k v k = v.
Proof. unfold upd. now rewrite Nat.eqb_refl. Qed.

Lemma upd_other f k v j : j <> k -> upd f k v j = f j.
Proof. intros H. unfold upd. apply Nat.eqb_neq in H. now rewrite H. Qed.

Definition res_ok (c : cfg) (s : st) : Prop :=
  match result s with
  | None => True
  | Some Returned => forall k, k < n c -> ts s k = TDone /\ fails c k = false
  | Some (Raised (EChained e)) =>
      (forall k, k < n c -> ts s k = TDone) /\ fails c e = true /\ e < n c /\ hd_error (errors s) = Some e
  | Some (Raised (EKey k)) => args c k = None /\ k < n c /\ spawned s = k
  | Some (Raised _) => False
  end.

Record inv (c : cfg) (s : st) : Prop := {
  i_sp : spawned s <= n c;
  i_jn : joined s = 0 \/ spawned s = n c;
  i_jn2 : joined s <= n c;
  i_not : forall k, spawned s <= k -> ts s k = TNot;
  i_live : forall k, k < spawned s -> ts s k <> TNot;
  i_joined : forall k, k < joined s -> ts s k = TDone;
  i_calls_nodup : NoDup (map fst (calls s));
  i_calls_in : forall k, In k (map fst (calls s)) <-> started (ts s k) = true;
  i_calls_args : forall k cl, In (k, cl) (calls s) -> exists a, args c k = Some a /\ cl = (inst c k, a);
  i_err_nodup : NoDup (errors s);
  i_err_in : forall k, In k (errors s) <-> (ts s k = TDone /\ fails c k = true);
  i_flagged : forall k, ts s k = TFlagged -> fails c k = true;
  i_flag_t : flag s = true -> exists k, fails c k = true /\ (ts s k = TFlagged \/ ts s k = TDone);
  i_flag_f : flag s = false -> forall k, fails c k = true -> ts s k <> TFlagged /\ ts s k <> TDone;
  i_res : res_ok c s
}.

Lemma NoDup_app_snoc {A} (l : list A) x : NoDup l -> ~ In x l -> NoDup (l ++ [x]).
Proof.
  induction l as [|y l IH]; intros Hn Hx; cbn.
  - constructor; [tauto|constructor].
  - inversion Hn as [|? ? Hy Hl]; subst. constructor.
    + rewrite in_app_iff. cbn. intros [H|[H|[]]]; [contradiction|]. subst. apply Hx. now left.
    + apply IH; [exact Hl|]. intros H. apply Hx. now right.
Qed.

Lemma inv_init c : inv c init.
Proof.
  constructor; cbn.
  - lia.
  - now left.
  - lia.
  - reflexivity.
  - intros k Hk. lia.
  - intros k Hk. lia.
  - constructor.
  - intros k. split; [tauto|discriminate].
  - intros k cl [].
  - constructor.
  - intros k. split; [tauto|intros [H _]; discriminate].
  - discriminate.
  - discriminate.
  - intros _ k _. split; discriminate.
  - exact Logic.I.
Qed.

(* a finished main thread implies that no member thread can move any more (except after a KeyError) *)
Lemma res_all_done c s : inv c s ->
  match result s with
  | Some Returned | Some (Raised (EChained _)) => forall k, ts s k = TDone \/ ts s k = TNot
  | _ => True
  end.
Proof.
  intros I. pose proof (i_res c s I) as R. unfold res_ok in R.
  destruct (result s) as [[|[]]|]; try exact Logic.I.
  - intros k. destruct (Nat.lt_ge_cases k (n c)) as [H|H].
    + left. now apply R.
    + right. apply (i_not c s I). pose proof (i_sp c s I). lia.
  - destruct R as (R & _). intros j. destruct (Nat.lt_ge_cases j (n c)) as [H|H].
    + left. now apply R.
    + right. apply (i_not c s I). pose proof (i_sp c s I). lia.
Qed.

(* res_ok survives a thread event that changes ts at k (from a non-terminal state) and possibly appends to errors *)
Lemma res_ok_thread c s s' k :
  inv c s -> ts s k <> TDone -> ts s k <> TNot ->
  result s' = result s -> spawned s' = spawned s ->
  res_ok c s'.
Proof.
  intros I Hd Hn Hr Hsp. unfold res_ok. rewrite Hr, Hsp.
  pose proof (res_all_done c s I) as A. pose proof (i_res c s I) as R. unfold res_ok in R.
  destruct (result s) as [[|[]]|]; try exact R; try exact Logic.I.
  - destruct (A k); contradiction.
  - destruct (A k); contradiction.
Qed.

Ltac split_guard H :=
  repeat match type of H with
         | _ && _ = true => let H1 := fresh "G" in apply andb_true_iff in H as [H H1]
         end.

Lemma step_inv c s e s' : inv c s -> step c s e = Some s' -> inv c s'.
Proof.
  intros I H. destruct e as [| | |k|k|k|k]; cbn [step] in H.
  - (* MSpawn *)
    destruct (is_none (result s) && (spawned s <? n c)) eqn:G; [|discriminate].
    apply andb_true_iff in G as [G1 G2]. apply is_none_true in G1. apply Nat.ltb_lt in G2.
    destruct (args c (spawned s)) as [a|] eqn:Ea; injection H as <-.
    + assert (J0 : joined s = 0) by (destruct (i_jn c s I); lia).
      constructor; cbn.
      * lia.
      * now left.
      * apply (i_jn2 c s I).
      * intros k Hk. rewrite upd_other by lia. apply (i_not c s I). lia.
      * intros k Hk. destruct (Nat.eq_dec k (spawned s)) as [->|Hne].
        -- rewrite upd_same. discriminate.
        -- rewrite upd_other by exact Hne. apply (i_live c s I). lia.
      * intros k Hk. lia.
      * apply (i_calls_nodup c s I).
      * intros k. destruct (Nat.eq_dec k (spawned s)) as [->|Hne].
        -- rewrite upd_same. rewrite (i_calls_in c s I), (i_not c s I) by lia. cbn. tauto.
        -- rewrite upd_other by exact Hne. apply (i_calls_in c s I).
      * apply (i_calls_args c s I).
      * apply (i_err_nodup c s I).
      * intros k. destruct (Nat.eq_dec k (spawned s)) as [->|Hne].
        -- rewrite upd_same. rewrite (i_err_in c s I), (i_not c s I) by lia. split; intros [? ?]; discriminate.
        -- rewrite upd_other by exact Hne. apply (i_err_in c s I).
      * intros k. destruct (Nat.eq_dec k (spawned s)) as [->|Hne].
        -- rewrite upd_same. discriminate.
        -- rewrite upd_other by exact Hne. apply (i_flagged c s I).
      * intros Hf. destruct (i_flag_t c s I Hf) as (k & Fk & Tk). exists k. split; [exact Fk|].
        destruct (Nat.eq_dec k (spawned s)) as [->|Hne].
        -- rewrite (i_not c s I) in Tk by lia. destruct Tk; discriminate.
        -- now rewrite upd_other.
      * intros Hf k Fk. destruct (Nat.eq_dec k (spawned s)) as [->|Hne].
        -- rewrite upd_same. split; discriminate.
        -- rewrite upd_other by exact Hne. now apply (i_flag_f c s I).
      * exact Logic.I.
    + destruct I. constructor; cbn; try assumption. unfold res_ok. cbn. repeat split; assumption.
  - (* MJoin *)
    destruct (is_none (result s) && (spawned s =? n c) && (joined s <? n c) && tstate_eqb (ts s (joined s)) TDone) eqn:G;
      [|discriminate].
    split_guard G. apply is_none_true in G. apply Nat.eqb_eq in G2. apply Nat.ltb_lt in G1. apply tstate_eqb_eq in G0.
    injection H as <-. destruct I. constructor; cbn; try assumption.
    + now right.
    + intros k Hk. destruct (Nat.eq_dec k (joined s)) as [->|Hne]; [exact G0|]. apply i_joined0. lia.
    + exact Logic.I.
  - (* MCheck *)
    destruct (is_none (result s) && (spawned s =? n c) && (joined s =? n c)) eqn:G; [|discriminate].
    split_guard G. apply is_none_true in G. apply Nat.eqb_eq in G1, G0.
    injection H as <-.
    assert (AllDone : forall k, k < n c -> ts s k = TDone) by (intros k Hk; apply (i_joined c s I); lia).
    pose proof I as I'. destruct I. constructor; cbn; try assumption.
    unfold res_ok. cbn. destruct (flag s) eqn:F.
    + destruct (i_flag_t0 eq_refl) as (k & Fk & Tk).
      assert (Hk : k < n c).
      { destruct (Nat.lt_ge_cases k (n c)) as [L|L]; [exact L|].
        rewrite (i_not0 k) in Tk by lia. destruct Tk; discriminate. }
      assert (Ink : In k (errors s)) by (apply i_err_in0; split; [now apply AllDone|exact Fk]).
      destruct (errors s) as [|e r] eqn:E; [contradiction|].
      assert (Ine : In e (e :: r)) by now left.
      apply i_err_in0 in Ine as [Te Fe].
      repeat split; try assumption.
      destruct (Nat.lt_ge_cases e (n c)) as [L|L]; [exact L|]. rewrite (i_not0 e) in Te by lia. discriminate.
    + intros k Hk. split; [now apply AllDone|].
      destruct (fails c k) eqn:Fk; [|reflexivity].
      destruct (i_flag_f0 eq_refl k Fk) as [_ Nd]. now rewrite AllDone in Nd.
  - (* TBegin *)
    destruct (tstate_eqb (ts s k) TReady) eqn:G; [|discriminate]. apply tstate_eqb_eq in G.
    destruct (args c k) as [a|] eqn:Ea; [|discriminate]. injection H as <-.
    assert (R' : res_ok c {| spawned := spawned s; joined := joined s; ts := upd (ts s) k TRun; flag := flag s;
                             errors := errors s; calls := calls s ++ [(k, (inst c k, a))]; result := result s |}).
    { apply (res_ok_thread c s _ k I); try reflexivity; rewrite G; discriminate. }
    destruct I. constructor; cbn; try assumption.
    + intros j Hj. rewrite upd_other; [now apply i_not0|]. intros ->. rewrite i_not0 in G by exact Hj. discriminate.
    + intros j Hj. destruct (Nat.eq_dec j k) as [->|Hne]; [rewrite upd_same; discriminate|].
      rewrite upd_other by exact Hne. now apply i_live0.
    + intros j Hj. rewrite upd_other; [now apply i_joined0|]. intros ->. rewrite i_joined0 in G by exact Hj. discriminate.
    + rewrite map_app. cbn. apply NoDup_app_snoc; [exact i_calls_nodup0|].
      rewrite i_calls_in0, G. discriminate.
    + intros j. rewrite map_app, in_app_iff. cbn. destruct (Nat.eq_dec j k) as [->|Hne].
      * rewrite upd_same. cbn. tauto.
      * rewrite upd_other by exact Hne. rewrite i_calls_in0. split; [intros [H|[H|[]]]; [exact H|congruence]|tauto].
    + intros j cl Hin. apply in_app_iff in Hin as [Hin|[Hin|[]]]; [now apply i_calls_args0|].
      injection Hin as <- <-. now exists a.
    + intros j. destruct (Nat.eq_dec j k) as [->|Hne].
      * rewrite upd_same, i_err_in0, G. split; intros [? ?]; discriminate.
      * rewrite upd_other by exact Hne. apply i_err_in0.
    + intros j. destruct (Nat.eq_dec j k) as [->|Hne]; [rewrite upd_same; discriminate|].
      rewrite upd_other by exact Hne. apply i_flagged0.
    + intros Hf. destruct (i_flag_t0 Hf) as (j & Fj & Tj). exists j. split; [exact Fj|].
      rewrite upd_other; [exact Tj|]. intros ->. rewrite G in Tj. destruct Tj; discriminate.
    + intros Hf j Fj. destruct (Nat.eq_dec j k) as [->|Hne]; [rewrite upd_same; split; discriminate|].
      rewrite upd_other by exact Hne. now apply i_flag_f0.
  - (* TEnd *)
    destruct (tstate_eqb (ts s k) TRun && negb (fails c k)) eqn:G; [|discriminate].
    apply andb_true_iff in G as [G G1]. apply tstate_eqb_eq in G. apply negb_true_iff in G1. injection H as <-.
    assert (R' : res_ok c {| spawned := spawned s; joined := joined s; ts := upd (ts s) k TDone; flag := flag s;
                             errors := errors s; calls := calls s; result := result s |}).
    { apply (res_ok_thread c s _ k I); try reflexivity; rewrite G; discriminate. }
    destruct I. constructor; cbn; try assumption.
    + intros j Hj. rewrite upd_other; [now apply i_not0|]. intros ->. rewrite i_not0 in G by exact Hj. discriminate.
    + intros j Hj. destruct (Nat.eq_dec j k) as [->|Hne]; [rewrite upd_same; discriminate|].
      rewrite upd_other by exact Hne. now apply i_live0.
    + intros j Hj. destruct (Nat.eq_dec j k) as [->|Hne]; [now rewrite upd_same|].
      rewrite upd_other by exact Hne. now apply i_joined0.
    + intros j. destruct (Nat.eq_dec j k) as [->|Hne].
      * rewrite upd_same, i_calls_in0, G. cbn. tauto.
      * rewrite upd_other by exact Hne. apply i_calls_in0.
    + intros j. destruct (Nat.eq_dec j k) as [->|Hne].
      * rewrite upd_same, i_err_in0, G, G1. split; intros [? ?]; discriminate.
      * rewrite upd_other by exact Hne. apply i_err_in0.
    + intros j. destruct (Nat.eq_dec j k) as [->|Hne]; [rewrite upd_same; discriminate|].
      rewrite upd_other by exact Hne. apply i_flagged0.
    + intros Hf. destruct (i_flag_t0 Hf) as (j & Fj & Tj). exists j. split; [exact Fj|].
      rewrite upd_other; [exact Tj|]. intros ->. congruence.
    + intros Hf j Fj. destruct (Nat.eq_dec j k) as [->|Hne]; [congruence|].
      rewrite upd_other by exact Hne. now apply i_flag_f0.
  - (* TFlag *)
    destruct (tstate_eqb (ts s k) TRun && fails c k) eqn:G; [|discriminate].
    apply andb_true_iff in G as [G G1]. apply tstate_eqb_eq in G. injection H as <-.
    assert (R' : res_ok c {| spawned := spawned s; joined := joined s; ts := upd (ts s) k TFlagged; flag := true;
                             errors := errors s; calls := calls s; result := result s |}).
    { apply (res_ok_thread c s _ k I); try reflexivity; rewrite G; discriminate. }
    destruct I. constructor; cbn; try assumption.
    + intros j Hj. rewrite upd_other; [now apply i_not0|]. intros ->. rewrite i_not0 in G by exact Hj. discriminate.
    + intros j Hj. destruct (Nat.eq_dec j k) as [->|Hne]; [rewrite upd_same; discriminate|].
      rewrite upd_other by exact Hne. now apply i_live0.
    + intros j Hj. rewrite upd_other; [now apply i_joined0|]. intros ->. rewrite i_joined0 in G by exact Hj. discriminate.
    + intros j. destruct (Nat.eq_dec j k) as [->|Hne].
      * rewrite upd_same, i_calls_in0, G. cbn. tauto.
      * rewrite upd_other by exact Hne. apply i_calls_in0.
    + intros j. destruct (Nat.eq_dec j k) as [->|Hne].
      * rewrite upd_same, i_err_in0, G. split; intros [? ?]; discriminate.
      * rewrite upd_other by exact Hne. apply i_err_in0.
    + intros j. destruct (Nat.eq_dec j k) as [->|Hne]; [intros _; exact G1|].
      rewrite upd_other by exact Hne. apply i_flagged0.
    + intros _. exists k. rewrite upd_same. split; [exact G1|now left].
    + discriminate.
  - (* TAppend *)
    destruct (tstate_eqb (ts s k) TFlagged) eqn:G; [|discriminate]. apply tstate_eqb_eq in G. injection H as <-.
    pose proof (i_flagged c s I k G) as Fk.
    assert (Nk : ~ In k (errors s)).
    { rewrite (i_err_in c s I), G. intros [? _]. discriminate. }
    assert (R' : res_ok c {| spawned := spawned s; joined := joined s; ts := upd (ts s) k TDone; flag := flag s;
                             errors := errors s ++ [k]; calls := calls s; result := result s |}).
    { apply (res_ok_thread c s _ k I); try reflexivity; rewrite G; discriminate. }
    destruct I. constructor; cbn; try assumption.
    + intros j Hj. rewrite upd_other; [now apply i_not0|]. intros ->. rewrite i_not0 in G by exact Hj. discriminate.
    + intros j Hj. destruct (Nat.eq_dec j k) as [->|Hne]; [rewrite upd_same; discriminate|].
      rewrite upd_other by exact Hne. now apply i_live0.
    + intros j Hj. destruct (Nat.eq_dec j k) as [->|Hne]; [now rewrite upd_same|].
      rewrite upd_other by exact Hne. now apply i_joined0.
    + intros j. destruct (Nat.eq_dec j k) as [->|Hne].
      * rewrite upd_same, i_calls_in0, G. cbn. tauto.
      * rewrite upd_other by exact Hne. apply i_calls_in0.
    + apply NoDup_app_snoc; assumption.
    + intros j. rewrite in_app_iff. cbn. destruct (Nat.eq_dec j k) as [->|Hne].
      * rewrite upd_same. split; [intros _; now split|intros _; right; now left].
      * rewrite upd_other by exact Hne. rewrite i_err_in0. split; [intros [H|[H|[]]]; [exact H|congruence]|tauto].
    + intros j. destruct (Nat.eq_dec j k) as [->|Hne]; [rewrite upd_same; discriminate|].
      rewrite upd_other by exact Hne. apply i_flagged0.
    + intros Hf. exists k. rewrite upd_same. split; [exact Fk|now right].
    + intros Hf. destruct (i_flag_f0 Hf k Fk) as [Nf _]. congruence.
Qed.
