(* C19/Proofs_f.v — close_link that raises, the with-block, the helper actions, KeyError detail. *)
From CF Require Import Common.Bytes C19.Model C19.Proofs C19.Proofs_b.
From Coq Require Import Arith ZifyBool.
Open Scope nat_scope.

Lemma find_seq_first (f : nat -> bool) : forall m a k, find f (seq a m) = Some k ->
  a <= k < a + m /\ f k = true /\ forall j, a <= j < k -> f j = false.
Proof.
  induction m as [|m IH]; intros a k H; cbn [seq find] in H; [discriminate|].
  destruct (f a) eqn:E.
  - injection H as <-. repeat split; try lia; try assumption.
  - destruct (IH _ _ H) as (H1 & H2 & H3). repeat split; try lia; try assumption.
    intros j Hj. destruct (Nat.eq_dec j a) as [->|]; [exact E|]. apply H3. lia.
Qed.

Lemma find_seq_none (f : nat -> bool) m a : find f (seq a m) = None -> forall j, a <= j < a + m -> f j = false.
Proof.
  intros H j Hj. eapply find_none in H; [exact H|]. apply in_seq. lia.
Qed.

Lemma close_until_none c cf : forall ks, forallb (fun k => negb (cf k)) ks = true ->
  close_until c cf ks = (None, map (inst c) ks).
Proof.
  induction ks as [|k ks IH]; intros H; [reflexivity|]. cbn [forallb] in H. apply andb_true_iff in H as [H1 H2].
  apply negb_true_iff in H1. cbn [close_until map]. now rewrite H1, (IH H2).
Qed.

(* close_links when no close_link() raises: every member closed exactly once in order, swarm not open afterwards *)
Theorem close_links_closes_all c is_open cf : no_close_raises c cf = true ->
  close_links_f c is_open cf = (WOk, false, map (inst c) (seq 0 (n c))).
Proof. intros H. unfold close_links_f. now rewrite (close_until_none c cf _ H). Qed.

(* observation (outside the property text): with a raising close_link() the loop stops there, later members stay
   open and the swarm stays marked open *)
Theorem raising_close_observation :
  exists c cf, snd (close_links_f c true cf) <> map (inst c) (seq 0 (n c)) /\
               snd (fst (close_links_f c true cf)) = true /\
               fst (fst (close_links_f c true cf)) = WClose 0.
Proof.
  exists (mk_cfg [1%Z; 2%Z; 3%Z] None []), (fun k => Nat.eqb k 0).
  split; [vm_compute; discriminate|]. split; vm_compute; reflexivity.
Qed.

(* open failure (no close_link() raises): the open failure is raised and every member is closed *)
Theorem open_failure_with_failing_close c s r cf : reachable c s -> result s = Some r -> total_args c ->
  (exists k, k < n c /\ fails c k = true) -> no_close_raises c cf = true ->
  exists e, fails c e = true /\ e < n c /\
            open_links_f c false r cf = (WOpenFailed (EChained e), false, map (inst c) (seq 0 (n c))).
Proof.
  intros R Hr T Hf Hc.
  destruct (open_failure_closes_all_and_raises c s r R Hr T Hf) as (e & -> & He & Fe & _).
  exists e. repeat split; try assumption. unfold open_links_f. cbn [negb].
  now rewrite (close_links_closes_all c false cf Hc).
Qed.

(* with Swarm(...) as s: body  (no close_link() raises) *)
Theorem with_swarm_spec c r body cf : no_close_raises c cf = true ->
  with_swarm c r body cf =
  match r with
  | Raised e => (WOpenFailed e, false, false, map (inst c) (seq 0 (n c)))
  | Returned => (match body with Some b => WBody b | None => WOk end, true, false, map (inst c) (seq 0 (n c)))
  end.
Proof.
  intros Hc. unfold with_swarm, open_links_f. destruct r as [|e].
  - rewrite (close_links_closes_all c true cf Hc). reflexivity.
  - rewrite (close_links_closes_all c false cf Hc). reflexivity.
Qed.

(* (a) get_estimated_positions: with distinct URIs every member whose action completed has ITS first sample under ITS
   URI; URIs of no completed member keep what they had *)
Theorem positions_keyed_by_own_uri c uri streams ok old k p t :
  (forall i j, i < n c -> j < n c -> uri i = uri j -> i = j) ->
  k < n c -> ok k = true -> streams k = p :: t ->
  positions_after c uri streams ok old (uri k) = Some p.
Proof.
  intros Hinj Hk Hok Hs. unfold positions_after.
  destruct (find (fun k0 => (uri k0 =? uri k)%Z && ok k0) (seq 0 (n c))) as [k'|] eqn:F.
  - destruct (find_seq_first _ _ _ _ F) as (H1 & H2 & _). apply andb_true_iff in H2 as [H2 _].
    apply Z.eqb_eq in H2. assert (k' = k) by (apply Hinj; [lia|exact Hk|exact H2]). subst k'. now rewrite Hs.
  - pose proof (find_seq_none _ _ _ F k ltac:(lia)) as H. cbv beta in H. rewrite Z.eqb_refl, Hok in H. discriminate.
Qed.

Theorem positions_others_unchanged c uri streams ok old u :
  (forall k, k < n c -> ok k = true -> uri k <> u) -> positions_after c uri streams ok old u = old u.
Proof.
  intros H. unfold positions_after.
  destruct (find (fun k0 => (uri k0 =? u)%Z && ok k0) (seq 0 (n c))) as [k'|] eqn:F; [|reflexivity].
  destruct (find_seq_first _ _ _ _ F) as (H1 & H2 & _). apply andb_true_iff in H2 as [H2 H3].
  apply Z.eqb_eq in H2. destruct (H k' ltac:(lia) H3 H2).
Qed.

(* (a) reset_estimators: the wait loop *)
Lemma push_length w v : List.length w = 10 -> List.length (push w v) = 10.
Proof.
  intros H. unfold push. rewrite app_length. destruct w; [discriminate|]. cbn in *. lia.
Qed.

Lemma stable_const x : stable [x; x; x; x; x; x; x; x; x; x] = true.
Proof.
  unfold stable, maxl, minl. cbn [fold_left hd]. rewrite !Z.max_id, !Z.min_id.
  apply Z.ltb_lt. lia.
Qed.

Ltac wait_step :=
  cbn [wait_loop push tl app];
  match goal with
  | |- context [if ?b then _ else _] =>
      destruct b eqn:?; [eexists; split; [reflexivity|repeat match goal with H : _ = false |- _ => clear H end; lia]|]
  end.

Lemma wait_ten hx hy hz x y z post cnt :
  List.length hx = 10 -> List.length hy = 10 -> List.length hz = 10 ->
  exists m, wait_loop hx hy hz (repeat (x, y, z) 10 ++ post) cnt = (m, true) /\ cnt < m <= cnt + 10.
Proof.
  intros Lx Ly Lz.
  destruct hx as [|x0 [|x1 [|x2 [|x3 [|x4 [|x5 [|x6 [|x7 [|x8 [|x9 [|? ?]]]]]]]]]]]; try discriminate.
  destruct hy as [|y0 [|y1 [|y2 [|y3 [|y4 [|y5 [|y6 [|y7 [|y8 [|y9 [|? ?]]]]]]]]]]]; try discriminate.
  destruct hz as [|z0 [|z1 [|z2 [|z3 [|z4 [|z5 [|z6 [|z7 [|z8 [|z9 [|? ?]]]]]]]]]]]; try discriminate.
  cbn [repeat app].
  do 9 wait_step.
  cbn [wait_loop push tl app]. rewrite !stable_const. cbn [andb]. eexists. split; [reflexivity|].
  repeat match goal with H : _ = false |- _ => clear H end. lia.
Qed.

(* once the three variances have been constant for ten samples the wait ends (at the latest then) *)
Theorem wait_converges pre x y z post : forall hx hy hz cnt,
  List.length hx = 10 -> List.length hy = 10 -> List.length hz = 10 ->
  exists m, wait_loop hx hy hz (pre ++ repeat (x, y, z) 10 ++ post) cnt = (m, true) /\
            cnt < m <= cnt + List.length pre + 10.
Proof.
  induction pre as [|[[a b] d] pre IH]; intros hx hy hz cnt Lx Ly Lz.
  - cbn [app List.length]. destruct (wait_ten hx hy hz x y z post cnt Lx Ly Lz) as (m & H & Hm).
    exists m. split; [exact H|lia].
  - cbn [app wait_loop List.length].
    destruct (stable (push hx a) && stable (push hy b) && stable (push hz d)).
    + eexists. split; [reflexivity|lia].
    + destruct (IH (push hx a) (push hy b) (push hz d) (S cnt)) as (m & H & Hm); try now apply push_length.
      exists m. split; [exact H|lia].
Qed.

Theorem wait_for_position_estimator_converges pre x y z post :
  exists m, wait_for_position_estimator (pre ++ repeat (x, y, z) 10 ++ post) = (m, true) /\
            1 <= m <= List.length pre + 10.
Proof.
  unfold wait_for_position_estimator.
  destruct (wait_converges pre x y z post hist0 hist0 hist0 0) as (m & H & Hm); try reflexivity.
  exists m. split; [exact H|lia].
Qed.

(* a stream that ends (disconnect) before convergence ends the wait without error and without convergence *)
Theorem wait_empty_stream : wait_for_position_estimator [] = (0, false).
Proof. reflexivity. Qed.

(* (c) a missing dictionary entry for member k: only members before k were started *)
Theorem keyerror_only_earlier_members c s k : reachable c s -> result s = Some (Raised (EKey k)) ->
  args c k = None /\ forall j cl, In (j, cl) (calls s) -> j < k.
Proof.
  intros R Hr. apply reachable_inv in R. pose proof (i_res c s R) as Q. unfold res_ok in Q. rewrite Hr in Q.
  destruct Q as (Ha & Hk & Hs). split; [exact Ha|]. intros j cl Hin.
  assert (Hj : In j (map fst (calls s))) by (apply in_map_iff; now exists (j, cl)).
  apply (i_calls_in c s R) in Hj.
  destruct (Nat.lt_ge_cases j k) as [L|L]; [exact L|].
  rewrite (i_not c s R) in Hj by lia. discriminate.
Qed.
