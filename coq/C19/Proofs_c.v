(* C19/Proofs_c.v — every run of the parallel_safe transition system is bounded (5n+1 events): together with
   `progress` this means parallel_safe returns under every schedule that keeps scheduling enabled threads. *)
From CF Require Import Common.Bytes C19.Model C19.Proofs C19.Proofs_b.
From Coq Require Import ZifyBool Arith.
Open Scope nat_scope.

Definition w (t : tstate) : nat :=
  match t with TNot => 3 | TReady => 3 | TRun => 2 | TFlagged => 1 | TDone => 0 end.

Fixpoint sumw (f : nat -> tstate) (m : nat) : nat :=
  match m with O => 0 | S m' => w (f m') + sumw f m' end.

Lemma sumw_upd_out f k v m : m <= k -> sumw (upd f k v) m = sumw f m.
Proof.
  induction m as [|m IH]; intros H; cbn [sumw]; [reflexivity|].
  rewrite upd_other by lia. rewrite IH by lia. reflexivity.
Qed.

Lemma sumw_upd_in f k v m : k < m -> sumw (upd f k v) m + w (f k) = sumw f m + w v.
Proof.
  induction m as [|m IH]; intros H; [lia|]. cbn [sumw].
  destruct (Nat.eq_dec k m) as [->|Hne].
  - rewrite upd_same, sumw_upd_out by lia. lia.
  - rewrite upd_other by lia. specialize (IH ltac:(lia)). lia.
Qed.

Lemma sumw_const m : sumw (fun _ => TNot) m = 3 * m.
Proof. induction m as [|m IH]; cbn [sumw w]; lia. Qed.

Definition potential (c : cfg) (s : st) : nat :=
  (if is_none (result s) then 1 else 0) + (n c - spawned s) + (n c - joined s) + sumw (ts s) (n c).

Lemma potential_init c : potential c init = 5 * n c + 1.
Proof. unfold potential. cbn. rewrite sumw_const. lia. Qed.

Lemma thread_index_bound c s k : inv c s -> ts s k <> TNot -> k < n c.
Proof.
  intros I H. destruct (Nat.lt_ge_cases k (n c)) as [L|L]; [exact L|].
  exfalso. apply H. apply (i_not c s I). pose proof (i_sp c s I). lia.
Qed.

Lemma step_decreases c s e s' : inv c s -> step c s e = Some s' -> potential c s' < potential c s.
Proof.
  intros I H. unfold potential. destruct e as [| | |k|k|k|k]; cbn [step] in H.
  - destruct (is_none (result s) && (spawned s <? n c)) eqn:G; [|discriminate].
    apply andb_true_iff in G as [G1 G2]. apply Nat.ltb_lt in G2.
    destruct (args c (spawned s)); injection H as <-; cbn [result spawned joined ts is_none]; rewrite G1.
    + pose proof (sumw_upd_in (ts s) (spawned s) TReady (n c) G2) as E.
      rewrite (i_not c s I (spawned s)) in E by lia. cbn [w] in E. lia.
    + lia.
  - destruct (is_none (result s) && (spawned s =? n c) && (joined s <? n c) && tstate_eqb (ts s (joined s)) TDone) eqn:G;
      [|discriminate].
    apply andb_true_iff in G as [G G0]. apply andb_true_iff in G as [G G1]. apply andb_true_iff in G as [G G2].
    apply Nat.ltb_lt in G1. injection H as <-. cbn [result spawned joined ts is_none]. rewrite G. lia.
  - destruct (is_none (result s) && (spawned s =? n c) && (joined s =? n c)) eqn:G; [|discriminate].
    apply andb_true_iff in G as [G G0]. apply andb_true_iff in G as [G G1].
    injection H as <-. cbn [result spawned joined ts is_none]. rewrite G. lia.
  - destruct (tstate_eqb (ts s k) TReady) eqn:G; [|discriminate]. apply tstate_eqb_eq in G.
    destruct (args c k); [|discriminate]. injection H as <-. cbn [result spawned joined ts].
    assert (Hk : k < n c) by (apply (thread_index_bound c s k I); rewrite G; discriminate).
    pose proof (sumw_upd_in (ts s) k TRun (n c) Hk) as E. rewrite G in E. cbn [w] in E. lia.
  - destruct (tstate_eqb (ts s k) TRun && negb (fails c k)) eqn:G; [|discriminate].
    apply andb_true_iff in G as [G _]. apply tstate_eqb_eq in G. injection H as <-. cbn [result spawned joined ts].
    assert (Hk : k < n c) by (apply (thread_index_bound c s k I); rewrite G; discriminate).
    pose proof (sumw_upd_in (ts s) k TDone (n c) Hk) as E. rewrite G in E. cbn [w] in E. lia.
  - destruct (tstate_eqb (ts s k) TRun && fails c k) eqn:G; [|discriminate].
    apply andb_true_iff in G as [G _]. apply tstate_eqb_eq in G. injection H as <-. cbn [result spawned joined ts].
    assert (Hk : k < n c) by (apply (thread_index_bound c s k I); rewrite G; discriminate).
    pose proof (sumw_upd_in (ts s) k TFlagged (n c) Hk) as E. rewrite G in E. cbn [w] in E. lia.
  - destruct (tstate_eqb (ts s k) TFlagged) eqn:G; [|discriminate]. apply tstate_eqb_eq in G.
    injection H as <-. cbn [result spawned joined ts].
    assert (Hk : k < n c) by (apply (thread_index_bound c s k I); rewrite G; discriminate).
    pose proof (sumw_upd_in (ts s) k TDone (n c) Hk) as E. rewrite G in E. cbn [w] in E. lia.
Qed.

Lemma run_potential c evs : forall s s', inv c s -> run c s evs = Some s' ->
  List.length evs + potential c s' <= potential c s.
Proof.
  induction evs as [|e evs IH]; intros s s' I H; cbn [run] in H.
  - injection H as <-. cbn. lia.
  - destruct (step c s e) as [s1|] eqn:E; [|discriminate].
    pose proof (step_decreases c s e s1 I E). pose proof (step_inv c s e s1 I E) as I1.
    specialize (IH s1 s' I1 H). cbn [List.length]. lia.
Qed.

Theorem runs_bounded c evs s : run c init evs = Some s -> List.length evs <= 5 * n c + 1.
Proof.
  intros H. pose proof (run_potential c evs init s (inv_init c) H) as B. rewrite potential_init in B. lia.
Qed.

(* a run that cannot be extended has delivered the result, and then everything of C19 holds of it *)
Theorem maximal_run_finished c s : reachable c s -> total_args c ->
  (forall e, step c s e = None) -> exists r, result s = Some r.
Proof.
  intros R T Hmax. destruct (result s) as [r|] eqn:E; [now exists r|].
  destruct (progress c s R T E) as (e & s' & Hs). rewrite Hmax in Hs. discriminate.
Qed.
