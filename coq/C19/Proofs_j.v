(* C19/Proofs_j.v — close_links closes every member whatever the members' close_link() returns. *)
From CF Require Import Common.Bytes C19.Model.
From Coq Require Import Arith.
Open Scope nat_scope.

Theorem no_link_open_after_close c ret open_before k : k < n c ->
  link_open_after open_before (close_calls_head c ret) k = false.
Proof.
  intros Hk. unfold link_open_after, close_calls_head.
  assert (E : existsb (Nat.eqb k) (seq 0 (n c)) = true).
  { apply existsb_exists. exists k. split; [apply in_seq; lia|apply Nat.eqb_refl]. }
  rewrite E. now rewrite andb_false_r.
Qed.

Theorem shortcircuit_close_refuted :
  exists c ret open_before k, k < n c /\ open_before k = true /\
    link_open_after open_before (close_calls_shortcircuit c ret) k = true /\
    link_open_after open_before (close_calls_head c ret) k = false.
Proof.
  exists (mk_cfg [1%Z; 2%Z; 3%Z] None [1%Z]), (fun k => if Nat.eqb k 0 then Some false else Some true),
         (fun k => negb (Nat.eqb k 0)), 2.
  repeat split; vm_compute; try reflexivity; lia.
Qed.
