(* C19/Proofs_e.v — several runs in one process: every run reports from its own fresh reporter, so what a run
   raises depends on that run's errors only. *)
From CF Require Import Common.Bytes C19.Model C19.Proofs C19.Proofs_b.
From Coq Require Import Arith.
Open Scope nat_scope.

Lemma fold_report r0 errs : errs <> [] -> fold_left report_error errs r0 = (true, snd r0 ++ errs).
Proof.
  revert r0. induction errs as [|e errs IH]; intros r0 H; [congruence|]. cbn [fold_left].
  destruct errs as [|e' errs'].
  - cbn. reflexivity.
  - rewrite IH by discriminate. cbn [report_error snd]. now rewrite <- app_assoc.
Qed.

Lemma run_with_fresh errs : run_with fresh_reporter errs = hd_error errs.
Proof.
  unfold run_with. destruct errs as [|e errs]; [reflexivity|].
  rewrite fold_report by discriminate. reflexivity.
Qed.

(* for every history of runs: run k hands the caller an error iff it is not `parallel` and one of ITS actions
   raised, and that error is one of the errors raised in run k — whatever happened in the runs before *)
Theorem each_run_chains_own_error runs k kind errs :
  nth_error runs k = Some (kind, errs) ->
  exists o, nth_error (process_fresh runs) k = Some o /\
    (forall e, o = Some e -> In e errs /\ kind <> KPar) /\
    (o = None <-> kind = KPar \/ errs = []).
Proof.
  intros H. unfold process_fresh. exists (proc_run fresh_reporter kind errs). split.
  - rewrite nth_error_map, H. reflexivity.
  - destruct kind; cbn [proc_run]; rewrite ?run_with_fresh.
    + split.
      * intros e He. split; [|discriminate]. destruct errs; [discriminate|injection He as <-; now left].
      * destruct errs; split; intros Hx; try tauto; try discriminate. destruct Hx; discriminate.
    + split; [discriminate|]. split; auto.
    + split.
      * intros e He. split; [|discriminate]. destruct errs; [discriminate|injection He as <-; now left].
      * destruct errs; split; intros Hx; try tauto; try discriminate. destruct Hx; discriminate.
Qed.

(* refutation for a list shared across runs: the second failing run chains the error of the first *)
Theorem shared_reporter_refuted :
  exists runs k kind errs e, nth_error runs k = Some (kind, errs) /\
    nth_error (process_shared [] runs) k = Some (Some e) /\ ~ In e errs.
Proof.
  exists [(KSafe, [1]); (KSafe, [2])], 1, KSafe, [2], 1. repeat split.
  intros [H|[]]. discriminate.
Qed.

(* the same on the transition system: with a stale error in the reporter list the report is chained from an error
   no action of this run raised *)
Theorem shared_reporter_refuted_lts :
  exists c evs s e, run c (init_shared [e]) evs = Some s /\
    result s = Some (Raised (EChained e)) /\ fails c e = false.
Proof.
  exists (mk_cfg [5%Z] None [5%Z]), [MSpawn; TBegin 0; TFlag 0; TAppend 0; MJoin; MCheck],
         (match run (mk_cfg [5%Z] None [5%Z]) (init_shared [7]) [MSpawn; TBegin 0; TFlag 0; TAppend 0; MJoin; MCheck]
          with Some s => s | None => init end), 7.
  split; [vm_compute; reflexivity|]. split; vm_compute; reflexivity.
Qed.

(* link: a finished run of the transition system (fresh reporter = init) is the abstract run on its error list *)
Theorem lts_run_abstract c s r : reachable c s -> result s = Some r -> finished r ->
  r = match run_with fresh_reporter (errors s) with Some e => Raised (EChained e) | None => Returned end.
Proof.
  intros R Hr Hf. rewrite run_with_fresh.
  pose proof (result_cases c s r R Hr) as Q. apply reachable_inv in R.
  destruct r as [|[k|k|e| |]]; cbn in Hf; try contradiction.
  - destruct (errors s) as [|e t] eqn:E; [reflexivity|].
    assert (Hin : In e (errors s)) by (rewrite E; now left).
    apply (i_err_in c s R) in Hin as [Td Fe].
    assert (He : e < n c).
    { destruct (Nat.lt_ge_cases e (n c)) as [L|L]; [exact L|].
      rewrite (i_not c s R) in Td; [discriminate|]. pose proof (i_sp c s R). lia. }
    rewrite (Q e He) in Fe. discriminate.
  - destruct Q as (_ & _ & ->). reflexivity.
Qed.
