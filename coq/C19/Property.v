(* C19/Property.v — property C19 (swarm actions run once per Crazyflie with the right arguments and error report).
   Theorems only; each is closed by `exact <lemma of Proofs*.v>` and followed by Print Assumptions.
   `reachable c s` = s is the state after SOME event list accepted by the parallel_safe transition system of
   configuration c (size, instances, argument entries, failing subset): all interleavings of the main thread and
   the member threads, with no bound on anything. *)
From CF Require Import Common.Bytes C19.Model C19.Proofs C19.Proofs_b C19.Proofs_c C19.Proofs_d C19.Proofs_e C19.Proofs_f C19.Proofs_g C19.Proofs_h C19.Proofs_i C19.Proofs_j.
From Coq Require Import Permutation.
Open Scope nat_scope.

(* every call ever made goes to a member of the swarm with that member's own instance as first argument followed by
   its own entry of the argument dictionary, and no member is called twice *)
Theorem C19_once_each_with_own_args : forall c s, reachable c s ->
  NoDup (map fst (calls s)) /\
  forall k cl, In (k, cl) (calls s) -> k < n c /\ exists a, args c k = Some a /\ cl = (inst c k, a).
Proof. exact once_each_own_args. Qed.
Print Assumptions C19_once_each_with_own_args.

(* when parallel_safe returns, or raises its error report, every member thread has finished and the members called
   are exactly all members, once each *)
Theorem C19_parallel_safe_waits_all : forall c s r, reachable c s -> result s = Some r -> finished r ->
  (forall k, k < n c -> ts s k = TDone) /\ Permutation (map fst (calls s)) (seq 0 (n c)).
Proof. exact waits_all_and_exactly_once. Qed.
Print Assumptions C19_parallel_safe_waits_all.

(* with an argument entry for every member: normal return iff no action raised; otherwise the raised report is
   chained from the error of a member whose action did raise (the first to report); never anything else *)
Theorem C19_raises_iff_some_failed : forall c s r, reachable c s -> result s = Some r -> total_args c ->
  (r = Returned <-> forall k, k < n c -> fails c k = false) /\
  (r <> Returned -> exists e, r = Raised (EChained e) /\ e < n c /\ fails c e = true /\ hd_error (errors s) = Some e).
Proof. exact raises_iff_some_failed. Qed.
Print Assumptions C19_raises_iff_some_failed.

(* without that precondition the only additional outcome is the KeyError of a member without entry *)
Theorem C19_result_cases : forall c s r, reachable c s -> result s = Some r ->
  match r with
  | Returned => forall k, k < n c -> fails c k = false
  | Raised (EChained e) => e < n c /\ fails c e = true /\ hd_error (errors s) = Some e
  | Raised (EKey k) => k < n c /\ args c k = None
  | Raised _ => False
  end.
Proof. exact result_cases. Qed.
Print Assumptions C19_result_cases.

Theorem C19_parallel_never_raises : forall r, parallel_outcome r = Returned.
Proof. exact parallel_never_raises. Qed.
Print Assumptions C19_parallel_never_raises.

(* the join cannot deadlock: as long as the caller has no result, some thread can take a step *)
Theorem C19_no_deadlock : forall c s, reachable c s -> total_args c -> result s = None ->
  exists e s', step c s e = Some s'.
Proof. exact progress. Qed.
Print Assumptions C19_no_deadlock.

(* sequential: one call per member in dictionary (URI) order, own instance and arguments, up to the first member
   whose action raises (that error propagates) or whose entry is missing *)
Theorem C19_sequential_in_uri_order : forall c,
  exists m, m <= n c /\ fst (sequential c) = map (call_of c) (seq 0 m) /\
    match snd (sequential c) with
    | Returned => m = n c /\ forall j, j < n c -> fails c j = false /\ args c j <> None
    | Raised (EAction j) => m = S j /\ j < n c /\ fails c j = true /\ forall i, i < j -> fails c i = false /\ args c i <> None
    | Raised (EKey j) => m = j /\ j < n c /\ args c j = None /\ forall i, i < j -> fails c i = false /\ args c i <> None
    | Raised _ => False
    end.
Proof. exact sequential_in_order. Qed.
Print Assumptions C19_sequential_in_uri_order.

(* open_links = parallel_safe over open_link(): if any member fails to open, all attempts have finished, every
   member is closed again (in order), the swarm is not open and the chained report is raised *)
Theorem C19_open_failure_closes_all_and_raises : forall c s r, reachable c s -> result s = Some r -> total_args c ->
  (exists k, k < n c /\ fails c k = true) ->
  exists e, r = Raised (EChained e) /\ e < n c /\ fails c e = true /\
            open_links c false r = (Raised (EChained e), false, map (inst c) (seq 0 (n c))) /\
            (forall k, k < n c -> ts s k = TDone) /\ Permutation (map fst (calls s)) (seq 0 (n c)).
Proof. exact open_failure_closes_all_and_raises. Qed.
Print Assumptions C19_open_failure_closes_all_and_raises.

Theorem C19_open_success : forall c s r, reachable c s -> result s = Some r -> total_args c ->
  (forall k, k < n c -> fails c k = false) ->
  r = Returned /\ open_links c false r = (Returned, true, []) /\ Permutation (map fst (calls s)) (seq 0 (n c)).
Proof. exact open_success. Qed.
Print Assumptions C19_open_success.

(* an open swarm refuses open_links without starting any member action, and stays open *)
Theorem C19_double_open_refused : forall c r,
  open_links c true r = (Raised EAlreadyOpen, true, []) /\ open_links_runs_parallel true = false.
Proof. exact double_open_refused. Qed.
Print Assumptions C19_double_open_refused.

(* termination: no accepted event list is longer than 5n+1, and a run that cannot be extended has the result
   (so, with C19_no_deadlock, parallel_safe comes back under every schedule) *)
Theorem C19_runs_bounded : forall c evs s, run c init evs = Some s -> List.length evs <= 5 * n c + 1.
Proof. exact runs_bounded. Qed.
Print Assumptions C19_runs_bounded.

Theorem C19_maximal_run_finished : forall c s, reachable c s -> total_args c ->
  (forall e, step c s e = None) -> exists r, result s = Some r.
Proof. exact maximal_run_finished. Qed.
Print Assumptions C19_maximal_run_finished.

(* The caller's argument dictionary is only read.  Python objects are modelled (heap of list objects, the
   dictionary maps URIs to object ids, so reuse of one dictionary over several actions and two URIs sharing one
   list are covered): for every history of swarm-wide actions on one swarm, every object that existed before
   (the dictionary's lists) is the same afterwards, and in every action every member's argument list is a new
   object holding its own connection followed by its own entry as the caller wrote it. *)
Theorem C19_args_dict_unchanged : forall ms calls h idss h',
  (forall ad, In ad calls -> wf_dict h ad) ->
  history h ms calls = Some (idss, h') ->
  firstn (List.length h) h' = h /\
  map (map (obj h')) idss = map (fun ad => map (fun m => VScf (snd m) :: entry h ad (fst m)) ms) calls.
Proof. exact args_dict_unchanged. Qed.
Print Assumptions C19_args_dict_unchanged.

(* the integer view of that heap is what the transition system above uses as `args` *)
Theorem C19_args_view : forall h d u, d <> [] ->
  process_args (Some (dict_view h d)) u = option_map (fun r => ints (obj h r)) (plookup d u) /\
  ints (entry h (Some d) u) = match plookup d u with Some r => ints (obj h r) | None => [] end.
Proof. exact process_args_view. Qed.
Print Assumptions C19_args_view.

(* Several runs in one process (same or different Swarm objects; error objects have process-wide identities):
   every run has its own fresh reporter, so for EVERY history of runs, run k hands the caller an error iff it is not
   `parallel` and one of run k's actions raised, and that error (the __cause__ of the report, or for sequential the
   exception itself) is one of the errors raised IN RUN k. *)
Theorem C19_each_run_chains_own_error : forall runs k kind errs,
  nth_error runs k = Some (kind, errs) ->
  exists o, nth_error (process_fresh runs) k = Some o /\
    (forall e, o = Some e -> In e errs /\ kind <> KPar) /\
    (o = None <-> kind = KPar \/ errs = []).
Proof. exact each_run_chains_own_error. Qed.
Print Assumptions C19_each_run_chains_own_error.

(* a finished run of the transition system from `init` IS such an abstract run on its own error list *)
Theorem C19_run_is_abstract_run : forall c s r, reachable c s -> result s = Some r -> finished r ->
  r = match run_with fresh_reporter (errors s) with Some e => Raised (EChained e) | None => Returned end.
Proof. exact lts_run_abstract. Qed.
Print Assumptions C19_run_is_abstract_run.

(* refutation of the alternative: with one error list shared by all reporters the clause fails from the second
   failing run on (abstractly, and on the transition system started with a stale error in the list) *)
Theorem C19_shared_reporter_refuted :
  exists runs k kind errs e, nth_error runs k = Some (kind, errs) /\
    nth_error (process_shared [] runs) k = Some (Some e) /\ ~ In e errs.
Proof. exact shared_reporter_refuted. Qed.
Print Assumptions C19_shared_reporter_refuted.

Theorem C19_shared_reporter_refuted_lts :
  exists c evs s e, run c (init_shared [e]) evs = Some s /\
    result s = Some (Raised (EChained e)) /\ fails c e = false.
Proof. exact shared_reporter_refuted_lts. Qed.
Print Assumptions C19_shared_reporter_refuted_lts.

(* ---- growth round: with-block, helper actions; the model is the code as it is.  A close_link() that raises is outside
   the property text (C19 quantifies over failing actions and link openings), so the theorems about closing carry the
   premise `no_close_raises c cf = true` (no member's close_link() raises in the scenario). *)

(* close_links: every member closed exactly once in dictionary order and the swarm not open afterwards *)
Theorem C19_close_links_closes_all : forall c is_open cf, no_close_raises c cf = true ->
  close_links_f c is_open cf = (WOk, false, map (inst c) (seq 0 (n c))).
Proof. exact close_links_closes_all. Qed.
Print Assumptions C19_close_links_closes_all.

(* a failed open raises the open failure and closes every member *)
Theorem C19_open_failure_with_failing_close : forall c s r cf, reachable c s -> result s = Some r -> total_args c ->
  (exists k, k < n c /\ fails c k = true) -> no_close_raises c cf = true ->
  exists e, fails c e = true /\ e < n c /\
            open_links_f c false r cf = (WOpenFailed (EChained e), false, map (inst c) (seq 0 (n c))).
Proof. exact open_failure_with_failing_close. Qed.
Print Assumptions C19_open_failure_with_failing_close.

(* with Swarm(...) as s: body — open failure: body not run, everything closed, the open failure raised; otherwise the
   body runs, on exit every member is closed exactly once whether or not the body raised, and the body's exception (if
   any) is what comes out *)
Theorem C19_with_block : forall c r body cf, no_close_raises c cf = true ->
  with_swarm c r body cf =
  match r with
  | Raised e => (WOpenFailed e, false, false, map (inst c) (seq 0 (n c)))
  | Returned => (match body with Some b => WBody b | None => WOk end, true, false, map (inst c) (seq 0 (n c)))
  end.
Proof. exact with_swarm_spec. Qed.
Print Assumptions C19_with_block.

(* observation, outside the property text: what the current close loop does when a close_link() raises — it stops
   there, later members stay open, the swarm stays marked open *)
Theorem C19_raising_close_observation :
  exists c cf, snd (close_links_f c true cf) <> map (inst c) (seq 0 (n c)) /\
               snd (fst (close_links_f c true cf)) = true /\
               fst (fst (close_links_f c true cf)) = WClose 0.
Proof. exact raising_close_observation. Qed.
Print Assumptions C19_raising_close_observation.

(* get_estimated_positions: results keyed by the right URI *)
Theorem C19_positions_keyed_by_own_uri : forall c uri streams ok old k p t,
  (forall i j, i < n c -> j < n c -> uri i = uri j -> i = j) ->
  k < n c -> ok k = true -> streams k = p :: t ->
  positions_after c uri streams ok old (uri k) = Some p.
Proof. exact positions_keyed_by_own_uri. Qed.
Print Assumptions C19_positions_keyed_by_own_uri.

Theorem C19_positions_others_unchanged : forall c uri streams ok old u,
  (forall k, k < n c -> ok k = true -> uri k <> u) -> positions_after c uri streams ok old u = old u.
Proof. exact positions_others_unchanged. Qed.
Print Assumptions C19_positions_others_unchanged.

(* reset_estimators: the wait ends at the latest when all three variances have been constant for ten samples *)
Theorem C19_wait_for_estimator_converges : forall pre x y z post,
  exists m, wait_for_position_estimator (pre ++ repeat (x, y, z) 10 ++ post) = (m, true) /\
            1 <= m <= List.length pre + 10.
Proof. exact wait_for_position_estimator_converges. Qed.
Print Assumptions C19_wait_for_estimator_converges.

(* a missing dictionary entry for member k: KeyError in the caller, only members before k were ever called *)
Theorem C19_keyerror_only_earlier_members : forall c s k, reachable c s -> result s = Some (Raised (EKey k)) ->
  args c k = None /\ forall j cl, In (j, cl) (calls s) -> j < k.
Proof. exact keyerror_only_earlier_members. Qed.
Print Assumptions C19_keyerror_only_earlier_members.

(* ---- Wave 12: per-member link state.  After open_links a member's link may go down by itself (or the member be
   closed individually) while the swarm stays open; `srun evs` is the swarm state (_is_open, per-member link flag) after
   any history of open / close-all / link-down / link-up events.  The runners iterate self._cfs.items() and never look at
   these flags: the configuration of the run (`restrict c (action_members ...)`) is the whole swarm. *)
Theorem C19_members_independent_of_link_state : forall c evs,
  let c' := restrict c (action_members c (srun evs)) in
  n c' = n c /\ forall k, k < n c -> inst c' k = inst c k /\ args c' k = args c k /\ fails c' k = fails c k.
Proof. exact members_independent_of_link_state. Qed.
Print Assumptions C19_members_independent_of_link_state.

(* so a finished swarm-wide action has run exactly once for EVERY member, with its own instance and arguments, whatever
   the link states *)
Theorem C19_every_member_once_whatever_links : forall c evs s r,
  let c' := restrict c (action_members c (srun evs)) in
  reachable c' s -> result s = Some r -> finished r ->
  Permutation (map fst (calls s)) (seq 0 (n c)) /\
  forall k cl, In (k, cl) (calls s) -> exists a, args c k = Some a /\ cl = (inst c k, a).
Proof. exact every_member_once_whatever_links. Qed.
Print Assumptions C19_every_member_once_whatever_links.

(* refutation of the variant that leaves out members whose link is down once the swarm is open *)
Theorem C19_filtered_members_refuted :
  exists c evs k, k < n c /\ ~ In k (action_members_filtered c (srun evs)) /\
                  n (restrict c (action_members_filtered c (srun evs))) < n c /\ In k (action_members c (srun evs)).
Proof. exact filtered_members_refuted. Qed.
Print Assumptions C19_filtered_members_refuted.

(* ---- Wave 13: error objects with a __cause__ link (`raise Outer(...) from inner`).  The wrapper reports the object
   the action raised: for every cause function and every list of raised errors, what parallel_safe chains is one of the
   raised objects, and it raises iff there is one. *)
Theorem C19_reported_error_is_raised : forall cause errs,
  (forall e, run_reporting (report_id cause) errs = Some e -> In e errs) /\
  (run_reporting (report_id cause) errs = None <-> errs = []).
Proof. exact reported_error_is_raised. Qed.
Print Assumptions C19_reported_error_is_raised.

(* refutation of reporting the root cause instead: whenever the first raised error carries a cause that no action raised,
   the caller gets an error that is not in the raised set *)
Theorem C19_root_cause_variant_not_raised : forall cause fuel e c rest,
  cause e = Some c -> cause c = None -> ~ In c (e :: rest) -> fuel >= 1 ->
  exists r, run_reporting (root_cause cause fuel) (e :: rest) = Some r /\ ~ In r (e :: rest).
Proof. exact root_cause_variant_not_raised. Qed.
Print Assumptions C19_root_cause_variant_not_raised.

Theorem C19_root_cause_variant_refuted :
  exists cause errs r, run_reporting (root_cause cause 3) errs = Some r /\ ~ In r errs /\
                       run_reporting (report_id cause) errs = Some 1 /\ In 1 errs.
Proof. exact root_cause_variant_refuted. Qed.
Print Assumptions C19_root_cause_variant_refuted.

(* ---- Wave 14: bookkeeping of the started threads.  parallel_safe keeps them in a list and joins every element (the
   transition system above: `joined` runs over 0..n-1, C19_parallel_safe_waits_all).  Also: the member dictionary of a
   swarm with distinct URIs is exactly the URIs in order with their instances. *)
Theorem C19_cfs_distinct : forall uris, NoDup uris -> cfs uris = combine uris (seq 0 (List.length uris)).
Proof. exact cfs_distinct. Qed.
Print Assumptions C19_cfs_distinct.

Theorem C19_joined_equals_started : forall uris, joined_list uris = seq 0 (List.length uris).
Proof. exact joined_equals_started. Qed.
Print Assumptions C19_joined_equals_started.

(* a map keyed by a name derived from the URI joins every thread only if the NAMES are distinct ... *)
Theorem C19_joined_by_name_distinct : forall name uris,
  NoDup (map name uris) -> joined_by_name name uris = seq 0 (List.length uris).
Proof. exact joined_by_name_distinct. Qed.
Print Assumptions C19_joined_by_name_distinct.

(* ... distinct URIs do not guarantee that: refutation with two URIs sharing the name (the earlier thread is started,
   never joined) *)
Theorem C19_joined_by_name_refuted :
  exists name uris, NoDup uris /\ ~ In 0 (joined_by_name name uris) /\ In 0 (joined_list uris).
Proof. exact joined_by_name_refuted. Qed.
Print Assumptions C19_joined_by_name_refuted.

(* ---- Wave 16: the per-member action of open_links is open_link() alone: it ends whenever open_link() ends, whether
   or not the member's parameter download ever completes (so C19_no_deadlock / C19_maximal_run_finished apply to
   open_links); the variant that waits for the parameters does not end on a link that dropped before fully_connected. *)
Theorem C19_member_open_ends : forall params_complete, member_open_ends true params_complete = true.
Proof. reflexivity. Qed.
Print Assumptions C19_member_open_ends.

Theorem C19_member_open_waiting_refuted :
  member_open_waiting_ends true false = false /\ member_open_ends true false = true.
Proof. split; reflexivity. Qed.
Print Assumptions C19_member_open_waiting_refuted.

(* ---- Wave 17: close_links calls close_link() on every member and ignores the return values: after close_links, and
   after the close_links of a failed open_links (C19_open_failure_closes_all_and_raises), no member has an open link,
   whatever the members' close_link() return and whichever links were open before. *)
Theorem C19_no_link_open_after_close : forall c ret open_before k, k < n c ->
  link_open_after open_before (close_calls_head c ret) k = false.
Proof. exact no_link_open_after_close. Qed.
Print Assumptions C19_no_link_open_after_close.

(* refutation of accumulating the return values with a short-circuiting `and`: member 0 failed to open (its close_link()
   returns False), members 1 and 2 stay open *)
Theorem C19_shortcircuit_close_refuted :
  exists c ret open_before k, k < n c /\ open_before k = true /\
    link_open_after open_before (close_calls_shortcircuit c ret) k = true /\
    link_open_after open_before (close_calls_head c ret) k = false.
Proof. exact shortcircuit_close_refuted. Qed.
Print Assumptions C19_shortcircuit_close_refuted.
