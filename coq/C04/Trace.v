(* C04/Trace.v — test plumbing for the correspondence step: runs the model over an event list and
   flattens, after every event, the observations and the observable part of the state into integers, in
   exactly the layout harness/props/c04.py produces from the real objects.  No theorem depends on it. *)
From CF Require Import C04.Model.
Open Scope Z_scope.

Definition zlen {A} (l : list A) : Z := Z.of_nat (length l).
Definition enc_uval (v : uval) : list Z := match v with VInt z => [0; z] | VFlt b => [1; b] end.
Definition enc_pkt (p : pkt) : list Z := fst p :: zlen (snd p) :: snd p.
Definition enc_bool (b : bool) : Z := if b then 1 else 0.
Definition enc_mres (r : mres) : list Z :=
  match r with
  | MBool b => [0; enc_bool b]
  | MNone => [1]
  | MDefault v => 2 :: enc_uval v
  | MState st d s => [3; enc_bool st] ++ enc_uval d ++ match s with Some v => 1 :: enc_uval v | None => [0] end
  end.
Definition enc_obs (o : obs) : list Z :=
  match o with
  | OEnq p => 1 :: enc_pkt p
  | OTx p => 2 :: enc_pkt p
  | ORx p => 3 :: enc_pkt p
  | ORaise x => [4; x]
  | OUpd cb n v => [5; cb; n] ++ enc_uval v
  | OAll => [6]
  | OMisc cb n r => [7; cb; n] ++ enc_mres r
  end.

Definition snap (c : config) (s : state) : list Z :=
  [zlen (s_queue s)] ++ flat_map (fun r => enc_pkt (r_pk r)) (s_queue s) ++
  [match s_hand s with Some _ => 1 | None => 0 end; enc_bool (s_lock s)] ++
  match s_pat s with Some l => zlen l :: l | None => [-1] end ++
  [enc_bool (s_updated s); zlen (s_clos s)] ++
  flat_map (fun e => match cache_get (e_id e) (s_cache s) with Some v => 1 :: enc_uval v | None => [0] end) (toc c) ++
  flat_map (fun e => zlen (aget (e_id e) (d_store s)) :: aget (e_id e) (d_store s)) (toc c) ++
  flat_map (fun e => enc_bool (ahas (e_id e) (d_stored s)) :: zlen (aget (e_id e) (d_stored s)) :: aget (e_id e) (d_stored s)) (toc c) ++
  [zlen (d_out s)] ++ flat_map enc_pkt (d_out s).

(* The correspondence step also feeds the client packets the well-behaved device of the theorems never sends
   (duplicated / late read and write replies): [XStray p] puts p on the link.  The client-side functions exercised
   are the same ([step c s EvDeliver]). *)
Inductive xevent := XE (e : event) | XStray (p : pkt).

Definition xstep (c : config) (s : state) (x : xevent) : option (state * list obs) :=
  match x with XE e => step c s e | XStray p => Some (dev_push s p, []) end.

Fixpoint xrun (c : config) (s : state) (xs : list xevent) : option (state * list obs) :=
  match xs with
  | [] => Some (s, [])
  | x :: r =>
    match xstep c s x with
    | None => None
    | Some (s1, o1) => match xrun c s1 r with None => None | Some (s2, o2) => Some (s2, o1 ++ o2) end
    end
  end.

(* one group = the model events of one atomic step of the implementation (an API call may be several) *)
Fixpoint trace (c : config) (s : state) (gs : list (list xevent)) : list Z :=
  match gs with
  | [] => []
  | g :: r =>
    match xrun c s g with
    | None => [-999]
    | Some (s1, o) => zlen o :: flat_map enc_obs o ++ snap c s1 ++ trace c s1 r
    end
  end.

Definition case_trace (c : config) (gs : list (list xevent)) : list Z :=
  enc_bool (wf_cfgb c) :: trace c (init c) gs.

(* Param.set_value alone, both index widths *)
Definition enc_setres (r : setres) : list Z :=
  match r with SRaise x => [0; x] | SQueue p => 1 :: enc_pkt p | SUnmodelled => [2] end.

(* cheap digest for the correspondence step (test plumbing; Common.Digest reduces modulo large primes, which is
   slow on the long per-case traces): h*33 + v + 1 and h*129 + v + 1 modulo 2^64, by shifts and additions *)
Definition dg64 (k : Z) (l : list Z) : Z :=
  fold_left (fun h v => Z.land (Z.shiftl h k + h + v + 1) 18446744073709551615) l 7.
Definition dg (l : list Z) : Z * Z := (dg64 5 l, dg64 7 l).

(* several sessions on one Param object: by C04_sessions_independent every session of [mrun] is a run from
   [init] of the table connected in it, so the expected trace is the per-session traces one after the other *)
Definition sess_trace (l : list (config * list (list xevent))) : list Z :=
  flat_map (fun cg => case_trace (fst cg) (snd cg)) l.
