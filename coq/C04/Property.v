(* C04/Property.v — property C04 (parameter writes/reads typed correctly, never cross-attributed), theorems only.
   Model: C04/Model.v (Param, _ParamUpdater, the one-shot misc closures, dispatch over a snapshot, a parameter
   server).  Events of a run: user API calls, the two blocking points of the updater thread, delivery of the next
   packet to all callbacks, unsolicited value changes on the device.  [run c (init c) evs = Some (s, o)] ranges
   over ALL event lists, i.e. all interleavings of any number of user threads with the updater and dispatcher
   threads at the granularity "a thread runs until its next blocking operation", and all reply delays. *)
From CF Require Import Common.Bytes C04.Model C04.Proofs C04.Proofs_b C04.Proofs_c C04.Proofs_d C04.Proofs_e C04.ExtModel C04.Proofs_x C04.Proofs_m C04.Race C04.Race_proofs C04.Cache C04.Names C04.Examples.
Open Scope Z_scope.

(* ---------------------------------------------------------------- typed writes *)

(* Param.set_value on a writable parameter with a value of the parameter's kind inside the type's range
   queues exactly one packet on the write channel: the parameter's index (16 bits for protocol >= 4, else 8
   bits) followed by b, where b is THE byte string of the declared width that decodes (struct.unpack with
   the parameter's declared format) to the requested value; all ten integer/float type codes. *)
Theorem C04_set_wire_exact : forall tc v2 name v e,
  find_name tc name = Some e -> e_ro e = false -> kind_ok (e_ty e) v = true -> in_range (e_ty e) v = true ->
  exists b, set_value tc v2 name v = SQueue (2, (if v2 then le_bytes 2 (e_id e) else le_bytes 1 (e_id e)) ++ b)
            /\ length b = ty_width (e_ty e) /\ bytes b /\ unpack (e_ty e) b = Some v
            /\ (forall b', bytes b' -> unpack (e_ty e) b' = Some v -> b' = b).
Proof. exact set_value_ok. Qed.
Print Assumptions C04_set_wire_exact.

Theorem C04_index_bytes : forall i,
  (0 <= i < 65536 -> le_val (le_bytes 2 i) = i /\ length (le_bytes 2 i) = 2%nat) /\
  (0 <= i < 256 -> le_val (le_bytes 1 i) = i /\ length (le_bytes 1 i) = 1%nat).
Proof. intros i. split; [apply index_bytes|apply index_bytes1]. Qed.
Print Assumptions C04_index_bytes.

(* "in range" is the range of the declared C type *)
Theorem C04_ranges : forall t z, in_range t (VInt z) = true <-> ty_min t <= z <= ty_max t.
Proof. exact in_range_spec. Qed.
Print Assumptions C04_ranges.

(* out of range: struct.error, nothing queued, nothing sent, state unchanged *)
Theorem C04_out_of_range_raises_no_tx : forall c s name v e,
  s_updated s = true -> find_name (toc c) name = Some e -> e_ro e = false ->
  kind_ok (e_ty e) v = true -> in_range (e_ty e) v = false ->
  step c s (EvSet name v) = Some (s, [ORaise X_STRUCT]).
Proof. exact set_out_of_range. Qed.
Print Assumptions C04_out_of_range_raises_no_tx.

(* unknown: KeyError; read-only: AttributeError; read of an unknown name: struct.error — state unchanged *)
Theorem C04_ro_unknown_refused_no_tx : forall c s name v,
  s_updated s = true ->
  (find_name (toc c) name = None -> step c s (EvSet name v) = Some (s, [ORaise X_KEY])) /\
  (forall e, find_name (toc c) name = Some e -> e_ro e = true -> step c s (EvSet name v) = Some (s, [ORaise X_ATTR])) /\
  (find_name (toc c) name = None -> step c s (EvRead name) = Some (s, [ORaise (read_exn name)])).
Proof. exact set_refused. Qed.
Print Assumptions C04_ro_unknown_refused_no_tx.

(* ---------------------------------------------------------------- one request at a time, in issue order *)

(* For every event list: the packets on the wire followed by the one the updater holds and the queue are exactly
   the requests in the order they were put (wire order = issue order, nothing lost, duplicated or reordered);
   #sent = #answered + (1 if the lock is held), so a request is only sent when every earlier one has been
   answered; exactly one reply is in flight while the lock is held and none otherwise, and that reply is the
   well-formed answer ([reply_ok]: same channel, same command, same parameter id) to the request on the wire,
   whose pattern is the one the updater waits for. *)
Theorem C04_one_outstanding_fifo : forall c evs s o, wf c -> run c (init c) evs = Some (s, o) ->
  enqs o = txs o ++ pend s /\
  length (txs o) = (length (rx_replies o) + b2n (s_lock s))%nat /\
  length (filter is_reply (d_out s)) = b2n (s_lock s) /\
  (s_lock s = true -> exists r, s_outst s = Some r /\ s_pat s = Some (patof (r_pk r)) /\
                      forall p, In p (d_out s) -> is_reply p = true -> reply_ok c r p) /\
  (s_lock s = false -> forall p, In p (d_out s) -> is_reply p = false).
Proof. exact one_outstanding. Qed.
Print Assumptions C04_one_outstanding_fifo.

(* The FIFO clause on its own: for every issue history (any number of threads, any interleaving with the updater) and every
   reply schedule, the packets on the wire are an initial segment of the requests in the order they were issued (put),
   and once nothing is queued or held by the updater the wire order IS the issue order. *)
Theorem C04_wire_order_is_issue_order : forall c evs s o, run c (init c) evs = Some (s, o) ->
  (exists rest, enqs o = txs o ++ rest) /\ (s_queue s = [] -> s_hand s = None -> txs o = enqs o).
Proof.
  intros c evs s o H. pose proof (fifo_from_init c evs s o H) as E. split; [now exists (pend s)|].
  intros Hq Hh. rewrite E. unfold pend. rewrite Hq, Hh. cbn. now rewrite app_nil_r.
Qed.
Print Assumptions C04_wire_order_is_issue_order.

(* A two-class priority queue (write-channel requests overtake queued reads and misc requests) in place of the FIFO
   breaks it: issue order set a, read b, read c, set c=5, store c, set c=6 goes out as set a, set c=5, set c=6,
   read b, read c, store c, and the persistent store saves 6 instead of 5. *)
Theorem C04_priority_queue_refuted : exists c evs s o, run_prio c (init c) evs = Some (s, o) /\
  skipn 3 (enqs o) = [(2, [10; 0; 1; 0]); (1, [11; 0]); (1, [12; 0]); (2, [12; 0; 5; 0]); (3, [3; 12; 0]); (2, [12; 0; 6; 0])] /\
  skipn 3 (txs o)  = [(2, [10; 0; 1; 0]); (2, [12; 0; 5; 0]); (2, [12; 0; 6; 0]); (1, [11; 0]); (1, [12; 0]); (3, [3; 12; 0])] /\
  aget 12 (d_stored s) = [6; 0].
Proof. destruct ex_prio_reorders as [s [o H]]. exists (ex_cfg true), ex_backlog, s, o. exact H. Qed.
Print Assumptions C04_priority_queue_refuted.

(* ---------------------------------------------------------------- cache, get_value and observers *)

(* In every reachable state, delivering a packet that carries a value for parameter id i (read reply, write reply
   or unsolicited MISC_VALUE_UPDATED): the parameter is in the TOC, the bytes decode with its declared type to v,
   and afterwards the cache and get_value hold v, every registered observer (per-parameter, per-group, global;
   [cbs_for]) has been called exactly once with (name, v), and no other parameter's cached value changed. *)
Theorem C04_cache_equals_device : forall c evs s o0 p rest i b,
  wf c -> run c (init c) evs = Some (s, o0) -> d_out s = p :: rest -> pkt_val p = Some (i, b) ->
  exists e v s1 o, find_id (toc c) i = Some e /\ unpack (e_ty e) b = Some v /\
    step c s EvDeliver = Some (s1, o) /\
    cache_get i (s_cache s1) = Some v /\ get_value c s1 (e_name e) = Some v /\
    upd_calls o = map (fun cb => (cb, e_name e, v)) (cbs_for c e) /\
    (forall j, j <> i -> cache_get j (s_cache s1) = cache_get j (s_cache s)).
Proof. intros. eapply deliver_value; eauto. eapply reach_inv; eauto. Qed.
Print Assumptions C04_cache_equals_device.

(* the value in a read reply is the device's value when it answered; a write is stored and echoed *)
Theorem C04_device_reply_carries_value : forall c s i b, 0 <= i < 65536 ->
  dev_recv c (1, id2 i) s = dev_push s (1, id2 i ++ [0] ++ aget i (d_store s)) /\
  dev_recv c (2, id2 i ++ b) s = dev_push (set_dev s (aset i b (d_store s)) (d_stored s) (d_out s)) (2, id2 i ++ b) /\
  aget i (aset i b (d_store s)) = b.
Proof. intros c s i b Hi. split; [now apply dev_read|now apply dev_write]. Qed.
Print Assumptions C04_device_reply_carries_value.

(* ---------------------------------------------------------------- the reply parser has no error channel for write echoes *)

(* _ParamUpdater._new_packet_cb on the write channel (protocol >= 4), when the request for parameter e is the one awaited:
   the echo of ANY value byte string of the declared width is a success echo — it is decoded with e's type, stored in the
   cache, handed once to every observer, and the lock is released.  No value (2 = ENOENT, 5, 12, 22, ... on an 8-bit
   type included) is read as an error code: the reply format carries no status byte on this channel. *)
Theorem C04_write_echo_is_always_a_value : forall c s e b,
  wf c -> In e (toc c) -> length b = ty_width (e_ty e) -> s_pat s = Some (id2 (e_id e)) ->
  exists v, unpack (e_ty e) b = Some v /\
            updater_cb c (2, id2 (e_id e) ++ b) s = (release (val_state c s e v), val_obs c s e v) /\
            cache_get (e_id e) (s_cache (release (val_state c s e v))) = Some v /\
            upd_calls (val_obs c s e v) = map (fun cb => (cb, e_name e, v)) (cbs_for c e).
Proof.
  intros c s e b Hw He Hl Hp. destruct (updater_cb_write c s e b Hw He Hl Hp) as [v [Hu Hc]].
  exists v. repeat split; try assumption; [apply cache_get_set_same|apply upd_calls_val].
Qed.
Print Assumptions C04_write_echo_is_always_a_value.

(* the same for a read reply with status byte 0, whatever the value bytes look like *)
Theorem C04_read_reply_value_is_never_a_status : forall c s e b,
  wf c -> In e (toc c) -> length b = ty_width (e_ty e) -> s_pat s = Some (id2 (e_id e)) ->
  exists v, unpack (e_ty e) b = Some v /\
            updater_cb c (1, id2 (e_id e) ++ [0] ++ b) s = (release (val_state c s e v), val_obs c s e v).
Proof. intros c s e b Hw He Hl Hp. exact (updater_cb_read c s e b Hw He Hl Hp). Qed.
Print Assumptions C04_read_reply_value_is_never_a_status.

(* ---------------------------------------------------------------- attribution of misc replies *)

(* In every reachable state of the repaired code, delivering a packet that carries no value (i.e. the reply to a
   persistent_store / persistent_clear / persistent_get_state / get_default_value request): it answers the request
   on the wire (command cmd, parameter e); exactly the pending closures registered for that command and that
   parameter are called, once each, with e's name and the reply decoded with e's type, and are removed; every
   other closure is neither called nor removed; no update callback fires; the cache is unchanged; the lock is released. *)
Theorem C04_reply_attribution : forall c evs s o0 p rest,
  wf c -> idmatch c = true -> run c (init c) evs = Some (s, o0) -> d_out s = p :: rest -> pkt_val p = None ->
  exists r e cmd res s1 o, s_outst s = Some r /\ r_pk r = (3, cmd :: id2 (e_id e)) /\ In e (toc c) /\ misc_cmd cmd /\
    step c s EvDeliver = Some (s1, o) /\
    misc_calls o = map (fun k => (k_cb k, e_name e, res)) (filter (key_is cmd (e_id e)) (s_clos s)) /\
    s_clos s1 = filter (fun k => negb (key_is cmd (e_id e) k)) (s_clos s) /\
    upd_calls o = [] /\ s_cache s1 = s_cache s /\ s_lock s1 = false.
Proof. intros. eapply deliver_misc; eauto. eapply reach_inv; eauto. Qed.
Print Assumptions C04_reply_attribution.

(* value packets (including unsolicited notifications) never reach a misc closure *)
Theorem C04_value_packets_bypass_closures : forall c evs s o0 p rest i b s1 o,
  wf c -> run c (init c) evs = Some (s, o0) -> d_out s = p :: rest -> pkt_val p = Some (i, b) ->
  step c s EvDeliver = Some (s1, o) -> misc_calls o = [] /\ s_clos s1 = s_clos s.
Proof. intros. eapply deliver_value_no_misc; eauto. eapply reach_inv; eauto. Qed.
Print Assumptions C04_value_packets_bypass_closures.

(* Before the repair (closures match on command only; F04): a callback registered for parameter 1 is handed the
   reply to the request for parameter 0. *)
Theorem C04_unrepaired_attribution_refuted : exists c evs s o,
  wf c /\ idmatch c = false /\ run c (init c) evs = Some (s, o) /\
  misc_calls o = [(1, 0, MState false (VInt 7) None); (2, 1, MState false (VInt 7) None)].
Proof. destruct ex_f04 as [s [o [H1 [H2 H3]]]]. exists (ex_cfg false), ex_f04_events, s, o. now repeat split. Qed.
Print Assumptions C04_unrepaired_attribution_refuted.

(* After the repair two pending requests for the SAME command and parameter still share the first reply
   (known finding F04b): "delivered to the request it answers and to no other" does not hold for them. *)
Theorem C04_same_param_requests_share_reply_refuted : exists c evs s o,
  wf c /\ idmatch c = true /\ run c (init c) evs = Some (s, o) /\
  misc_calls o = [(1, 0, MState false (VInt 7) None); (3, 0, MState false (VInt 7) None)] /\ s_clos s = [].
Proof. destruct ex_f04b as [s [o [H1 [H2 [H3 H4]]]]]. exists (ex_cfg true), ex_f04b_events, s, o. now repeat split. Qed.
Print Assumptions C04_same_param_requests_share_reply_refuted.

(* ---------------------------------------------------------------- cache = device store, globally *)

(* For every event list of the repaired code and every parameter of the TOC: whenever no packet carrying a value for
   that parameter (read reply, write reply, notification) is on its way — in particular at quiescence — the cached
   value, which is what get_value returns, is either still absent or the device's CURRENT value decoded with the
   parameter's declared type. *)
Theorem C04_cache_is_device_when_quiet : forall c evs s o e,
  wf c -> idmatch c = true -> run c (init c) evs = Some (s, o) -> In e (toc c) ->
  last_val (e_id e) (d_out s) = None ->
  get_value c s (e_name e) = cache_get (e_id e) (s_cache s) /\
  (cache_get (e_id e) (s_cache s) = None \/
   cache_get (e_id e) (s_cache s) = unpack (e_ty e) (aget (e_id e) (d_store s))).
Proof. exact cache_is_device. Qed.
Print Assumptions C04_cache_is_device_when_quiet.

(* ---------------------------------------------------------------- extended-type replies (_ExtendedTypeFetcher) *)

(* repaired callback: a packet that is not an extended-type reply (notification, reply to another misc command, any
   other channel) never changes the fetcher *)
Theorem C04_ext_other_packets_ignored : forall c s p,
  x_cmdcheck c = true -> is_xreply p = false -> f_on_packet c s p = (s, []).
Proof. exact f_other_ignored. Qed.
Print Assumptions C04_ext_other_packets_ignored.

(* an extended-type reply for a parameter other than the one in flight (duplicated, late) changes nothing *)
Theorem C04_ext_reply_not_in_flight_ignored : forall c s j xt,
  0 <= j < 65536 -> f_req s <> j -> f_on_packet c s (3, 2 :: id2 j ++ [xt]) = (s, []).
Proof. exact f_reply_not_in_flight. Qed.
Print Assumptions C04_ext_reply_not_in_flight_ignored.

(* For every event list (worker steps, deliveries, arbitrary other packets from the device): the requests on the
   wire are a prefix of the extended ids in table order, answered ones first, at most one in flight; exactly one
   extended-type reply is on the link while the lock is held, and it is the reply for the parameter in flight; the
   ids marked persistent are exactly the answered ones whose device type is 1; the done callback has fired exactly
   once iff every request has been answered (_count = number of unanswered requests), never before. *)
Theorem C04_ext_phase : forall c evs s o,
  wf_xcfg c = true -> x_cmdcheck c = true -> x_ids c <> [] -> frun c (fstart c) evs = Some (s, o) ->
  x_ids c = f_ans s ++ inflight s ++ opt_list (f_hand s) ++ f_queue s /\
  f_sent s = f_ans s ++ inflight s /\
  length (filter is_xreply (f_out s)) = b2n (f_lock s) /\
  (f_lock s = true -> forall p, In p (f_out s) -> is_xreply p = true -> p = xreply c (f_req s)) /\
  f_pers s = rev (filter (fun i => xtype c i =? 1) (f_ans s)) /\
  f_count s = Z.of_nat (length (inflight s ++ opt_list (f_hand s) ++ f_queue s)) /\
  f_done s = (if f_count s =? 0 then 1 else 0).
Proof. exact ext_phase. Qed.
Print Assumptions C04_ext_phase.

(* Before the repair (F04e): a MISC_VALUE_UPDATED notification for the parameter in flight is taken as its
   extended-type reply: id 10, whose device type is 0, ends up marked persistent. *)
Theorem C04_ext_unrepaired_refuted : exists c evs s o,
  wf_xcfg c = true /\ x_cmdcheck c = false /\ frun c (fstart c) evs = Some (s, o) /\
  In 10 (f_pers s) /\ xtype c 10 = 0 /\ f_done s = 1.
Proof.
  destruct ex_f04e as [s [o [H1 [H2 [H3 [H4 H5]]]]]]. exists (ex_x false), ex_x_events, s, o.
  repeat split; try assumption. rewrite H3. right. now left.
Qed.
Print Assumptions C04_ext_unrepaired_refuted.

(* ---------------------------------------------------------------- several sessions on one Param object *)

(* Ending a session in ANY state (requests queued, held by the updater, on the wire, closures of unanswered misc requests
   registered, replies in flight) and connecting to a device with table c leaves NOTHING of the earlier session in the
   Param / updater / dispatcher state (repaired code, F04f): it is the state of a first connection to c. *)
Theorem C04_reconnect_fresh : forall c s, reconnect true c s = init c.
Proof. exact reconnect_fresh. Qed.
Print Assumptions C04_reconnect_fresh.

(* For every history of sessions (any tables: permuted indices, changed types, removed/added names, RO/RW flips; any
   events in each; every session may be cut at any point) the last session's final state and observations are those of a
   run from a first connection to its own table: nothing of an earlier session influences it.  In particular no
   callback registered in an earlier session is invoked and no reply is decoded with an earlier table. *)
Theorem C04_sessions_independent : forall hs s0 c evs s os, mrun true s0 (hs ++ [(c, evs)]) = Some (s, os) ->
  exists os' o, os = os' ++ [o] /\ run c (init c) evs = Some (s, o).
Proof. exact mrun_last. Qed.
Print Assumptions C04_sessions_independent.

(* every closure pending in the current session was registered with an element of the current table *)
Theorem C04_closures_of_current_session : forall hs s0 c evs s os, wf c -> mrun true s0 (hs ++ [(c, evs)]) = Some (s, os) ->
  Forall (fun k => In (k_elem k) (toc c) /\ misc_cmd (k_cmd k)) (s_clos s).
Proof. exact mrun_closures. Qed.
Print Assumptions C04_closures_of_current_session.

(* Before the repair (F04f): a callback registered in session 1 (get_default_value of name 0, never answered) is invoked
   in session 2 with a value of the device of session 2, under the name of session 1. *)
Theorem C04_earlier_session_callback_refuted : exists hs s os, mrun false blank hs = Some (s, os) /\
  misc_calls (concat os) = [(1, 0, MDefault (VInt 9)); (2, 1, MDefault (VInt 9))].
Proof. destruct ex_f04f as [s [os H]]. exists ex_hist, s, os. exact H. Qed.
Print Assumptions C04_earlier_session_callback_refuted.

(* A disconnect that removes the pending callbacks while iterating the live list leaves every second one registered: with
   three default-value requests unanswered at the cut, the callback of the second is invoked in the next session. *)
Theorem C04_every_second_callback_survives_refuted : exists hs s os, mrun_alt blank hs = Some (s, os) /\
  misc_calls (concat os) = [(2, 1, MDefault (VInt 1027)); (4, 1, MDefault (VInt 1027))].
Proof. destruct ex_alt as [s [os H]]. exists ex_hist3, s, os. exact H. Qed.
Print Assumptions C04_every_second_callback_survives_refuted.

(* What set_value does with a name is a function of the table of the session it is called in: unknown there =>
   KeyError; read-only there => AttributeError; otherwise the index and the declared type of THAT table. *)
Theorem C04_set_resolves_in_current_table : forall c s name v, s_updated s = true ->
  step c s (EvSet name v) =
  match find_name (toc c) name with
  | None => Some (s, [ORaise X_KEY])
  | Some e =>
    if e_ro e then Some (s, [ORaise X_ATTR])
    else if negb (kind_ok (e_ty e) v) then None
    else match pack (e_ty e) v with
         | None => Some (s, [ORaise X_STRUCT])
         | Some b => Some (enq s (mkReq (2, id2 (e_id e) ++ b) None), [OEnq (2, id2 (e_id e) ++ b)])
         end
  end.
Proof. exact set_by_name. Qed.
Print Assumptions C04_set_resolves_in_current_table.

(* get_default_value / persistent_* requests carry the index of the name in the current table and register their
   closure with the element of the current table *)
Theorem C04_misc_resolves_in_current_table : forall c s cmd name cb e,
  find_name (toc c) name = Some e -> misc_ok cmd cb e = true ->
  step c s (EvMisc cmd name cb) =
  Some (enq (add_clo s cmd e cb) (mkReq (3, cmd :: id2 (e_id e)) cb), [OEnq (3, cmd :: id2 (e_id e))]).
Proof. exact misc_by_name. Qed.
Print Assumptions C04_misc_resolves_in_current_table.

(* ---------------------------------------------------------------- the updater THREAD across link changes *)

(* The repaired updater (F04g: requests tagged with the session counter when put, dropped after wait_lock.acquire() if
   close() ran since), as a thread program (pc + held request) composed with issue / reply / link-down / link-up events,
   hand-over at request_queue.get() and wait_lock.acquire().  For EVERY interleaving: a request issued in session k
   (built from its table) only ever goes out on the link of session k; every reply in flight, and the request whose
   pattern the lock waits for, belong to the current session, so no reply of an earlier session releases the lock or is
   attributed to a request of a later one; and the requests on the wire are in issue order (strictly increasing issue
   numbers: none duplicated, none overtaken), also across reconnects. *)
Theorem C04_updater_never_crosses_sessions : forall evs s, urun fixedc u0 evs = Some s ->
  Forall (fun w => q_sess (snd w) = fst w) (u_wire s) /\
  Forall (fun r => q_sess r = u_sess s) (u_fly s) /\
  (forall o, u_out s = Some o -> q_sess o = u_sess s) /\
  Sorted.StronglySorted Z.lt (map (fun w => q_seq (snd w)) (u_wire s)).
Proof. exact updater_sessions. Qed.
Print Assumptions C04_updater_never_crosses_sessions.

(* Before the repair: a request dequeued in session 0 while an earlier one is awaited is sent on the link of session 1. *)
Theorem C04_stale_request_refuted : exists evs s, urun (mkRC false false) u0 evs = Some s /\
  u_wire s = [(0, mkRq 0 0 7); (1, mkRq 0 1 5)].
Proof. destruct ex_unrepaired as [s H]. exists ex_stale, s. exact H. Qed.
Print Assumptions C04_stale_request_refuted.

(* Known residual (F04h): with hand-over also at Crazyflie._send_lock, between the tag check and the driver call, the
   repaired updater can still be overtaken by a complete close_link + open_link. *)
Theorem C04_send_window_refuted : exists evs s, urun (mkRC true true) u0 evs = Some s /\ u_wire s = [(1, mkRq 0 0 5)].
Proof. destruct ex_send_window as [s H]. exists ex_window, s. exact H. Qed.
Print Assumptions C04_send_window_refuted.

(* ---------------------------------------------------------------- a table restored from a TOC cache file *)

(* Writing an element to the cache and reading it back gives the element again (access 0 / 1 on disk, library constant 1),
   so everything proved about tables holds for tables that come from a cache hit. *)
Theorem C04_cache_file_round_trip : forall e x pers, pers (e_id e) = e_pers e -> of_disk 1 pers (to_disk e x) = e.
Proof. exact of_to_disk. Qed.
Print Assumptions C04_cache_file_round_trip.

(* A parameter that is read-only on disk (access 1, what HEAD writes and read-only cache directories ship) is refused
   without any transmission when the table of the session was restored from the file: AttributeError, state unchanged. *)
Theorem C04_cached_readonly_refused_no_tx : forall c s pers ds name v d,
  toc c = restore 1 pers ds -> s_updated s = true ->
  find (fun x => k_name x =? name) ds = Some d -> k_access d = RO_ACCESS_DISK ->
  step c s (EvSet name v) = Some (s, [ORaise X_ATTR]).
Proof. exact restored_readonly_refused. Qed.
Print Assumptions C04_cached_readonly_refused_no_tx.

(* With RO_ACCESS = 0x40 (the firmware flag) in place of 1 the same file lets a write to the read-only parameter 1 through. *)
Theorem C04_flag_constant_refuted : exists s o, run (ex_cache_cfg 64) (init (ex_cache_cfg 64))
    [EvRead 0; EvRead 1; EvUGet; EvUSend; EvDeliver; EvUGet; EvUSend; EvDeliver; EvSet 1 (VInt 7); EvUGet; EvUSend] = Some (s, o) /\
  txs o = [(1, [0; 0]); (1, [1; 0]); (2, [1; 0; 7; 0])].
Proof. exact ex_flag_constant. Qed.
Print Assumptions C04_flag_constant_refuted.

(* ---------------------------------------------------------------- one received packet, many callbacks: dispatch by value *)

(* Delivery of a packet p: the updater's callback runs first; the closure list it leaves is the one it found; and every closure is
   matched against, and decodes, the bytes of p AS RECEIVED — nothing an earlier callback does to its argument reaches a later one. *)
Theorem C04_dispatch_is_by_value : forall c s p rest, d_out s = p :: rest ->
  exists s1 o1, updater_cb c p (set_dev s (d_store s) (d_stored s) rest) = (s1, o1) /\ s_clos s1 = s_clos s /\
    step c s EvDeliver =
    Some (set_clos s1 (filter (fun k => negb (clo_fires (idmatch c) p k)) (s_clos s1)), ORx p :: o1 ++ clo_obs (idmatch c) p (s_clos s1)).
Proof.
  intros c s p rest Eo. destruct (updater_cb c p (set_dev s (d_store s) (d_stored s) rest)) as [s1 o1] eqn:Eu.
  exists s1, o1. split; [reflexivity|]. split.
  - apply updater_cb_pend in Eu as [_ [_ [Ek _]]]. exact Ek.
  - cbn [step]. rewrite Eo, Eu. reflexivity.
Qed.
Print Assumptions C04_dispatch_is_by_value.

(* An unsolicited MISC_VALUE_UPDATED notification, WHATEVER its index and value bytes (also when index = command | id_lo << 8 and
   the first value byte = id_hi of a parameter with a misc request outstanding), calls no misc callback and removes no closure. *)
Theorem C04_notification_never_answers_a_request : forall c evs s o0 data rest s1 o,
  wf c -> run c (init c) evs = Some (s, o0) -> d_out s = (3, 1 :: data) :: rest ->
  step c s EvDeliver = Some (s1, o) -> misc_calls o = [] /\ s_clos s1 = s_clos s.
Proof.
  intros c evs s o0 data rest s1 o Hw Hr Eo Hs.
  eapply (deliver_value_no_misc c s (3, 1 :: data) rest (le_val (slice (1 :: data) 1 3)) (skipn 3 (1 :: data))); eauto.
  eapply reach_inv; eauto.
Qed.
Print Assumptions C04_notification_never_answers_a_request.

(* With callbacks sharing a mutable packet and an updater that strips the notification's command byte in place, the notification
   "parameter 6 := 0x2A00" is consumed as the default value (42 instead of 7) of parameter 0, and the real reply reaches nobody. *)
Theorem C04_in_place_strip_refuted : exists s o, run_strip ex_al (init ex_al) ex_al_events = Some (s, o) /\
  misc_calls o = [(1, 0, MDefault (VInt 42))] /\ s_clos s = [].
Proof. exact ex_strip_misattributes. Qed.
Print Assumptions C04_in_place_strip_refuted.

(* ---------------------------------------------------------------- resolution of a complete name (strings) *)
From Coq Require Import String Ascii.

(* Toc.get_element_by_complete_name at HEAD: split at the dots, exactly two parts, toc[group][name].  With dot-free groups and
   names in the table, a name resolves to e iff it IS the string group ++ "." ++ name of an entry holding e — no derived name
   (known + ".tail", known + ".", "." + known, doubled dots, missing dot, other case, blanks, prefixes) resolves. *)
Theorem C04_name_resolution_is_exact : forall (A : Type) (tbl : list (entry A)) n e, table_ok A tbl ->
  (resolve A false tbl n = Some e <-> exists g m, lookup A tbl g m = Some e /\ n = String.append g (String.String "."%char m)).
Proof. exact resolve_exact. Qed.
Print Assumptions C04_name_resolution_is_exact.

(* whatever the table holds, a resolved name has exactly one dot: an entry whose group or name contains a dot is unreachable *)
Theorem C04_resolved_name_has_one_dot : forall (A : Type) (tbl : list (entry A)) n e, resolve A false tbl n = Some e ->
  exists g m, n = String.append g (String.String "."%char m) /\ dotfree g = true /\ dotfree m = true.
Proof. exact resolve_parts_dotfree. Qed.
Print Assumptions C04_resolved_name_has_one_dot.

(* the variant that accepts two OR MORE parts resolves names the table does not hold *)
Theorem C04_prefix_tolerant_resolution_refuted :
  resolve nat true ex_tbl "ring.effect.bak"%string = Some 7%nat /\ resolve nat true ex_tbl "ring.effect."%string = Some 7%nat /\
  resolve nat true ex_tbl "pid.kp.min"%string = Some 3%nat /\ resolve nat false ex_tbl "ring.effect.bak"%string = None.
Proof. destruct ex_tolerant as [H1 [H2 H3]]. destruct ex_exact as [H4 _]. now repeat split. Qed.
Print Assumptions C04_prefix_tolerant_resolution_refuted.
