(* C04/Model.v — executable model of the parameter subsystem (cflib/crazyflie/param.py) on top of the
   port-callback dispatch of cflib/crazyflie/__init__.py, together with a param-server (device) model.

   Client side: Param.set_value / request_param_update / get_default_value / persistent_store /
   persistent_clear / persistent_get_state, Param._param_updated, _ParamUpdater (request_queue, wait_lock,
   _lock_pattern, run loop split at its two blocking points, _new_packet_cb), the one-shot closures
   registered through cf.add_port_callback, dispatched over a SNAPSHOT of the registrations (defect F07
   repaired) and matching on channel, command AND parameter id (defect F04 repaired; [idmatch = false]
   gives the behaviour before the repair).
   Protocol version >= 4 (16-bit parameter index) in the transition system; [set_packet] also covers the
   8-bit index of older firmware.
   Hand-written; tied to the code by differential evaluation of event lists (harness/props/c04.py). *)
From CF Require Export Common.Bytes.
Open Scope Z_scope.

(* ------------------------------------------------------------------ parameter types *)

(* ParamTocElement.types without FP16 (0x05, empty format string: cannot be packed) *)
Inductive pty := TI8 | TI16 | TI32 | TI64 | TU8 | TU16 | TU32 | TU64 | TF32 | TF64.

Definition ty_of_code (c : Z) : option pty :=
  if c =? 0 then Some TI8 else if c =? 1 then Some TI16 else if c =? 2 then Some TI32 else
  if c =? 3 then Some TI64 else if c =? 8 then Some TU8 else if c =? 9 then Some TU16 else
  if c =? 10 then Some TU32 else if c =? 11 then Some TU64 else if c =? 6 then Some TF32 else
  if c =? 7 then Some TF64 else None.

Definition ty_width (t : pty) : nat :=
  match t with
  | TI8 | TU8 => 1 | TI16 | TU16 => 2 | TI32 | TU32 | TF32 => 4 | TI64 | TU64 | TF64 => 8
  end%nat.
Definition ty_float (t : pty) : bool := match t with TF32 | TF64 => true | _ => false end.
Definition ty_signed (t : pty) : bool := match t with TI8 | TI16 | TI32 | TI64 => true | _ => false end.

(* A value as the user hands it over / as struct.unpack returns it.  Integers are unbounded Python ints.
   Floats are carried as the bit pattern in the parameter's own format (binary32 for '<f', binary64 for
   '<d'): the model does not round. *)
Inductive uval := VInt (z : Z) | VFlt (b : Z).

Definition pow256 (n : nat) : Z := 256 ^ Z.of_nat n.

(* the value is of the parameter's kind (int for integer types, a float pattern of the right width) *)
Definition kind_ok (t : pty) (v : uval) : bool :=
  match v with
  | VInt _ => negb (ty_float t)
  | VFlt b => ty_float t && (0 <=? b) && (b <? pow256 (ty_width t))
  end.

Definition in_range (t : pty) (v : uval) : bool :=
  match v with
  | VInt z => if ty_signed t then (- (pow256 (ty_width t) / 2) <=? z) && (z <? pow256 (ty_width t) / 2)
              else (0 <=? z) && (z <? pow256 (ty_width t))
  | VFlt b => (0 <=? b) && (b <? pow256 (ty_width t))
  end.

(* struct.pack(element.pytype, value_nr): None = struct.error *)
Definition pack (t : pty) (v : uval) : option (list Z) :=
  if in_range t v then
    Some (match v with
          | VInt z => le_bytes (ty_width t) (to_unsigned (ty_width t) z)
          | VFlt b => le_bytes (ty_width t) b
          end)
  else None.

(* struct.unpack(element.pytype, data)[0]: None = struct.error (wrong length) *)
Definition unpack (t : pty) (l : list Z) : option uval :=
  if Nat.eqb (length l) (ty_width t) then
    Some (if ty_float t then VFlt (le_val l)
          else if ty_signed t then VInt (to_signed (ty_width t) (le_val l))
          else VInt (le_val l))
  else None.

(* ------------------------------------------------------------------ configuration *)

Definition pkt := (Z * list Z)%type.          (* channel, data — everything is on port 2 *)

Record elem := mkElem { e_id : Z; e_name : Z; e_group : Z; e_ty : pty; e_ro : bool; e_pers : bool }.

Record config := mkCfg {
  toc : list elem;
  cb_param : list (Z * Z);        (* complete name, callback id   (param_update_callbacks) *)
  cb_group : list (Z * Z);        (* group, callback id           (group_update_callbacks) *)
  cb_all : list Z;                (* all_update_callback *)
  dev_init : list (Z * list Z);   (* device: id -> value bytes at connection time *)
  dev_default : list (Z * list Z);(* device: id -> default value bytes *)
  dev_enoent : list Z;            (* device: ids answered with ENOENT on the misc channel *)
  idmatch : bool                  (* closures compare the parameter id (true = repaired code) *)
}.

Definition find_name (tc : list elem) (n : Z) : option elem := find (fun e => e_name e =? n) tc.
Definition find_id (tc : list elem) (i : Z) : option elem := find (fun e => e_id e =? i) tc.
Definition id2 (i : Z) : list Z := le_bytes 2 i.

Fixpoint znodup (l : list Z) : bool :=
  match l with [] => true | x :: r => negb (existsb (Z.eqb x) r) && znodup r end.

Definition aget (i : Z) (m : list (Z * list Z)) : list Z :=
  match find (fun p => fst p =? i) m with Some p => snd p | None => [] end.
Definition aset (i : Z) (b : list Z) (m : list (Z * list Z)) : list (Z * list Z) :=
  (i, b) :: filter (fun p => negb (fst p =? i)) m.
Definition adel (i : Z) (m : list (Z * list Z)) : list (Z * list Z) :=
  filter (fun p => negb (fst p =? i)) m.
Definition ahas (i : Z) (m : list (Z * list Z)) : bool := existsb (fun p => fst p =? i) m.

Definition wf_cfgb (c : config) : bool :=
  znodup (map e_id (toc c)) && znodup (map e_name (toc c)) &&
  forallb (fun e => (0 <=? e_id e) && (e_id e <? 65536) &&
                    Nat.eqb (length (aget (e_id e) (dev_init c))) (ty_width (e_ty e)) &&
                    bytesb (aget (e_id e) (dev_init c)) &&
                    Nat.eqb (length (aget (e_id e) (dev_default c))) (ty_width (e_ty e)) &&
                    bytesb (aget (e_id e) (dev_default c))) (toc c).

(* ------------------------------------------------------------------ state *)

Record closure := mkClo { k_cmd : Z; k_elem : elem; k_cb : Z }.

(* a queued request; r_tag is the callback of the closure registered together with it (bookkeeping
   only: nothing in the transition function reads it) *)
Record req := mkReq { r_pk : pkt; r_tag : option Z }.

Record state := mkSt {
  s_queue : list req;            (* _ParamUpdater.request_queue *)
  s_hand : option req;           (* updater thread has dequeued it and waits for wait_lock *)
  s_lock : bool;                 (* wait_lock held *)
  s_pat : option (list Z);       (* _lock_pattern *)
  s_outst : option req;          (* bookkeeping: the request on the wire whose reply is still awaited *)
  s_cache : list (Z * uval);     (* Param.values, keyed by parameter id *)
  s_updated : bool;              (* is_updated / _initialized *)
  s_clos : list closure;         (* one-shot closures, registration order (after the updater's callback) *)
  d_store : list (Z * list Z);   (* device: current values *)
  d_stored : list (Z * list Z);  (* device: values in persistent storage *)
  d_out : list pkt               (* device -> client link, FIFO *)
}.

Definition init (c : config) : state :=
  mkSt [] None false None None [] false [] (dev_init c) [] [].

Inductive mres := MBool (b : bool) | MNone | MDefault (v : uval) | MState (stored : bool) (d : uval) (s : option uval).

Inductive obs :=
| OEnq (p : pkt)                       (* request_queue.put *)
| OTx (p : pkt)                        (* packet handed to the link *)
| ORx (p : pkt)                        (* packet taken from the link by the dispatcher *)
| ORaise (x : Z)                       (* API call raised: 1 KeyError 2 AttributeError 3 struct.error 5 TypeError 6 ValueError *)
| OUpd (cb name : Z) (v : uval)        (* update callback cb(name, value) *)
| OAll                                 (* all_updated callbacks *)
| OMisc (cb name : Z) (r : mres).      (* callback of a misc request *)

Definition X_KEY := 1. Definition X_ATTR := 2. Definition X_STRUCT := 3. Definition X_TYPE := 5. Definition X_VALUE := 6.

(* Names are abstract: n >= 0 stands for a string with exactly one dot ('group.name': in the table or not); n < 0 for a
   string that does not split into exactly two parts at its dots ('a.b.c', 'a.b.', 'ab', '').  Only
   Param.request_param_update tells the two kinds of unknown names apart: Toc.get_element_id unpacks split('.') into
   [group, name] without catching the ValueError. *)
Definition read_exn (name : Z) : Z := if name <? 0 then X_VALUE else X_STRUCT.

Inductive event :=
| EvSet (name : Z) (v : uval)
| EvRead (name : Z)
| EvMisc (cmd name : Z) (cb : option Z)    (* 3 store, 4 get_state, 5 clear, 6 get_default_value *)
| EvUGet                                   (* updater: request_queue.get() returns *)
| EvUSend                                  (* updater: wait_lock.acquire() returns; pattern set; packet sent *)
| EvDeliver                                (* dispatcher: next packet from the link, all callbacks *)
| EvNotify (id : Z) (b : list Z).          (* device: value changed on its own, MISC_VALUE_UPDATED queued *)

(* ---- setters *)
Definition set_queue s q := mkSt q (s_hand s) (s_lock s) (s_pat s) (s_outst s) (s_cache s) (s_updated s) (s_clos s) (d_store s) (d_stored s) (d_out s).
Definition set_hand s h := mkSt (s_queue s) h (s_lock s) (s_pat s) (s_outst s) (s_cache s) (s_updated s) (s_clos s) (d_store s) (d_stored s) (d_out s).
Definition set_lock s l p o := mkSt (s_queue s) (s_hand s) l p o (s_cache s) (s_updated s) (s_clos s) (d_store s) (d_stored s) (d_out s).
Definition set_cache s ch u := mkSt (s_queue s) (s_hand s) (s_lock s) (s_pat s) (s_outst s) ch u (s_clos s) (d_store s) (d_stored s) (d_out s).
Definition set_clos s k := mkSt (s_queue s) (s_hand s) (s_lock s) (s_pat s) (s_outst s) (s_cache s) (s_updated s) k (d_store s) (d_stored s) (d_out s).
Definition set_dev s st sd o := mkSt (s_queue s) (s_hand s) (s_lock s) (s_pat s) (s_outst s) (s_cache s) (s_updated s) (s_clos s) st sd o.

(* ------------------------------------------------------------------ Param.set_value *)

(* the packet Param.set_value builds: v2 = protocol version >= 4 *)
Definition set_packet (v2 : bool) (e : elem) (b : list Z) : pkt :=
  (2, (if v2 then id2 (e_id e) else le_bytes 1 (e_id e)) ++ b).

Inductive setres := SRaise (x : Z) | SQueue (p : pkt) | SUnmodelled.

Definition set_value (tc : list elem) (v2 : bool) (name : Z) (v : uval) : setres :=
  match find_name tc name with
  | None => SRaise X_KEY
  | Some e =>
    if e_ro e then SRaise X_ATTR
    else if negb (kind_ok (e_ty e) v) then SUnmodelled
    else match pack (e_ty e) v with
         | None => SRaise X_STRUCT
         | Some b => SQueue (set_packet v2 e b)
         end
  end.

(* ------------------------------------------------------------------ Param._param_updated *)

Definition cbs_for (c : config) (e : elem) : list Z :=
  map snd (filter (fun p => fst p =? e_name e) (cb_param c)) ++
  map snd (filter (fun p => fst p =? e_group e) (cb_group c)) ++ cb_all c.

Definition cache_get (i : Z) (ch : list (Z * uval)) : option uval :=
  match find (fun p => fst p =? i) ch with Some p => Some (snd p) | None => None end.
Definition cache_set (i : Z) (v : uval) (ch : list (Z * uval)) : list (Z * uval) :=
  (i, v) :: filter (fun p => negb (fst p =? i)) ch.
Definition all_cached (c : config) (ch : list (Z * uval)) : bool :=
  forallb (fun e => match cache_get (e_id e) ch with Some _ => true | None => false end) (toc c).

(* ii = id_index (0 on the read/write channels, 1 on the misc channel).  None = the Python code raises
   (struct.error on a short packet or a value of the wrong length). *)
Definition param_updated (c : config) (ii : nat) (data : list Z) (s : state) : option (state * list obs) :=
  let idb := slice data ii (ii + 2) in
  if Nat.eqb (length idb) 2 then
    match find_id (toc c) (le_val idb) with
    | None => Some (s, [])
    | Some e =>
      match unpack (e_ty e) (skipn (ii + 2) data) with
      | None => None
      | Some v =>
        let ch := cache_set (e_id e) v (s_cache s) in
        let fire := all_cached c ch && negb (s_updated s) in
        Some (set_cache s ch (s_updated s || fire),
              map (fun cb => OUpd cb (e_name e) v) (cbs_for c e) ++ (if fire then [OAll] else []))
      end
    end
  else None.

(* Param.get_value: None = KeyError *)
Definition get_value (c : config) (s : state) (name : Z) : option uval :=
  match find_name (toc c) name with Some e => cache_get (e_id e) (s_cache s) | None => None end.

(* ------------------------------------------------------------------ _ParamUpdater._new_packet_cb *)

Definition pat_is (p : option (list Z)) (l : list Z) : bool :=
  match p with Some q => zlist_eqb q l | None => false end.

Definition release (s : state) : state := set_lock s false None None.

Definition updater_cb (c : config) (p : pkt) (s : state) : state * list obs :=
  let '(ch, data) := p in
  if (ch =? 1) || (ch =? 2) then
    let data' := if ch =? 1 then firstn 2 data ++ skipn 3 data else data in
    if pat_is (s_pat s) (firstn 2 data) then
      match param_updated c 0 data' s with
      | None => (s, [])                 (* exception inside the callback: lock and pattern stay *)
      | Some (s1, o) => (release s1, o)
      end
    else (s, [])
  else if ch =? 3 then
    match data with
    | [] => (s, [])
    | cmd :: _ =>
      match (if cmd =? 1 then param_updated c 1 data s else Some (s, [])) with
      | None => (s, [])
      | Some (s1, o) => if pat_is (s_pat s1) (firstn 3 data) then (release s1, o) else (s1, o)
      end
    end
  else (s, []).

(* ------------------------------------------------------------------ the one-shot closures *)

Definition clo_match (im : bool) (k : closure) (p : pkt) : bool :=
  (fst p =? 3) &&
  match snd p with cmd :: _ => cmd =? k_cmd k | [] => false end &&
  (negb im || zlist_eqb (slice (snd p) 1 3) (id2 (e_id (k_elem k)))).

(* what the closure passes to the user's callback; None = it raises (IndexError / struct.error), the
   callback is not called and the closure stays registered *)
Definition clo_result (k : closure) (data : list Z) : option mres :=
  let t := e_ty (k_elem k) in
  match nth_error data 3 with
  | None => None
  | Some st =>
    if (k_cmd k =? 3) || (k_cmd k =? 5) then Some (MBool (st =? 0))
    else if k_cmd k =? 6 then
      (* ENOENT is a 4-byte reply; a value of a wider type whose first byte is 2 is a value (defect F04c repaired) *)
      if (st =? 2) && Nat.eqb (length data) 4 then Some MNone
      else match unpack t (skipn 3 data) with Some v => Some (MDefault v) | None => None end
    else (* 4 *)
      if st =? 2 then Some MNone
      else if st =? 1 then
        let rest := skipn 4 data in
        if Nat.eqb (length rest) (2 * ty_width t) then
          match unpack t (firstn (ty_width t) rest), unpack t (skipn (ty_width t) rest) with
          | Some d, Some sv => Some (MState true d (Some sv))
          | _, _ => None
          end
        else None
      else match unpack t (skipn 4 data) with Some d => Some (MState false d None) | None => None end
  end.

Definition clo_fires (im : bool) (p : pkt) (k : closure) : bool :=
  clo_match im k p && match clo_result k (snd p) with Some _ => true | None => false end.

Definition clo_obs (im : bool) (p : pkt) (ks : list closure) : list obs :=
  flat_map (fun k => if clo_match im k p then
                       match clo_result k (snd p) with
                       | Some r => [OMisc (k_cb k) (e_name (k_elem k)) r]
                       | None => []
                       end
                     else []) ks.

(* ------------------------------------------------------------------ device *)

Definition ENOENT := 2.

Definition dev_push (s : state) (p : pkt) : state := set_dev s (d_store s) (d_stored s) (d_out s ++ [p]).

Definition dev_recv (c : config) (p : pkt) (s : state) : state :=
  let '(ch, data) := p in
  if ch =? 1 then
    dev_push s (1, firstn 2 data ++ [0] ++ aget (le_val (firstn 2 data)) (d_store s))
  else if ch =? 2 then
    let i := le_val (firstn 2 data) in
    dev_push (set_dev s (aset i (skipn 2 data) (d_store s)) (d_stored s) (d_out s)) (2, data)
  else if ch =? 3 then
    match data with
    | [] => s
    | cmd :: _ =>
      let idb := slice data 1 3 in
      let i := le_val idb in
      let en := existsb (Z.eqb i) (dev_enoent c) in
      if cmd =? 6 then dev_push s (3, [6] ++ idb ++ (if en then [ENOENT] else aget i (dev_default c)))
      else if cmd =? 3 then
        if en then dev_push s (3, [3] ++ idb ++ [ENOENT])
        else dev_push (set_dev s (d_store s) (aset i (aget i (d_store s)) (d_stored s)) (d_out s)) (3, [3] ++ idb ++ [0])
      else if cmd =? 5 then
        if en then dev_push s (3, [5] ++ idb ++ [ENOENT])
        else dev_push (set_dev s (d_store s) (adel i (d_stored s)) (d_out s)) (3, [5] ++ idb ++ [0])
      else if cmd =? 4 then
        if en then dev_push s (3, [4] ++ idb ++ [ENOENT])
        else if ahas i (d_stored s) then
          dev_push s (3, [4] ++ idb ++ [1] ++ aget i (dev_default c) ++ aget i (d_stored s))
        else dev_push s (3, [4] ++ idb ++ [0] ++ aget i (dev_default c))
      else s
    end
  else s.

(* ------------------------------------------------------------------ transitions *)

Definition enq (s : state) (r : req) : state := set_queue s (s_queue s ++ [r]).

Definition misc_packet (cmd : Z) (e : elem) : pkt := (3, cmd :: id2 (e_id e)).

Definition add_clo (s : state) (cmd : Z) (e : elem) (cb : option Z) : state :=
  match cb with Some f => set_clos s (s_clos s ++ [mkClo cmd e f]) | None => s end.

Definition step (c : config) (s : state) (ev : event) : option (state * list obs) :=
  match ev with
  | EvSet name v =>
    if negb (s_updated s) then None           (* set_value blocks until all values are fetched: not modelled *)
    else match set_value (toc c) true name v with
         | SRaise x => Some (s, [ORaise x])
         | SQueue p => Some (enq s (mkReq p None), [OEnq p])
         | SUnmodelled => None
         end
  | EvRead name =>
    match find_name (toc c) name with
    | None => Some (s, [ORaise (read_exn name)])   (* struct.pack('<H', None), or the unpacking of split('.') *)
    | Some e => let p := (1, id2 (e_id e)) in Some (enq s (mkReq p None), [OEnq p])
    end
  | EvMisc cmd name cb =>
    match find_name (toc c) name with
    | None =>
      if cmd =? 3 then match cb with Some f => Some (s, [OMisc f name (MBool false)]) | None => Some (s, [ORaise X_TYPE]) end
      else if (cmd =? 4) || (cmd =? 5) then Some (s, [ORaise X_ATTR])
      else None
    | Some e =>
      if cmd =? 6 then
        match cb with
        | Some _ => let p := misc_packet 6 e in Some (enq (add_clo s 6 e cb) (mkReq p cb), [OEnq p])
        | None => None
        end
      else if (cmd =? 3) || (cmd =? 5) then
        if negb (e_pers e) then Some (s, [ORaise X_ATTR])
        else let p := misc_packet cmd e in Some (enq (add_clo s cmd e cb) (mkReq p cb), [OEnq p])
      else if cmd =? 4 then
        if negb (e_pers e) then Some (s, [ORaise X_ATTR])
        else match cb with
             | Some _ => let p := misc_packet 4 e in Some (enq (add_clo s 4 e cb) (mkReq p cb), [OEnq p])
             | None => None
             end
      else None
    end
  | EvUGet =>
    match s_hand s, s_queue s with
    | None, r :: q => Some (set_hand (set_queue s q) (Some r), [])
    | _, _ => None
    end
  | EvUSend =>
    match s_hand s with
    | Some r =>
      if s_lock s then None
      else
        let '(ch, data) := r_pk r in
        let pat := if ch =? 3 then firstn 3 data else firstn 2 data in
        let s1 := set_hand (set_lock s true (Some pat) (Some r)) None in
        Some (dev_recv c (r_pk r) s1, [OTx (r_pk r)])
    | None => None
    end
  | EvDeliver =>
    match d_out s with
    | [] => None
    | p :: rest =>
      let s0 := set_dev s (d_store s) (d_stored s) rest in
      let '(s1, o1) := updater_cb c p s0 in
      let ks := s_clos s1 in
      Some (set_clos s1 (filter (fun k => negb (clo_fires (idmatch c) p k)) ks),
            ORx p :: o1 ++ clo_obs (idmatch c) p ks)
    end
  | EvNotify i b =>
    match find_id (toc c) i with
    | Some e =>
      if Nat.eqb (length b) (ty_width (e_ty e)) && bytesb b then
        Some (dev_push (set_dev s (aset i b (d_store s)) (d_stored s) (d_out s)) (3, [1] ++ id2 i ++ b), [])
      else None
    | None => None
    end
  end.

Fixpoint run (c : config) (s : state) (evs : list event) : option (state * list obs) :=
  match evs with
  | [] => Some (s, [])
  | e :: r =>
    match step c s e with
    | None => None
    | Some (s1, o1) =>
      match run c s1 r with
      | None => None
      | Some (s2, o2) => Some (s2, o1 ++ o2)
      end
    end
  end.

(* ------------------------------------------------------------------ projections of a trace *)

Definition enqs (o : list obs) : list pkt := flat_map (fun x => match x with OEnq p => [p] | _ => [] end) o.
Definition txs (o : list obs) : list pkt := flat_map (fun x => match x with OTx p => [p] | _ => [] end) o.

(* a packet from the device that answers a request (everything but MISC_VALUE_UPDATED) *)
Definition is_reply (p : pkt) : bool :=
  if fst p =? 3 then match snd p with cmd :: _ => negb (cmd =? 1) | [] => true end else true.

Definition rx_replies (o : list obs) : list pkt :=
  flat_map (fun x => match x with ORx p => if is_reply p then [p] else [] | _ => [] end) o.

Definition misc_calls (o : list obs) : list (Z * Z * mres) :=
  flat_map (fun x => match x with OMisc cb n r => [(cb, n, r)] | _ => [] end) o.
Definition upd_calls (o : list obs) : list (Z * Z * uval) :=
  flat_map (fun x => match x with OUpd cb n v => [(cb, n, v)] | _ => [] end) o.

Definition opt_list {A} (o : option A) : list A := match o with Some a => [a] | None => [] end.
Definition b2n (b : bool) : nat := if b then 1%nat else 0%nat.

(* ------------------------------------------------------------------ the ranges, written out *)
Definition ty_min (t : pty) : Z :=
  match t with
  | TI8 => -128 | TI16 => -32768 | TI32 => -2147483648 | TI64 => -9223372036854775808
  | _ => 0
  end.
Definition ty_max (t : pty) : Z :=
  match t with
  | TI8 => 127 | TI16 => 32767 | TI32 => 2147483647 | TI64 => 9223372036854775807
  | TU8 => 255 | TU16 => 65535 | TU32 | TF32 => 4294967295 | TU64 | TF64 => 18446744073709551615
  end.

(* ------------------------------------------------------------------ several sessions on ONE Param object *)

(* Nothing is pending: queue empty, updater idle, lock free, no pattern, no closure left, link empty.  Sessions are
   closed in such states (a disconnect with requests pending is outside the model). *)
Definition quietb (s : state) : bool :=
  match s_queue s, s_hand s, s_pat s, s_clos s, d_out s with
  | [], None, None, [], [] => negb (s_lock s)
  | _, _, _, _, _ => false
  end.

(* The end of a session (close_link or a lost link): cf.link = None, then Param._disconnected:
   param_updater.close() empties the request queue and releases wait_lock; toc = Toc(); values = {}.  The updater
   thread, if it was holding a dequeued request while waiting for wait_lock, is woken by that release, finds no link,
   releases the lock and drops the request (folded into this step: it is assumed to get there before the next
   open_link).  Whatever was in flight on the link is gone with the link.  is_updated is deliberately left alone.
   [fx = true] is the repaired code (F04f): the closures of the misc requests that were never answered are removed
   from the dispatcher and _lock_pattern is reset; [fx = false] leaves both as they are. *)
Definition disconnect (fx : bool) (s : state) : state :=
  mkSt [] None false (if fx then None else s_pat s) None [] (s_updated s) (if fx then [] else s_clos s)
       (d_store s) (d_stored s) [].

(* The next open_link: Param._connection_requested (is_updated = False, toc = Toc(), values = {},
   _initialized.clear()), then the table c' of the device now connected is downloaded.  Everything else is carried
   over as it is. *)
Definition connect (c' : config) (s : state) : state :=
  mkSt (s_queue s) (s_hand s) (s_lock s) (s_pat s) (s_outst s) [] false (s_clos s) (dev_init c') [] [].

Definition reconnect (fx : bool) (c' : config) (s : state) : state := connect c' (disconnect fx s).

(* a freshly constructed Param *)
Definition blank : state := mkSt [] None false None None [] false [] [] [] [].

(* a history: for every session the table/device that is connected and what happens during it; a session may end
   at ANY point (requests queued, on the wire, closures pending) *)
Fixpoint mrun (fx : bool) (s : state) (hs : list (config * list event)) : option (state * list (list obs)) :=
  match hs with
  | [] => Some (s, [])
  | (c, evs) :: r =>
    match run c (reconnect fx c s) evs with
    | None => None
    | Some (s1, o) =>
      match mrun fx s1 r with
      | None => None
      | Some (s2, os) => Some (s2, o :: os)
      end
    end
  end.

(* a misc request the model accepts and transmits: command known, parameter persistent where required, callback
   given where the API requires one *)
Definition misc_ok (cmd : Z) (cb : option Z) (e : elem) : bool :=
  if cmd =? 6 then match cb with Some _ => true | None => false end
  else if (cmd =? 3) || (cmd =? 5) then e_pers e
  else if cmd =? 4 then e_pers e && match cb with Some _ => true | None => false end
  else false.
