(* C04/Proofs_d.v — part 4: counting sent/answered requests, value packets, attribution of misc replies. *)
From CF Require Import Common.Bytes C04.Model C04.Proofs C04.Proofs_b C04.Proofs_c.
From Coq Require Import ZifyBool.
Open Scope Z_scope.
Ltac Zify.zify_post_hook ::= Z.to_euclidean_division_equations.

Local Opaque dev_recv updater_cb clo_obs.

(* ------------------------------------------------------------------ #sent = #answered + (lock held) *)
Lemma step_count c s ev s1 o : wf c -> Inv c s -> step c s ev = Some (s1, o) ->
  (length (txs o) + b2n (s_lock s) = length (rx_replies o) + b2n (s_lock s1))%nat.
Proof.
  intros Hw I Hs. pose proof (step_inv c s ev s1 o Hw I Hs) as I1. revert Hs.
  destruct ev as [name v|name|cmd name cb| | | |i b]; cbn [step].
  - destruct (negb (s_updated s)); [discriminate|].
    destruct (set_value _ _ _ _); try discriminate; intros H; injection H as <- <-; reflexivity.
  - destruct (find_name _ _); intros H; injection H as <- <-; reflexivity.
  - destruct cb as [f|]; destruct (find_name _ _) as [el|];
      repeat match goal with |- context [if ?b then _ else _] => destruct b end;
      try discriminate; intros H; injection H as <- <-; reflexivity.
  - destruct (s_hand s); [discriminate|]. destruct (s_queue s); [discriminate|].
    intros H. injection H as <- <-. reflexivity.
  - destruct (s_hand s) as [r|]; [|discriminate]. destruct (s_lock s) eqn:El; [discriminate|].
    destruct (r_pk r) as [ch data]. intros H. injection H as <- <-.
    match goal with |- context [dev_recv c ?p ?s0] => destruct (dev_recv_client c p s0) as [_ [_ [Hl _]]] end.
    rewrite Hl. reflexivity.
  - destruct (d_out s) as [|p rest] eqn:Eo; [discriminate|].
    destruct (updater_cb _ _ _) as [s2 o2] eqn:E. intros H. injection H as <- <-.
    pose proof (updater_cb_quiet _ _ _ _ _ E) as Q1. pose proof (clo_obs_quiet (idmatch c) p (s_clos s2)) as Q2.
    pose proof (quiet_proj _ (quiet_app _ _ Q1 Q2)) as [_ [E2 E3]].
    apply updater_cb_pend in E as [_ [_ [_ [_ [_ Eout]]]]]. cbn in Eout.
    pose proof (i_cnt c s I) as C0. pose proof (i_cnt c _ I1) as C1. cbn [d_out set_clos s_lock] in C1.
    rewrite Eout in C1. rewrite Eo in C0. cbn [filter] in C0.
    unfold txs, rx_replies in *. cbn [flat_map]. rewrite E2, E3. cbn [set_clos s_lock].
    rewrite <- C0, <- C1. destruct (is_reply p); cbn [length app]; lia.
  - destruct (find_id _ _); [|discriminate]. destruct (_ && _); [|discriminate].
    intros H. injection H as <- <-. reflexivity.
Qed.

Lemma run_count c evs : wf c -> forall s s1 o, Inv c s -> run c s evs = Some (s1, o) ->
  (length (txs o) + b2n (s_lock s) = length (rx_replies o) + b2n (s_lock s1))%nat.
Proof.
  intros Hw. induction evs as [|e evs IH]; intros s s1 o I; cbn [run].
  - intros H. injection H as <- <-. reflexivity.
  - destruct (step c s e) as [[s2 o2]|] eqn:E1; [|discriminate].
    destruct (run c s2 evs) as [[s3 o3]|] eqn:E2; [|discriminate].
    intros H. injection H as <- <-.
    pose proof (step_count c s e s2 o2 Hw I E1). pose proof (IH s2 s3 o3 (step_inv c s e s2 o2 Hw I E1) E2).
    rewrite txs_app, rx_replies_app, !app_length. lia.
Qed.

(* the summary used by the property *)
Lemma one_outstanding c evs s o : wf c -> run c (init c) evs = Some (s, o) ->
  enqs o = txs o ++ pend s /\
  length (txs o) = (length (rx_replies o) + b2n (s_lock s))%nat /\
  length (filter is_reply (d_out s)) = b2n (s_lock s) /\
  (s_lock s = true -> exists r, s_outst s = Some r /\ s_pat s = Some (patof (r_pk r)) /\
                      forall p, In p (d_out s) -> is_reply p = true -> reply_ok c r p) /\
  (s_lock s = false -> forall p, In p (d_out s) -> is_reply p = false).
Proof.
  intros Hw Hr. pose proof (run_inv c evs Hw _ _ _ (inv_init c Hw) Hr) as I.
  split; [now apply (fifo_from_init c evs)|]. split.
  { pose proof (run_count c evs Hw _ _ _ (inv_init c Hw) Hr) as H. cbn in H. lia. }
  split; [apply (i_cnt c s I)|]. split.
  - intros El. destruct (i_lck c s I El) as [r [Ho Hp]]. exists r. repeat split; try assumption.
    intros p Hin Hrep. pose proof (i_out c s I) as Hout. rewrite Forall_forall in Hout. specialize (Hout p Hin).
    unfold out_elem_ok in Hout. rewrite Hrep in Hout. destruct Hout as [r' [Ho' Hok]]. congruence.
  - intros El. apply filter_nil_all. pose proof (i_cnt c s I) as H. now rewrite El in H.
Qed.

(* ------------------------------------------------------------------ value packets *)
Definition pkt_val (p : pkt) : option (Z * list Z) :=
  let '(ch, data) := p in
  if ch =? 1 then Some (le_val (firstn 2 data), skipn 3 data)
  else if ch =? 2 then Some (le_val (firstn 2 data), skipn 2 data)
  else if ch =? 3 then match data with 1 :: _ => Some (le_val (slice data 1 3), skipn 3 data) | _ => None end
  else None.

Lemma find_name_in c e : wf c -> In e (toc c) -> find_name (toc c) (e_name e) = Some e.
Proof. intros Hw Hin. unfold find_name. apply (find_unique e_name); [now apply wf_names|assumption]. Qed.

Lemma upd_calls_val c s e v : upd_calls (val_obs c s e v) = map (fun cb => (cb, e_name e, v)) (cbs_for c e).
Proof.
  unfold val_obs. rewrite upd_calls_app. replace (upd_calls (if val_fire c s e v then [OAll] else [])) with (@nil (Z * Z * uval))
    by (destruct (val_fire c s e v); reflexivity).
  rewrite app_nil_r. unfold upd_calls. induction (cbs_for c e) as [|cb l IH]; cbn; [reflexivity|now rewrite IH].
Qed.

Lemma upd_calls_quiet_misc im p ks : upd_calls (clo_obs im p ks) = [].
Proof.
  Local Transparent clo_obs. unfold clo_obs, upd_calls. Local Opaque clo_obs.
  induction ks as [|k ks IH]; cbn [flat_map]; [reflexivity|]. rewrite flat_map_app, IH, app_nil_r.
  destruct (clo_match im k p); [|reflexivity]. destruct (clo_result k (snd p)); reflexivity.
Qed.

(* Delivery of a packet that carries a value (read reply, write reply, unsolicited notification), in any
   reachable state: the cache, get_value and every registered observer — exactly once each, in registration
   order — receive the value in the packet, decoded with the parameter's declared type; other parameters
   are untouched. *)
Lemma deliver_value c s p rest i b : wf c -> Inv c s -> d_out s = p :: rest -> pkt_val p = Some (i, b) ->
  exists e v s1 o, find_id (toc c) i = Some e /\ unpack (e_ty e) b = Some v /\
    step c s EvDeliver = Some (s1, o) /\
    cache_get i (s_cache s1) = Some v /\ get_value c s1 (e_name e) = Some v /\
    upd_calls o = map (fun cb => (cb, e_name e, v)) (cbs_for c e) /\
    (forall j, j <> i -> cache_get j (s_cache s1) = cache_get j (s_cache s)).
Proof.
  intros Hw I Eo Hv. pose proof (i_out c s I) as Hout. rewrite Eo in Hout. inversion Hout as [|p0 r0 Hp _]; subst p0 r0.
  pose proof (i_cnt c s I) as Hc. rewrite Eo in Hc. cbn [filter] in Hc.
  set (s0 := set_dev s (d_store s) (d_stored s) rest).
  assert (Hfin : forall e v s2 o2, In e (toc c) -> e_id e = i -> unpack (e_ty e) b = Some v ->
            updater_cb c p s0 = (s2, o2) -> s_cache s2 = cache_set (e_id e) v (s_cache s) -> upd_calls o2 = map (fun cb => (cb, e_name e, v)) (cbs_for c e) ->
            exists e v s1 o, find_id (toc c) i = Some e /\ unpack (e_ty e) b = Some v /\
              step c s EvDeliver = Some (s1, o) /\ cache_get i (s_cache s1) = Some v /\ get_value c s1 (e_name e) = Some v /\
              upd_calls o = map (fun cb => (cb, e_name e, v)) (cbs_for c e) /\
              (forall j, j <> i -> cache_get j (s_cache s1) = cache_get j (s_cache s))).
  { intros e v s2 o2 He Hid Hu Eu Hca Hup. exists e, v. cbn [step]. rewrite Eo. fold s0. rewrite Eu.
    subst i. eexists. eexists. split; [apply find_id_in; assumption|]. split; [exact Hu|]. split; [reflexivity|].
    cbn [set_clos s_cache]. rewrite Hca. split; [apply cache_get_set_same|]. split.
    - unfold get_value. rewrite (find_name_in c e Hw He). cbn [set_clos s_cache]. rewrite Hca. apply cache_get_set_same.
    - split.
      + change (ORx p :: o2 ++ clo_obs (idmatch c) p (s_clos s2)) with ([ORx p] ++ o2 ++ clo_obs (idmatch c) p (s_clos s2)).
        rewrite !upd_calls_app, upd_calls_quiet_misc, app_nil_r. exact Hup.
      + intros j Hj. apply cache_get_set_other. congruence. }
  unfold out_elem_ok in Hp. destruct (is_reply p) eqn:Erp.
  - destruct Hp as [r [Ho Hrok]]. destruct (s_lock s) eqn:El; [|discriminate Hc].
    destruct (i_lck c s I El) as [r' [Ho' Hpat]]. rewrite Ho in Ho'. injection Ho' as <-.
    assert (Hp0 : s_pat s0 = s_pat s) by reflexivity.
    destruct Hrok as [e t b' He Hb|e b' t He Hb|e cmd t pay He Hcm Hpay].
    + destruct (wf_elem c e Hw He) as [Hid _].
      unfold pkt_val in Hv. cbn [Z.eqb Pos.eqb] in Hv. replace (firstn 2 (id2 (e_id e) ++ [0] ++ b')) with (id2 (e_id e)) in Hv by (rewrite id2_eq; reflexivity).
      replace (skipn 3 (id2 (e_id e) ++ [0] ++ b')) with b' in Hv by (rewrite id2_eq; reflexivity).
      rewrite id2_val in Hv by assumption. injection Hv as <- <-.
      destruct (updater_cb_read c s0 e b' Hw He Hb) as [v [Hu Eu]].
      { rewrite Hp0, Hpat. unfold patof. cbn [r_pk fst snd Z.eqb]. rewrite id2_eq. reflexivity. }
      eapply (Hfin e v); eauto. apply upd_calls_val.
    + destruct (wf_elem c e Hw He) as [Hid _].
      unfold pkt_val in Hv. cbn [Z.eqb Pos.eqb] in Hv. rewrite firstn2_id, skipn2_id, id2_val in Hv by assumption.
      injection Hv as <- <-.
      destruct (updater_cb_write c s0 e b' Hw He Hb) as [v [Hu Eu]].
      { rewrite Hp0, Hpat. unfold patof. cbn [r_pk fst snd Z.eqb]. now rewrite firstn2_id. }
      eapply (Hfin e v); eauto. apply upd_calls_val.
    + exfalso. unfold pkt_val in Hv. cbn [Z.eqb Pos.eqb] in Hv. unfold misc_cmd in Hcm.
      destruct Hcm as [-> | [-> | [-> | ->]]]; discriminate Hv.
  - destruct Hp as [e [b' [He [Hb ->]]]]. destruct (wf_elem c e Hw He) as [Hid _].
    unfold pkt_val in Hv. cbn [Z.eqb Pos.eqb] in Hv. rewrite slice_misc, id2_val in Hv by assumption.
    replace (skipn 3 (1 :: id2 (e_id e) ++ b')) with b' in Hv by (rewrite id2_eq; reflexivity). injection Hv as <- <-.
    assert (Hnp : pat_is (s_pat s0) (1 :: id2 (e_id e)) = false).
    { change (s_pat s0) with (s_pat s). destruct (s_lock s) eqn:El.
      - destruct (i_lck c s I El) as [r [Ho Hpat]]. rewrite Hpat. apply (pat_not_notif c).
        pose proof (i_req c s I) as Hr. unfold reqs in Hr. rewrite Ho in Hr. now inversion Hr.
      - destruct (i_unl c s I El) as [-> _]. reflexivity. }
    destruct (updater_cb_notif c s0 e b' Hw He Hb Hnp) as [v [Hu Eu]].
    eapply (Hfin e v); eauto. apply upd_calls_val.
Qed.

(* ------------------------------------------------------------------ attribution of misc replies *)
Definition key_is (cmd i : Z) (k : closure) : bool := (k_cmd k =? cmd) && (e_id (k_elem k) =? i).

Lemma id2_eqb a b : 0 <= a < 65536 -> 0 <= b < 65536 -> zlist_eqb (id2 a) (id2 b) = (a =? b).
Proof.
  intros Ha Hb. destruct (a =? b) eqn:E.
  - apply Z.eqb_eq in E. subst. apply zlist_eqb_refl.
  - destruct (zlist_eqb _ _) eqn:E2; [|reflexivity]. apply zlist_eqb_spec in E2. apply id2_inj in E2; try assumption. lia.
Qed.

Lemma clo_match_key c cmd e pay k : wf c -> In e (toc c) -> In (k_elem k) (toc c) ->
  clo_match true k (3, cmd :: id2 (e_id e) ++ pay) = key_is cmd (e_id e) k.
Proof.
  intros Hw He Hk. destruct (wf_elem c e Hw He) as [Hid _]. destruct (wf_elem c _ Hw Hk) as [Hid' _].
  unfold clo_match, key_is. cbn [fst snd Z.eqb Pos.eqb negb orb andb]. rewrite slice_misc, id2_eqb by assumption.
  rewrite (Z.eqb_sym cmd). rewrite (Z.eqb_sym (e_id e)). reflexivity.
Qed.

Lemma clo_nomatch_value c k p i b : misc_cmd (k_cmd k) -> pkt_val p = Some (i, b) -> clo_match (idmatch c) k p = false.
Proof.
  intros Hc. unfold pkt_val, clo_match. destruct p as [ch data]. cbn [fst snd].
  destruct (ch =? 1) eqn:E1. { replace (ch =? 3) with false by lia. reflexivity. }
  destruct (ch =? 2) eqn:E2. { replace (ch =? 3) with false by lia. reflexivity. }
  destruct (ch =? 3); [|reflexivity]. destruct data as [|x data]; [discriminate|].
  destruct x as [|x|x]; try discriminate. destruct x; try discriminate. intros _.
  unfold misc_cmd in Hc. replace (1 =? k_cmd k) with false by lia. reflexivity.
Qed.

Lemma clo_result_ok k cmd e pay : misc_cmd cmd -> pay_ok (ty_width (e_ty e)) cmd pay -> k_cmd k = cmd -> k_elem k = e ->
  exists res, clo_result k (cmd :: id2 (e_id e) ++ pay) = Some res /\
              clo_result (mkClo cmd e 0) (cmd :: id2 (e_id e) ++ pay) = Some res.
Proof.
  intros Hc Hp Hk He. destruct k as [kc ke kb]. cbn [k_cmd k_elem] in Hk, He. subst kc ke.
  assert (G : exists res, clo_result (mkClo cmd e 0) (cmd :: id2 (e_id e) ++ pay) = Some res).
  { unfold clo_result. cbn [k_cmd k_elem]. rewrite id2_eq. cbn [app nth_error skipn].
    pose proof (width_pos (e_ty e)) as Hw.
    destruct Hp as [[H35 [st ->]]|[[-> H6]|[-> H4]]].
    - cbn [nth_error]. replace ((cmd =? 3) || (cmd =? 5)) with true by lia. eauto.
    - cbn [Z.eqb Pos.eqb orb]. destruct H6 as [->|Hl].
      + cbn. eauto.
      + destruct pay as [|x pay]; [cbn [length] in Hl; lia|]. cbn [nth_error].
        destruct ((x =? 2) && _); [eauto|]. destruct (unpack_len (e_ty e) (x :: pay) Hl) as [v ->]. eauto.
    - cbn [Z.eqb Pos.eqb orb]. destruct H4 as [->|[[d [-> Hl]]|[d [sv [-> [Hl1 Hl2]]]]]].
      + cbn. eauto.
      + cbn [nth_error Z.eqb]. destruct (unpack_len (e_ty e) d Hl) as [v ->]. eauto.
      + cbn [nth_error Z.eqb Pos.eqb]. rewrite app_length, Hl1, Hl2.
        replace (Nat.eqb (ty_width (e_ty e) + ty_width (e_ty e)) (2 * ty_width (e_ty e))) with true
          by (symmetry; apply Nat.eqb_eq; lia).
        replace (firstn (ty_width (e_ty e)) (d ++ sv)) with d by (rewrite <- Hl1; symmetry; apply firstn_app_exact).
        replace (skipn (ty_width (e_ty e)) (d ++ sv)) with sv by (rewrite <- Hl1; symmetry; apply skipn_app_exact).
        destruct (unpack_len (e_ty e) d Hl1) as [v1 ->]. destruct (unpack_len (e_ty e) sv Hl2) as [v2 ->]. eauto. }
  destruct G as [res G]. exists res. split; [|exact G]. rewrite <- G. reflexivity.
Qed.

Local Transparent clo_obs.
Lemma misc_calls_clo ks p e res cmd i :
  (forall k, In k ks -> clo_match true k p = key_is cmd i k) ->
  (forall k, In k ks -> key_is cmd i k = true -> clo_result k (snd p) = Some res /\ k_elem k = e) ->
  misc_calls (clo_obs true p ks) = map (fun k => (k_cb k, e_name e, res)) (filter (key_is cmd i) ks) /\
  filter (fun k => negb (clo_fires true p k)) ks = filter (fun k => negb (key_is cmd i k)) ks.
Proof.
  unfold clo_obs, misc_calls. induction ks as [|k ks IH]; intros Hm Hr; cbn [flat_map filter map]; [now split|].
  destruct IH as [IH1 IH2]; [intros; apply Hm; now right|intros; apply Hr; try assumption; now right|].
  rewrite flat_map_app. unfold clo_fires at 1. rewrite Hm by (now left). destruct (key_is cmd i k) eqn:Ek.
  - destruct (Hr k (or_introl eq_refl) Ek) as [R1 R2]. rewrite R1, R2. cbn [flat_map app map negb andb]. rewrite IH1, IH2. now split.
  - cbn [flat_map app negb andb]. rewrite IH1, IH2. now split.
Qed.
Local Opaque clo_obs.

(* Delivery of a misc reply (store / clear / state / default value) in any reachable state: it is the answer to the
   request on the wire (command cmd, parameter e); exactly the pending closures registered for that command and
   that parameter are called — once each, with the parameter's name and the reply decoded with its type — and
   removed; every other closure is neither called nor removed; no update callback fires; the lock is released. *)
Lemma deliver_misc c s p rest : wf c -> Inv c s -> idmatch c = true -> d_out s = p :: rest -> pkt_val p = None ->
  exists r e cmd res s1 o, s_outst s = Some r /\ r_pk r = (3, cmd :: id2 (e_id e)) /\ In e (toc c) /\ misc_cmd cmd /\
    step c s EvDeliver = Some (s1, o) /\
    misc_calls o = map (fun k => (k_cb k, e_name e, res)) (filter (key_is cmd (e_id e)) (s_clos s)) /\
    s_clos s1 = filter (fun k => negb (key_is cmd (e_id e) k)) (s_clos s) /\
    upd_calls o = [] /\ s_cache s1 = s_cache s /\ s_lock s1 = false.
Proof.
  intros Hw I Him Eo Hv. pose proof (i_out c s I) as Hout. rewrite Eo in Hout. inversion Hout as [|p0 r0 Hp _]; subst p0 r0.
  pose proof (i_cnt c s I) as Hc. rewrite Eo in Hc. cbn [filter] in Hc.
  set (s0 := set_dev s (d_store s) (d_stored s) rest).
  unfold out_elem_ok in Hp. destruct (is_reply p) eqn:Erp.
  2:{ exfalso. destruct Hp as [e [b [He [Hb ->]]]]. unfold pkt_val in Hv. cbn [Z.eqb Pos.eqb] in Hv. discriminate. }
  destruct Hp as [r [Ho Hrok]]. destruct (s_lock s) eqn:El; [|discriminate Hc].
  destruct (i_lck c s I El) as [r' [Ho' Hpat]]. rewrite Ho in Ho'. injection Ho' as <-.
  destruct Hrok as [e t b He Hb|e b t He Hb|e cmd t pay He Hcm Hpay]; try (exfalso; unfold pkt_val in Hv; cbn [Z.eqb Pos.eqb] in Hv; discriminate).
  pose proof (updater_cb_misc c s0 cmd (e_id e) pay Hcm) as Eu.
  assert (Hp0 : s_pat s0 = Some (cmd :: id2 (e_id e))).
  { change (s_pat s0) with (s_pat s). rewrite Hpat. unfold patof. cbn [r_pk fst snd Z.eqb Pos.eqb]. rewrite id2_eq. reflexivity. }
  specialize (Eu Hp0).
  destruct (clo_result_ok (mkClo cmd e 0) cmd e pay Hcm Hpay eq_refl eq_refl) as [res [Hres _]].
  exists (mkReq (3, cmd :: id2 (e_id e)) t), e, cmd, res. cbn [step]. rewrite Eo. fold s0. rewrite Eu, Him.
  eexists. eexists. split; [exact Ho|]. split; [reflexivity|]. split; [exact He|]. split; [exact Hcm|]. split; [reflexivity|].
  pose proof (i_clo c s I) as Hk. rewrite Forall_forall in Hk.
  cbn [release set_lock set_clos s_clos s_cache s_lock set_dev s0].
  assert (Hm : forall k, In k (s_clos s) -> clo_match true k (3, cmd :: id2 (e_id e) ++ pay) = key_is cmd (e_id e) k).
  { intros k Hin. apply (clo_match_key c); try assumption. now apply Hk. }
  assert (Hr : forall k, In k (s_clos s) -> key_is cmd (e_id e) k = true ->
               clo_result k (cmd :: id2 (e_id e) ++ pay) = Some res).
  { intros k Hin Hkey. unfold key_is in Hkey. apply andb_true_iff in Hkey as [K1 K2]. apply Z.eqb_eq in K1, K2.
    destruct (Hk k Hin) as [Hke _]. pose proof (wf_same_id c _ _ Hw Hke He K2) as Hsame.
    destruct (clo_result_ok k cmd e pay Hcm Hpay K1 Hsame) as [res' [R1 R2]]. rewrite R1. congruence. }
  destruct (misc_calls_clo (s_clos s) (3, cmd :: id2 (e_id e) ++ pay) e res cmd (e_id e)) as [M1 M2].
  { exact Hm. }
  { intros k Hin Hkey. split; [now apply Hr|]. unfold key_is in Hkey. apply andb_true_iff in Hkey as [_ K2]. apply Z.eqb_eq in K2.
    destruct (Hk k Hin) as [Hke _]. exact (wf_same_id c _ _ Hw Hke He K2). }
  split; [|split; [|split; [|split; reflexivity]]].
  - cbn [app]. change (misc_calls (ORx ?x :: ?l)) with (misc_calls l). exact M1.
  - exact M2.
  - change (ORx ?x :: [] ++ ?l) with ([ORx x] ++ l). rewrite upd_calls_app, upd_calls_quiet_misc. reflexivity.
Qed.

Local Transparent clo_obs.
Lemma clo_none ks im p : (forall k, In k ks -> clo_match im k p = false) ->
  misc_calls (clo_obs im p ks) = [] /\ filter (fun k => negb (clo_fires im p k)) ks = ks.
Proof.
  unfold clo_obs, misc_calls. induction ks as [|k ks IH]; intros Hn; cbn [flat_map filter]; [now split|].
  destruct IH as [IH1 IH2]; [intros; apply Hn; now right|].
  rewrite flat_map_app. unfold clo_fires at 1. rewrite (Hn k) by (now left). cbn [flat_map app andb negb].
  rewrite IH1, IH2. now split.
Qed.
Local Opaque clo_obs.

(* value packets never reach a closure *)
Lemma deliver_value_no_misc c s p rest i b s1 o : wf c -> Inv c s -> d_out s = p :: rest -> pkt_val p = Some (i, b) ->
  step c s EvDeliver = Some (s1, o) -> misc_calls o = [] /\ s_clos s1 = s_clos s.
Proof.
  intros Hw I Eo Hv. cbn [step]. rewrite Eo. destruct (updater_cb _ _ _) as [s2 o2] eqn:Eu. intros H. injection H as <- <-.
  pose proof (updater_cb_pend _ _ _ _ _ Eu) as [_ [_ [Ek _]]]. cbn in Ek.
  pose proof (i_clo c s I) as Hk. rewrite Forall_forall in Hk.
  assert (Hn : forall k, In k (s_clos s2) -> clo_match (idmatch c) k p = false).
  { intros k Hin. rewrite Ek in Hin. eapply clo_nomatch_value; eauto. now apply Hk. }
  cbn [set_clos s_clos]. split.
  - assert (Q : misc_calls o2 = []).
    { clear -Eu. Local Transparent updater_cb. unfold updater_cb in Eu. Local Opaque updater_cb.
      assert (PQ : forall ii d s3 s4 o4, param_updated c ii d s3 = Some (s4, o4) -> misc_calls o4 = []).
      { intros ii d s3 s4 o4. unfold param_updated. destruct (Nat.eqb _ 2); [|discriminate].
        destruct (find_id _ _); [|intros H; injection H as <- <-; reflexivity]. destruct (unpack _ _); [|discriminate].
        intros H. injection H as <- <-. rewrite misc_calls_app. destruct (_ && _); cbn; rewrite app_nil_r;
          induction (cbs_for _ _); cbn; auto. }
      destruct p as [ch d]. destruct ((ch =? 1) || (ch =? 2)).
      - destruct (pat_is _ _); [|injection Eu as <- <-; reflexivity].
        destruct (param_updated _ _ _ _) as [[s4 o4]|] eqn:E; injection Eu as <- <-; [eapply PQ; eauto|reflexivity].
      - destruct (ch =? 3); [|injection Eu as <- <-; reflexivity]. destruct d as [|x d]; [injection Eu as <- <-; reflexivity|].
        destruct (x =? 1).
        + destruct (param_updated _ _ _ _) as [[s4 o4]|] eqn:E; [|injection Eu as <- <-; reflexivity].
          destruct (pat_is _ _); injection Eu as <- <-; eapply PQ; eauto.
        + destruct (pat_is _ _); injection Eu as <- <-; reflexivity. }
    destruct (clo_none (s_clos s2) (idmatch c) p Hn) as [N1 _].
    change (ORx p :: o2 ++ ?l) with ([ORx p] ++ o2 ++ l). rewrite !misc_calls_app, Q, N1. reflexivity.
  - destruct (clo_none (s_clos s2) (idmatch c) p Hn) as [_ N2]. rewrite N2. exact Ek.
Qed.

(* ------------------------------------------------------------------ reachable-state versions *)
Lemma reach_inv c evs s o : wf c -> run c (init c) evs = Some (s, o) -> Inv c s.
Proof. intros Hw Hr. exact (run_inv c evs Hw _ _ _ (inv_init c Hw) Hr). Qed.

Local Transparent dev_recv.
Lemma dev_read c s i : 0 <= i < 65536 ->
  dev_recv c (1, id2 i) s = dev_push s (1, id2 i ++ [0] ++ aget i (d_store s)).
Proof.
  intros Hi. unfold dev_recv. cbn [Z.eqb Pos.eqb]. replace (firstn 2 (id2 i)) with (id2 i) by (rewrite id2_eq; reflexivity).
  now rewrite id2_val.
Qed.
Lemma dev_write c s i b : 0 <= i < 65536 ->
  dev_recv c (2, id2 i ++ b) s = dev_push (set_dev s (aset i b (d_store s)) (d_stored s) (d_out s)) (2, id2 i ++ b) /\
  aget i (aset i b (d_store s)) = b.
Proof.
  intros Hi. split; [|apply aget_aset_same]. unfold dev_recv. cbn [Z.eqb Pos.eqb]. now rewrite firstn2_id, skipn2_id, id2_val.
Qed.
Local Opaque dev_recv.
