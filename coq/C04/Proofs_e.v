(* C04/Proofs_e.v — the cache equals the device's store whenever no value packet for the parameter is in flight. *)
From CF Require Import Common.Bytes C04.Model C04.Proofs C04.Proofs_b C04.Proofs_c C04.Proofs_d.
From Coq Require Import ZifyBool.
Open Scope Z_scope.
Ltac Zify.zify_post_hook ::= Z.to_euclidean_division_equations.

Local Opaque dev_recv updater_cb clo_obs.

Definition val_for (i : Z) (p : pkt) : option (list Z) :=
  match pkt_val p with Some (j, b) => if j =? i then Some b else None | None => None end.

(* the value carried by the LAST packet for parameter i on the link *)
Fixpoint last_val (i : Z) (out : list pkt) : option (list Z) :=
  match out with
  | [] => None
  | p :: r => match last_val i r with Some b => Some b | None => val_for i p end
  end.

Lemma last_val_app i out p : last_val i (out ++ [p]) = match val_for i p with Some b => Some b | None => last_val i out end.
Proof.
  induction out as [|q out IH]; cbn [app last_val].
  - destruct (val_for i p); reflexivity.
  - rewrite IH. destruct (val_for i p); [reflexivity|]. reflexivity.
Qed.

Definition coherent (c : config) (s : state) : Prop :=
  forall e, In e (toc c) ->
    match last_val (e_id e) (d_out s) with
    | Some b => b = aget (e_id e) (d_store s)
    | None => cache_get (e_id e) (s_cache s) = None \/
              cache_get (e_id e) (s_cache s) = unpack (e_ty e) (aget (e_id e) (d_store s))
    end.

Lemma coherent_ext c s s' : coherent c s -> s_cache s' = s_cache s -> d_store s' = d_store s -> d_out s' = d_out s -> coherent c s'.
Proof. intros H E1 E2 E3 e He. rewrite E1, E2, E3. now apply H. Qed.

Lemma val_for_notif i j b : 0 <= i < 65536 -> val_for j (3, 1 :: id2 i ++ b) = if i =? j then Some b else None.
Proof.
  intros Hi. unfold val_for, pkt_val. cbn [Z.eqb Pos.eqb]. rewrite slice_misc, id2_val by assumption.
  replace (skipn 3 (1 :: id2 i ++ b)) with b by (rewrite id2_eq; reflexivity). reflexivity.
Qed.
Lemma val_for_read i j b : 0 <= i < 65536 -> val_for j (1, id2 i ++ [0] ++ b) = if i =? j then Some b else None.
Proof.
  intros Hi. unfold val_for, pkt_val. cbn [Z.eqb Pos.eqb].
  replace (firstn 2 (id2 i ++ [0] ++ b)) with (id2 i) by (rewrite id2_eq; reflexivity).
  replace (skipn 3 (id2 i ++ [0] ++ b)) with b by (rewrite id2_eq; reflexivity). now rewrite id2_val.
Qed.
Lemma val_for_write i j b : 0 <= i < 65536 -> val_for j (2, id2 i ++ b) = if i =? j then Some b else None.
Proof. intros Hi. unfold val_for, pkt_val. cbn [Z.eqb Pos.eqb]. now rewrite firstn2_id, skipn2_id, id2_val. Qed.

Local Transparent dev_recv.
Lemma dev_misc c s cmd i : misc_cmd cmd -> exists p sd,
  dev_recv c (3, cmd :: id2 i) s = set_dev s (d_store s) sd (d_out s ++ [p]) /\ pkt_val p = None.
Proof.
  intros Hc. unfold dev_recv. cbn [Z.eqb Pos.eqb].
  assert (N : forall pay, pkt_val (3, cmd :: pay) = None).
  { intros pay. unfold pkt_val. cbn [Z.eqb Pos.eqb]. unfold misc_cmd in Hc. destruct Hc as [-> | [-> | [-> | ->]]]; reflexivity. }
  unfold misc_cmd in Hc.
  destruct Hc as [-> | [-> | [-> | ->]]]; cbn [Z.eqb Pos.eqb];
    repeat match goal with |- context [if ?b then _ else _] => destruct b end;
    eexists; eexists; (split; [unfold dev_push; cbn; reflexivity|]); cbn [app]; try apply (N _);
    unfold pkt_val; reflexivity.
Qed.
Local Opaque dev_recv.

Lemma deliver_dev c s p rest s1 o : d_out s = p :: rest -> step c s EvDeliver = Some (s1, o) ->
  d_store s1 = d_store s /\ d_out s1 = rest.
Proof.
  intros Eo. cbn [step]. rewrite Eo. destruct (updater_cb _ _ _) as [s2 o2] eqn:Eu. intros H. injection H as <- <-.
  apply updater_cb_pend in Eu as [_ [_ [_ [E1 [_ E2]]]]]. cbn in E1, E2. cbn [set_clos d_store d_out]. now split.
Qed.

Lemma step_coherent c s ev s1 o : wf c -> idmatch c = true -> Inv c s -> coherent c s -> step c s ev = Some (s1, o) -> coherent c s1.
Proof.
  intros Hw Him I H. destruct ev as [name v|name|cmd name cb| | | |i b].
  - cbn [step]. destruct (negb (s_updated s)); [discriminate|].
    destruct (set_value _ _ _ _); try discriminate; intros E; injection E as <- <-; [exact H|]. now apply (coherent_ext c s).
  - cbn [step]. destruct (find_name _ _); intros E; injection E as <- <-; [|exact H]. now apply (coherent_ext c s).
  - cbn [step]. destruct cb as [f|]; destruct (find_name _ _) as [el|];
      repeat match goal with |- context [if ?b then _ else _] => destruct b end;
      try discriminate; intros E; injection E as <- <-; try exact H; now apply (coherent_ext c s).
  - cbn [step]. destruct (s_hand s); [discriminate|]. destruct (s_queue s); [discriminate|].
    intros E. injection E as <- <-. now apply (coherent_ext c s).
  - (* send: the device answers *)
    cbn [step]. destruct (s_hand s) as [r|] eqn:Eh; [|discriminate]. destruct (s_lock s) eqn:El; [discriminate|].
    destruct (i_unl c s I El) as [_ Ho].
    pose proof (i_req c s I) as Hr. unfold reqs in Hr. rewrite Eh, Ho in Hr. cbn [opt_list app] in Hr.
    inversion Hr as [|r0 q0 Hwr _]; subst r0 q0.
    destruct Hwr as [e t He|e b t He Hb|e cmd t He Hc]; cbn [r_pk]; intros E; injection E as <- <-;
      destruct (wf_elem c e Hw He) as [Hid _].
    + match goal with |- coherent c (dev_recv c ?p ?s0) => pose proof (dev_read c s0 (e_id e) Hid) as Ew end.
      match goal with |- coherent c ?X => match type of Ew with _ = ?R => assert (EX : X = R) by exact Ew; rewrite EX; clear EX end end.
      intros e' He'. cbn [dev_push set_dev set_hand set_lock d_out d_store s_cache].
      rewrite last_val_app, val_for_read by assumption. specialize (H e' He').
      destruct (e_id e =? e_id e') eqn:E; [|exact H]. apply Z.eqb_eq in E. now rewrite E.
    + cbn [Z.eqb Pos.eqb].
      match goal with |- coherent c (dev_recv c ?p ?s0) => destruct (dev_write c s0 (e_id e) b Hid) as [Ew _] end.
      match goal with |- coherent c ?X => match type of Ew with _ = ?R => assert (EX : X = R) by exact Ew; rewrite EX; clear EX end end. intros e' He'. cbn [dev_push set_dev set_hand set_lock d_out d_store s_cache].
      rewrite last_val_app, val_for_write by assumption. specialize (H e' He').
      destruct (e_id e =? e_id e') eqn:E.
      * apply Z.eqb_eq in E. rewrite <- E. now rewrite aget_aset_same.
      * rewrite aget_aset_other by lia. exact H.
    + cbn [Z.eqb Pos.eqb].
      match goal with |- coherent c (dev_recv c ?pp ?s0) => destruct (dev_misc c s0 cmd (e_id e) Hc) as [q [sd [Ed Hp]]] end.
      match goal with |- coherent c ?X => match type of Ed with _ = ?R => assert (EX : X = R) by exact Ed; rewrite EX; clear EX end end.
      intros e' He'. cbn [dev_push set_dev set_hand set_lock d_out d_store s_cache].
      rewrite last_val_app. unfold val_for. rewrite Hp. apply (H e' He').
  - (* deliver *)
    destruct (d_out s) as [|p rest] eqn:Eo; [cbn [step]; rewrite Eo; discriminate|]. intros Es.
    destruct (deliver_dev c s p rest s1 o Eo Es) as [Est Eout].
    destruct (pkt_val p) as [[i b]|] eqn:Ev.
    + destruct (deliver_value c s p rest i b Hw I Eo Ev) as [e [v [s1' [o' [Hf [Hu [Es' [Hc1 [_ [_ Hoth]]]]]]]]]].
      rewrite Es in Es'. injection Es' as <- <-. apply find_id_some in Hf as [He Hid].
      intros e' He'. rewrite Est, Eout. specialize (H e' He'). rewrite Eo in H. cbn [last_val] in H.
      destruct (last_val (e_id e') rest) as [b'|] eqn:El; [exact H|].
      unfold val_for in H. rewrite Ev in H. destruct (i =? e_id e') eqn:E.
      * apply Z.eqb_eq in E. assert (e = e') by (apply (wf_same_id c); try assumption; lia). subst e'.
        right. rewrite Hid in *. rewrite Hc1, <- H. now rewrite Hu.
      * rewrite Hoth by lia. exact H.
    + destruct (deliver_misc c s p rest Hw I Him Eo Ev) as (r & e & cmd & res & s1' & o' & _ & _ & _ & _ & Es' & _ & _ & _ & Hca & _).
      rewrite Es in Es'. injection Es' as <- <-.
      intros e' He'. rewrite Est, Eout, Hca. specialize (H e' He'). rewrite Eo in H. cbn [last_val] in H.
      unfold val_for in H. rewrite Ev in H. destruct (last_val (e_id e') rest); exact H.
  - (* device-side change *)
    cbn [step]. destruct (find_id _ _) as [e|] eqn:Ef; [|discriminate].
    destruct (Nat.eqb (length b) (ty_width (e_ty e)) && bytesb b); [|discriminate].
    intros E. injection E as <- <-. apply find_id_some in Ef as [He <-]. destruct (wf_elem c e Hw He) as [Hid _].
    intros e' He'. cbn [dev_push set_dev d_out d_store s_cache].
    rewrite last_val_app.
    match goal with |- context [val_for ?j ?q] => change (val_for j q) with (val_for j (3, 1 :: id2 (e_id e) ++ b)) end.
    rewrite val_for_notif by assumption. specialize (H e' He').
    destruct (e_id e =? e_id e') eqn:E.
    + apply Z.eqb_eq in E. rewrite <- E. now rewrite aget_aset_same.
    + rewrite aget_aset_other by lia. exact H.
Qed.

Lemma run_coherent c evs : wf c -> idmatch c = true -> forall s s1 o, Inv c s -> coherent c s ->
  run c s evs = Some (s1, o) -> coherent c s1.
Proof.
  intros Hw Him. induction evs as [|e evs IH]; intros s s1 o I H; cbn [run].
  - intros E. injection E as <- _. exact H.
  - destruct (step c s e) as [[s2 o2]|] eqn:E1; [|discriminate].
    destruct (run c s2 evs) as [[s3 o3]|] eqn:E2; [|discriminate].
    intros E. injection E as <- _. eapply IH; [| |exact E2].
    + eapply step_inv; eauto.
    + eapply step_coherent; eauto.
Qed.

Lemma coherent_init c : coherent c (init c).
Proof. intros e He. cbn. now left. Qed.

(* every reachable state: if no packet carrying a value for parameter e is on its way, the cached value (if any)
   and get_value are the device's current value decoded with e's type *)
Lemma cache_is_device c evs s o e : wf c -> idmatch c = true -> run c (init c) evs = Some (s, o) -> In e (toc c) ->
  last_val (e_id e) (d_out s) = None ->
  get_value c s (e_name e) = cache_get (e_id e) (s_cache s) /\
  (cache_get (e_id e) (s_cache s) = None \/
   cache_get (e_id e) (s_cache s) = unpack (e_ty e) (aget (e_id e) (d_store s))).
Proof.
  intros Hw Him Hr He Hl.
  pose proof (run_coherent c evs Hw Him _ _ _ (inv_init c Hw) (coherent_init c) Hr e He) as H. rewrite Hl in H.
  split; [|exact H]. unfold get_value. now rewrite (find_name_in c e Hw He).
Qed.
