(* C04/Proofs.v — part 1: typed codec and Param.set_value. *)
From CF Require Import Common.Bytes C04.Model.
From Coq Require Import ZifyBool.
Open Scope Z_scope.
Ltac Zify.zify_post_hook ::= Z.to_euclidean_division_equations.

Ltac pow_const :=
  repeat match goal with
         | |- context [256 ^ Z.of_nat ?n] =>
           let v := eval vm_compute in (256 ^ Z.of_nat n) in change (256 ^ Z.of_nat n) with v
         end.

Lemma in_range_spec t z : in_range t (VInt z) = true <-> ty_min t <= z <= ty_max t.
Proof.
  destruct t; unfold in_range, pow256, ty_signed, ty_width, ty_min, ty_max; pow_const; lia.
Qed.

Lemma in_range_flt_spec t b : ty_float t = true -> (in_range t (VFlt b) = true <-> 0 <= b <= ty_max t).
Proof.
  destruct t; intros Hf; try discriminate Hf; unfold in_range, pow256, ty_signed, ty_width, ty_min, ty_max; pow_const; lia.
Qed.

Lemma width_pos t : (0 < ty_width t)%nat.
Proof. destruct t; cbn; lia. Qed.

Lemma pack_length t v b : pack t v = Some b -> length b = ty_width t.
Proof.
  unfold pack. destruct (in_range t v); [|discriminate]. intros H. injection H as <-.
  destruct v; apply le_bytes_length.
Qed.

Lemma pack_bytes t v b : pack t v = Some b -> bytes b.
Proof.
  unfold pack. destruct (in_range t v); [|discriminate]. intros H. injection H as <-.
  destruct v; apply le_bytes_bytes.
Qed.

Lemma pack_none t v : pack t v = None <-> in_range t v = false.
Proof. unfold pack. destruct (in_range t v); split; congruence. Qed.

Lemma unpack_pack t v b : kind_ok t v = true -> pack t v = Some b -> unpack t b = Some v.
Proof.
  intros Hk Hp. pose proof (pack_length _ _ _ Hp) as Hl.
  unfold unpack. rewrite Hl, Nat.eqb_refl.
  unfold pack in Hp. destruct (in_range t v) eqn:Hr; [|discriminate]. injection Hp as <-.
  pose proof (width_pos t) as Hw.
  destruct v as [z|fb]; cbn [kind_ok] in Hk.
  - apply negb_true_iff in Hk. rewrite Hk. cbn [in_range] in Hr. unfold pow256 in Hr.
    destruct (ty_signed t) eqn:Hs.
    + rewrite le_val_le_bytes_id.
      * rewrite to_signed_to_unsigned; [reflexivity|exact Hw|]. unfold signed_range. lia.
      * unfold to_unsigned. apply Z.mod_pos_bound, pow256_pos.
    + unfold to_unsigned. rewrite Z.mod_small by lia. rewrite le_val_le_bytes_id by lia. reflexivity.
  - apply andb_true_iff in Hk as [Hk _]. apply andb_true_iff in Hk as [Hk _]. rewrite Hk.
    cbn [in_range] in Hr. unfold pow256 in Hr. rewrite le_val_le_bytes_id by lia. reflexivity.
Qed.

(* unpack is injective on byte strings: the encoding of a value is unique *)
Lemma to_signed_inj n a b : (0 < n)%nat -> 0 <= a < 256 ^ Z.of_nat n -> 0 <= b < 256 ^ Z.of_nat n ->
  to_signed n a = to_signed n b -> a = b.
Proof.
  intros Hn Ha Hb. unfold to_signed. pose proof (pow256_even n Hn).
  destruct (a <? 256 ^ Z.of_nat n / 2) eqn:E1, (b <? 256 ^ Z.of_nat n / 2) eqn:E2; lia.
Qed.

Lemma le_val_inj a b : bytes a -> bytes b -> length a = length b -> le_val a = le_val b -> a = b.
Proof.
  intros Ha Hb Hl E. rewrite <- (le_bytes_le_val a Ha), <- (le_bytes_le_val b Hb), Hl, E. reflexivity.
Qed.

Lemma unpack_inj t a b v : bytes a -> bytes b -> unpack t a = Some v -> unpack t b = Some v -> a = b.
Proof.
  unfold unpack. intros Ha Hb.
  destruct (Nat.eqb (length a) (ty_width t)) eqn:La; [|discriminate].
  destruct (Nat.eqb (length b) (ty_width t)) eqn:Lb; [|discriminate].
  apply Nat.eqb_eq in La, Lb. intros E1 E2. rewrite <- E2 in E1. clear E2.
  assert (Hl : length a = length b) by congruence.
  apply le_val_inj; try assumption.
  pose proof (le_val_range a Ha) as Ra. pose proof (le_val_range b Hb) as Rb. rewrite La in Ra. rewrite Lb in Rb.
  destruct (ty_float t); [congruence|]. destruct (ty_signed t).
  - injection E1 as E1. apply (to_signed_inj (ty_width t)); [apply width_pos|exact Ra|exact Rb|exact E1].
  - congruence.
Qed.

Lemma set_value_ok tc v2 name v e :
  find_name tc name = Some e -> e_ro e = false -> kind_ok (e_ty e) v = true -> in_range (e_ty e) v = true ->
  exists b, set_value tc v2 name v = SQueue (2, (if v2 then le_bytes 2 (e_id e) else le_bytes 1 (e_id e)) ++ b)
            /\ length b = ty_width (e_ty e) /\ bytes b /\ unpack (e_ty e) b = Some v
            /\ (forall b', bytes b' -> unpack (e_ty e) b' = Some v -> b' = b).
Proof.
  intros Hf Hro Hk Hr. unfold set_value. rewrite Hf, Hro, Hk. cbn [negb].
  destruct (pack (e_ty e) v) as [b|] eqn:Hp.
  - exists b. split; [reflexivity|]. split; [eapply pack_length; eauto|].
    split; [eapply pack_bytes; eauto|]. split; [apply unpack_pack; assumption|].
    intros b' Hb' Hu. eapply unpack_inj; eauto. eapply pack_bytes; eauto. apply unpack_pack; assumption.
  - apply pack_none in Hp. congruence.
Qed.

Lemma index_bytes i : 0 <= i < 65536 -> le_val (le_bytes 2 i) = i /\ length (le_bytes 2 i) = 2%nat.
Proof. intros H. split; [apply le_val_le_bytes_id; cbn; lia|apply le_bytes_length]. Qed.
Lemma index_bytes1 i : 0 <= i < 256 -> le_val (le_bytes 1 i) = i /\ length (le_bytes 1 i) = 1%nat.
Proof. intros H. split; [apply le_val_le_bytes_id; cbn; lia|apply le_bytes_length]. Qed.

Lemma set_out_of_range c s name v e :
  s_updated s = true -> find_name (toc c) name = Some e -> e_ro e = false ->
  kind_ok (e_ty e) v = true -> in_range (e_ty e) v = false ->
  step c s (EvSet name v) = Some (s, [ORaise X_STRUCT]).
Proof.
  intros Hu Hf Hro Hk Hr. cbn [step]. rewrite Hu. cbn [negb]. unfold set_value. rewrite Hf, Hro, Hk. cbn [negb].
  apply pack_none in Hr. rewrite Hr. reflexivity.
Qed.

Lemma set_refused c s name v :
  s_updated s = true ->
  (find_name (toc c) name = None -> step c s (EvSet name v) = Some (s, [ORaise X_KEY])) /\
  (forall e, find_name (toc c) name = Some e -> e_ro e = true -> step c s (EvSet name v) = Some (s, [ORaise X_ATTR])) /\
  (find_name (toc c) name = None -> step c s (EvRead name) = Some (s, [ORaise (read_exn name)])).
Proof.
  intros Hu. repeat split.
  - intros Hf. cbn [step]. rewrite Hu. cbn [negb]. unfold set_value. rewrite Hf. reflexivity.
  - intros e Hf Hro. cbn [step]. rewrite Hu. cbn [negb]. unfold set_value. rewrite Hf, Hro. reflexivity.
  - intros Hf. cbn [step]. rewrite Hf. reflexivity.
Qed.
