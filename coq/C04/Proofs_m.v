(* C04/Proofs_m.v — several sessions on one Param object: by-name operations resolve in the current table only. *)
From CF Require Import Common.Bytes C04.Model C04.Proofs C04.Proofs_b C04.Proofs_c C04.Proofs_d.
Open Scope Z_scope.

Lemma reconnect_fresh c s : reconnect true c s = init c.
Proof. reflexivity. Qed.

(* the last session of any history behaves as a first connection of a new object to the same device *)
Lemma mrun_last hs : forall s0 c evs s os, mrun true s0 (hs ++ [(c, evs)]) = Some (s, os) ->
  exists os' o, os = os' ++ [o] /\ run c (init c) evs = Some (s, o).
Proof.
  induction hs as [|[c1 e1] hs IH]; intros s0 c evs s os; cbn [app mrun].
  - rewrite reconnect_fresh. destruct (run c (init c) evs) as [[s2 o]|]; [|discriminate]. intros H. injection H as <- <-.
    exists [], o. now split.
  - destruct (run c1 (reconnect true c1 s0) e1) as [[s2 o1]|]; [|discriminate].
    destruct (mrun true s2 (hs ++ [(c, evs)])) as [[s3 os3]|] eqn:Em; [|discriminate].
    intros H. injection H as <- <-. destruct (IH _ _ _ _ _ Em) as [os' [o [-> Hr]]].
    exists (o1 :: os'), o. now split.
Qed.

(* what a by-name call does is a function of the CURRENT table (and of the state of the current session) *)
Lemma set_by_name c s name v : s_updated s = true ->
  step c s (EvSet name v) =
  match find_name (toc c) name with
  | None => Some (s, [ORaise X_KEY])
  | Some e =>
    if e_ro e then Some (s, [ORaise X_ATTR])
    else if negb (kind_ok (e_ty e) v) then None
    else match pack (e_ty e) v with
         | None => Some (s, [ORaise X_STRUCT])
         | Some b => Some (enq s (mkReq (2, id2 (e_id e) ++ b) None), [OEnq (2, id2 (e_id e) ++ b)])
         end
  end.
Proof.
  intros Hu. cbn [step]. rewrite Hu. cbn [negb]. unfold set_value, set_packet.
  destruct (find_name (toc c) name) as [e|]; [|reflexivity]. destruct (e_ro e); [reflexivity|].
  destruct (negb (kind_ok (e_ty e) v)); [reflexivity|]. destruct (pack (e_ty e) v); reflexivity.
Qed.

Lemma misc_by_name c s cmd name cb e : find_name (toc c) name = Some e -> misc_ok cmd cb e = true ->
  step c s (EvMisc cmd name cb) =
  Some (enq (add_clo s cmd e cb) (mkReq (3, cmd :: id2 (e_id e)) cb), [OEnq (3, cmd :: id2 (e_id e))]).
Proof.
  intros Hf Hm. cbn [step]. rewrite Hf. unfold misc_ok in Hm.
  destruct (cmd =? 6) eqn:E6.
  { apply Z.eqb_eq in E6. subst cmd. destruct cb; [reflexivity|discriminate]. }
  destruct ((cmd =? 3) || (cmd =? 5)) eqn:E35.
  { destruct (e_pers e); [reflexivity|discriminate]. }
  destruct (cmd =? 4) eqn:E4; [|discriminate]. apply Z.eqb_eq in E4. subst cmd.
  destruct (e_pers e); [|discriminate]. destruct cb; [reflexivity|discriminate].
Qed.

(* every closure pending in a session, and so every misc callback ever invoked in it, was registered in THIS session with
   an element of THIS session's table: whatever the earlier sessions were and however they ended *)
Lemma mrun_closures hs s0 c evs s os : wf c -> mrun true s0 (hs ++ [(c, evs)]) = Some (s, os) ->
  Forall (fun k => In (k_elem k) (toc c) /\ misc_cmd (k_cmd k)) (s_clos s).
Proof.
  intros Hw Hm. destruct (mrun_last hs _ _ _ _ _ Hm) as [os' [o [_ Hr]]].
  exact (i_clo c s (reach_inv c evs s o Hw Hr)).
Qed.

(* F04f, before the repair: get_default_value of name 0 (index 5) is pending when the link drops; in the next session index 5
   belongs to name 1: the reply to get_default_value of name 1 is also handed to the callback of the earlier session,
   under the earlier name *)
Definition ex_s1 : config := mkCfg [mkElem 5 0 0 TU16 false true] [] [] [] [(5, [7; 0])] [(5, [7; 0])] [] true.
Definition ex_s2 : config := mkCfg [mkElem 5 1 1 TU16 false true] [] [] [] [(5, [9; 0])] [(5, [9; 0])] [] true.
Definition ex_hist : list (config * list event) :=
  [(ex_s1, [EvMisc 6 0 (Some 1)]); (ex_s2, [EvMisc 6 1 (Some 2); EvUGet; EvUSend; EvDeliver])].

Lemma ex_f04f : exists s os, mrun false blank ex_hist = Some (s, os) /\
  misc_calls (concat os) = [(1, 0, MDefault (VInt 9)); (2, 1, MDefault (VInt 9))].
Proof. eexists. eexists. split; vm_compute; reflexivity. Qed.

Lemma ex_f04f_repaired : exists s os, mrun true blank ex_hist = Some (s, os) /\
  misc_calls (concat os) = [(2, 1, MDefault (VInt 9))] /\ s_clos s = [].
Proof. eexists. eexists. split; vm_compute; [reflexivity|split; reflexivity]. Qed.

(* ---- a disconnect that walks the LIVE list of pending callbacks while removing from it: Python's list iterator then
        skips the element after each removed one, so the callbacks at positions 1, 3, ... stay registered *)
Fixpoint keep_odd {A} (l : list A) : list A :=
  match l with
  | _ :: y :: r => y :: keep_odd r
  | _ => []
  end.

Definition disconnect_alt (s : state) : state :=
  mkSt [] None false None None [] (s_updated s) (keep_odd (s_clos s)) (d_store s) (d_stored s) [].

Fixpoint mrun_alt (s : state) (hs : list (config * list event)) : option (state * list (list obs)) :=
  match hs with
  | [] => Some (s, [])
  | (c, evs) :: r =>
    match run c (connect c (disconnect_alt s)) evs with
    | None => None
    | Some (s1, o) => match mrun_alt s1 r with None => None | Some (s2, os) => Some (s2, o :: os) end
    end
  end.

(* three default-value requests (names 0, 1, 2) are unanswered when the link drops; after the reconnect to the same table
   name 1 is queried again: the abandoned callback 2 of session 1 is invoked as well *)
Definition ex_t3 : config :=
  mkCfg [mkElem 10 0 0 TU16 false true; mkElem 11 1 0 TU16 false true; mkElem 12 2 1 TU16 false true] [] [] []
        [(10, [5; 0]); (11, [1; 1]); (12, [9; 0])] [(10, [7; 0]); (11, [3; 4]); (12, [8; 0])] [] true.
Definition ex_hist3 : list (config * list event) :=
  [(ex_t3, [EvMisc 6 0 (Some 1); EvMisc 6 1 (Some 2); EvMisc 6 2 (Some 3)]);
   (ex_t3, [EvMisc 6 1 (Some 4); EvUGet; EvUSend; EvDeliver])].

Lemma ex_alt : exists s os, mrun_alt blank ex_hist3 = Some (s, os) /\
  misc_calls (concat os) = [(2, 1, MDefault (VInt 1027)); (4, 1, MDefault (VInt 1027))].
Proof. eexists. eexists. split; vm_compute; reflexivity. Qed.

Lemma ex_alt_repaired : exists s os, mrun true blank ex_hist3 = Some (s, os) /\
  misc_calls (concat os) = [(4, 1, MDefault (VInt 1027))].
Proof. eexists. eexists. split; vm_compute; reflexivity. Qed.
