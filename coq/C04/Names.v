(* C04/Names.v — resolution of a complete parameter name, on strings, as Toc.get_element_by_complete_name does it at HEAD:
   [group, name] = complete_name.split('.')  (ValueError, i.e. "not found", unless there are EXACTLY two parts), then
   toc[group][name].  [tolerant = true] is the variant that takes the first two of two OR MORE parts. *)
From Coq Require Import String Ascii List Bool.
Import ListNotations.
Open Scope string_scope.

Definition is_dot (c : ascii) : bool := Ascii.eqb c ".".

(* Python's str.split('.') *)
Fixpoint split_dot (s : string) : list string :=
  match s with
  | EmptyString => [EmptyString]
  | String c r =>
    if is_dot c then EmptyString :: split_dot r
    else match split_dot r with
         | h :: t => String c h :: t
         | [] => [String c EmptyString]
         end
  end.

Fixpoint dotfree (s : string) : bool :=
  match s with EmptyString => true | String c r => negb (is_dot c) && dotfree r end.

Fixpoint join_dot (l : list string) : string :=
  match l with
  | [] => EmptyString
  | [x] => x
  | x :: r => x ++ String "." (join_dot r)
  end.

Lemma split_nonempty s : split_dot s <> [].
Proof. destruct s as [|c r]; cbn; [discriminate|]. destruct (is_dot c); [discriminate|]. destruct (split_dot r); discriminate. Qed.

Lemma join_split s : join_dot (split_dot s) = s.
Proof.
  induction s as [|c r IH]; [reflexivity|]. cbn [split_dot]. destruct (is_dot c) eqn:Ec.
  - apply Ascii.eqb_eq in Ec. subst c. pose proof (split_nonempty r) as Hn.
    destruct (split_dot r) as [|h t] eqn:E; [contradiction|].
    change (join_dot (EmptyString :: h :: t)) with (EmptyString ++ String "." (join_dot (h :: t))). cbn [append]. now rewrite IH.
  - pose proof (split_nonempty r) as Hn. destruct (split_dot r) as [|h t] eqn:E; [contradiction|].
    destruct t as [|h2 t2].
    + cbn [join_dot] in *. now rewrite IH.
    + change (join_dot (String c h :: h2 :: t2)) with (String c h ++ String "." (join_dot (h2 :: t2))).
      change (join_dot (h :: h2 :: t2)) with (h ++ String "." (join_dot (h2 :: t2))) in IH. cbn [append]. now rewrite IH.
Qed.

Lemma split_parts_dotfree s : Forall (fun p => dotfree p = true) (split_dot s).
Proof.
  induction s as [|c r IH]; cbn [split_dot]; [repeat constructor|]. destruct (is_dot c) eqn:Ec.
  - constructor; [reflexivity|exact IH].
  - destruct (split_dot r) as [|h t]; [repeat constructor; cbn; now rewrite Ec|].
    inversion IH; subst. constructor; [cbn; now rewrite Ec|assumption].
Qed.

Lemma split_dotfree s : dotfree s = true -> split_dot s = [s].
Proof.
  induction s as [|c r IH]; [reflexivity|]. cbn. intros H. apply andb_true_iff in H as [Hc Hr].
  apply negb_true_iff in Hc. rewrite Hc, (IH Hr). reflexivity.
Qed.

Lemma split_app g m : dotfree g = true -> split_dot (g ++ String "." m) = g :: split_dot m.
Proof.
  induction g as [|c r IH]; cbn [append split_dot dotfree]; [reflexivity|]. intros H. apply andb_true_iff in H as [Hc Hr].
  apply negb_true_iff in Hc. rewrite Hc, (IH Hr). reflexivity.
Qed.

Section Resolve.
  Variable A : Type.
  Definition entry := (string * string * A)%type.

  Definition lookup (tbl : list entry) (g m : string) : option A :=
    match find (fun x => String.eqb (fst (fst x)) g && String.eqb (snd (fst x)) m) tbl with
    | Some x => Some (snd x)
    | None => None
    end.

  Definition resolve (tolerant : bool) (tbl : list entry) (n : string) : option A :=
    match split_dot n with
    | [g; m] => lookup tbl g m
    | g :: m :: _ => if tolerant then lookup tbl g m else None
    | _ => None
    end.

  Definition table_ok (tbl : list entry) : Prop :=
    Forall (fun x => dotfree (fst (fst x)) = true /\ dotfree (snd (fst x)) = true) tbl.

  Lemma lookup_dotfree tbl g m e : table_ok tbl -> lookup tbl g m = Some e -> dotfree g = true /\ dotfree m = true.
  Proof.
    unfold lookup. intros Hok. destruct (find (fun x => String.eqb (fst (fst x)) g && String.eqb (snd (fst x)) m) tbl) as [x|] eqn:Ef; [|discriminate]. intros _.
    apply find_some in Ef as [Hin Hb]. apply andb_true_iff in Hb as [Hg Hm].
    apply String.eqb_eq in Hg, Hm. unfold table_ok in Hok. rewrite Forall_forall in Hok. destruct (Hok x Hin). now subst.
  Qed.

  (* exact match: a name resolves to e iff it IS "group.name" of an entry holding e *)
  Lemma resolve_exact tbl n e : table_ok tbl ->
    (resolve false tbl n = Some e <-> exists g m, lookup tbl g m = Some e /\ n = g ++ String "." m).
  Proof.
    intros Hok. split.
    - unfold resolve. destruct (split_dot n) as [|g [|m [|x t]]] eqn:Es; try discriminate. intros Hl.
      exists g, m. split; [exact Hl|]. rewrite <- (join_split n), Es. reflexivity.
    - intros [g [m [Hl ->]]]. destruct (lookup_dotfree tbl g m e Hok Hl) as [Hg Hm].
      unfold resolve. rewrite (split_app g m Hg), (split_dotfree m Hm). exact Hl.
  Qed.

  (* an entry whose group or name itself contains a dot cannot be reached by any name (what HEAD does) *)
  Lemma resolve_parts_dotfree tbl n e : resolve false tbl n = Some e ->
    exists g m, n = g ++ String "." m /\ dotfree g = true /\ dotfree m = true.
  Proof.
    unfold resolve. destruct (split_dot n) as [|g [|m [|x t]]] eqn:Es; try discriminate. intros _.
    exists g, m. pose proof (split_parts_dotfree n) as Hf. rewrite Es in Hf. inversion Hf as [|? ? Hg Hr]; subst. inversion Hr; subst.
    repeat split; try assumption. rewrite <- (join_split n), Es. reflexivity.
  Qed.
End Resolve.

(* the prefix-tolerant variant resolves names the table does not hold *)
Definition ex_tbl : list (entry nat) := [("ring", "effect", 7%nat); ("pid", "kp", 3%nat)].

Lemma ex_tolerant : resolve nat true ex_tbl "ring.effect.bak" = Some 7%nat /\ resolve nat true ex_tbl "ring.effect." = Some 7%nat /\
  resolve nat true ex_tbl "pid.kp.min" = Some 3%nat.
Proof. repeat split; reflexivity. Qed.

Lemma ex_exact : resolve nat false ex_tbl "ring.effect.bak" = None /\ resolve nat false ex_tbl "ring.effect." = None /\
  resolve nat false ex_tbl ".ring.effect" = None /\ resolve nat false ex_tbl "ring.kp" = None /\ resolve nat false ex_tbl "ring..effect" = None /\
  resolve nat false ex_tbl "ringeffect" = None /\ resolve nat false ex_tbl "ring" = None /\ resolve nat false ex_tbl "Ring.effect" = None /\
  resolve nat false ex_tbl "ring.effect " = None /\ resolve nat false ex_tbl "ring.effec" = None /\ resolve nat false ex_tbl "ring.effect" = Some 7%nat.
Proof. repeat split; reflexivity. Qed.
