(* C04/Proofs_x.v — the extended-type fetcher: attribution of extended-type replies. *)
From CF Require Import Common.Bytes C04.Model C04.Proofs C04.Proofs_b C04.Proofs_c C04.ExtModel.
From Coq Require Import ZifyBool.
Open Scope Z_scope.
Ltac Zify.zify_post_hook ::= Z.to_euclidean_division_equations.

(* a packet that is not an extended-type reply never touches the fetcher (repaired callback) *)
Lemma f_other_ignored c s p : x_cmdcheck c = true -> is_xreply p = false -> f_on_packet c s p = (s, []).
Proof.
  intros Hc Hp. destruct p as [ch data]. unfold is_xreply in Hp. cbn [fst snd] in Hp. unfold f_on_packet. rewrite Hc.
  destruct (ch =? 3); cbn [negb andb] in *; [|reflexivity].
  destruct data as [|cmd data]; cbn [negb] in *; [reflexivity|]. now rewrite Hp.
Qed.

(* a reply (also a duplicated or late one) for a parameter that is not the one in flight changes nothing *)
Lemma f_reply_not_in_flight c s j xt : 0 <= j < 65536 -> f_req s <> j ->
  f_on_packet c s (3, 2 :: id2 j ++ [xt]) = (s, []).
Proof.
  intros Hj Hr. unfold f_on_packet. cbn [Z.eqb Pos.eqb negb andb]. rewrite Bool.andb_false_r.
  rewrite slice_misc. replace (length (id2 j)) with 2%nat by reflexivity. cbn [Nat.eqb negb].
  rewrite id2_val by assumption. replace (f_req s =? j) with false by lia. reflexivity.
Qed.

Lemma f_reply_in_flight c s xt : 0 <= f_req s < 65536 ->
  f_on_packet c s (3, 2 :: id2 (f_req s) ++ [xt]) =
  (let pers := if xt =? 1 then f_req s :: f_pers s else f_pers s in
   let cnt := f_count s - 1 in
   if cnt =? 0 then
     (mkF [] (f_hand s) false (-1) cnt pers (f_done s + 1) (f_out s) (f_sent s) (f_ans s ++ [f_req s]), [FDone])
   else (mkF (f_queue s) (f_hand s) false (-1) cnt pers (f_done s) (f_out s) (f_sent s) (f_ans s ++ [f_req s]), [])).
Proof.
  intros Hj. unfold f_on_packet. cbn [Z.eqb Pos.eqb negb andb]. rewrite Bool.andb_false_r.
  rewrite slice_misc. replace (length (id2 (f_req s))) with 2%nat by reflexivity. cbn [Nat.eqb negb].
  rewrite id2_val by assumption. rewrite Z.eqb_refl. cbn [negb].
  replace (nth_error (2 :: id2 (f_req s) ++ [xt]) 3) with (Some xt) by (rewrite id2_eq; reflexivity).
  reflexivity.
Qed.

Definition inflight (s : fstate) : list Z := if f_lock s then [f_req s] else [].
Definition fpend (s : fstate) : list Z := inflight s ++ opt_list (f_hand s) ++ f_queue s.

Record J (c : xcfg) (s : fstate) : Prop := {
  j_ids : x_ids c = f_ans s ++ fpend s;
  j_cnt : f_count s = Z.of_nat (length (fpend s));
  j_sent : f_sent s = f_ans s ++ inflight s;
  j_rep : length (filter is_xreply (f_out s)) = b2n (f_lock s);
  j_out : f_lock s = true -> Forall (fun p => is_xreply p = true -> p = xreply c (f_req s)) (f_out s);
  j_pers : f_pers s = rev (filter (fun i => xtype c i =? 1) (f_ans s));
  j_done : f_done s = if f_count s =? 0 then 1 else 0;
  j_req : f_lock s = false -> f_req s = -1
}.

Lemma wfx_range c i : wf_xcfg c = true -> In i (x_ids c) -> 0 <= i < 65536.
Proof.
  unfold wf_xcfg. intros H Hi. apply andb_true_iff in H as [_ H]. rewrite forallb_forall in H. specialize (H i Hi). lia.
Qed.

Lemma J_start c : x_ids c <> [] -> J c (fstart c).
Proof.
  intros Hne. constructor; cbn; try reflexivity; try discriminate.
  destruct (x_ids c); [contradiction|]. cbn [length]. destruct (Z.of_nat (S (length l)) =? 0) eqn:E; [lia|reflexivity].
Qed.

Lemma xreply_is c i : is_xreply (xreply c i) = true.
Proof. reflexivity. Qed.

Lemma fstep_J c s e s1 o : wf_xcfg c = true -> x_cmdcheck c = true -> J c s -> fstep c s e = Some (s1, o) -> J c s1.
Proof.
  intros Hw Hc I. destruct e as [ | | |p]; cbn [fstep].
  - destruct (f_hand s) eqn:Eh; [discriminate|]. destruct (f_queue s) as [|i q] eqn:Eq; [discriminate|].
    intros H. injection H as <- <-. destruct I. unfold fpend, inflight in *. rewrite Eh, Eq in *.
    constructor; unfold fpend, inflight; cbn [f_lock f_req f_hand f_queue f_ans f_count f_sent f_out f_pers f_done opt_list app] in *; assumption.
  - destruct (f_hand s) as [i|] eqn:Eh; [|discriminate]. destruct (f_lock s) eqn:El; [discriminate|].
    intros H. injection H as <- <-. destruct I. unfold fpend, inflight in *. rewrite Eh, El in *. cbn [opt_list app b2n] in *.
    pose proof (filter_nil_all _ _ j_rep0) as Hno.
    constructor; unfold fpend, inflight; cbn [f_lock f_req f_hand f_queue f_ans f_count f_sent f_out f_pers f_done opt_list app b2n]; try assumption.
    + rewrite j_sent0, app_nil_r. reflexivity.
    + rewrite filter_app, app_length, j_rep0. reflexivity.
    + intros _. apply Forall_app. split.
      * apply Forall_forall. intros x Hx Hr. rewrite (Hno x Hx) in Hr. discriminate.
      * constructor; [reflexivity|constructor].
    + discriminate.
  - destruct (f_out s) as [|p rest] eqn:Eo; [discriminate|].
    destruct (is_xreply p) eqn:Ep.
    + (* the reply in flight *)
      destruct I. rewrite Eo in *. cbn [filter] in j_rep0. rewrite Ep in j_rep0.
      destruct (f_lock s) eqn:El; [|discriminate j_rep0]. cbn [length b2n] in j_rep0. injection j_rep0 as Hc0.
      specialize (j_out0 eq_refl). inversion j_out0 as [|p0 r0 Hp0 Hrest]; subst p0 r0. rewrite (Hp0 Ep).
      assert (Hin : In (f_req s) (x_ids c)).
      { rewrite j_ids0. unfold fpend, inflight. rewrite El. apply in_or_app. right. now left. }
      pose proof (wfx_range c _ Hw Hin) as Hrng.
      unfold xreply. change (f_req s) with (f_req (set_fout s rest)) at 1 2.
      rewrite f_reply_in_flight by exact Hrng. cbn [set_fout f_req f_pers f_count f_hand f_done f_out f_sent f_ans f_queue].
      unfold fpend, inflight in *. rewrite El in *. cbn [app length] in *.
      destruct (f_count s - 1 =? 0) eqn:Ec; intros H; injection H as <- <-.
      * assert (Hq : f_hand s = None /\ f_queue s = []).
        { rewrite app_length in j_cnt0. destruct (f_hand s), (f_queue s); cbn [opt_list length] in *; try lia. now split. }
        destruct Hq as [Hh Hq]. rewrite Hh, Hq in *.
        constructor; unfold fpend, inflight; cbn [f_lock f_req f_hand f_queue f_ans f_count f_sent f_out f_pers f_done opt_list app b2n length]; try assumption; try reflexivity; try discriminate.
        -- rewrite j_ids0. cbn. now rewrite app_nil_r.
        -- lia.
        -- rewrite j_sent0. now rewrite app_nil_r.
        -- rewrite filter_app, rev_app_distr. cbn [filter]. rewrite j_pers0. destruct (xtype c (f_req s) =? 1); reflexivity.
        -- rewrite Ec. rewrite j_done0. replace (f_count s =? 0) with false by lia. reflexivity.
      * constructor; unfold fpend, inflight; cbn [f_lock f_req f_hand f_queue f_ans f_count f_sent f_out f_pers f_done opt_list app b2n length]; try assumption; try reflexivity; try discriminate.
        -- rewrite j_ids0. now rewrite <- app_assoc.
        -- lia.
        -- rewrite j_sent0. now rewrite app_nil_r.
        -- rewrite filter_app, rev_app_distr. cbn [filter]. rewrite j_pers0. destruct (xtype c (f_req s) =? 1); reflexivity.
        -- rewrite Ec. rewrite j_done0. replace (f_count s =? 0) with false by lia. reflexivity.
    + rewrite (f_other_ignored c _ p Hc Ep). intros H. injection H as <- <-.
      destruct I. rewrite Eo in *. cbn [filter] in j_rep0. rewrite Ep in j_rep0.
      constructor; unfold fpend, inflight in *; cbn [set_fout f_lock f_req f_hand f_queue f_ans f_count f_sent f_out f_pers f_done]; try assumption.
      intros El. specialize (j_out0 El). now inversion j_out0.
  - destruct (is_xreply p) eqn:Ep; [discriminate|]. intros H. injection H as <- <-.
    destruct I. constructor; unfold fpend, inflight in *; cbn [set_fout f_lock f_req f_hand f_queue f_ans f_count f_sent f_out f_pers f_done]; try assumption.
    + rewrite filter_app, app_length. cbn [filter]. rewrite Ep. cbn [length]. lia.
    + intros El. apply Forall_app. split; [now apply j_out0|]. constructor; [|constructor]. intros Hr. rewrite Ep in Hr. discriminate.
Qed.

Lemma frun_J c evs : wf_xcfg c = true -> x_cmdcheck c = true -> forall s s1 o, J c s -> frun c s evs = Some (s1, o) -> J c s1.
Proof.
  intros Hw Hc. induction evs as [|e evs IH]; intros s s1 o I; cbn [frun].
  - intros H. injection H as <- _. exact I.
  - destruct (fstep c s e) as [[s2 o2]|] eqn:E1; [|discriminate].
    destruct (frun c s2 evs) as [[s3 o3]|] eqn:E2; [|discriminate].
    intros H. injection H as <- _. eapply IH; [|exact E2]. eapply fstep_J; eauto.
Qed.

Lemma ext_phase c evs s o : wf_xcfg c = true -> x_cmdcheck c = true -> x_ids c <> [] ->
  frun c (fstart c) evs = Some (s, o) ->
  x_ids c = f_ans s ++ inflight s ++ opt_list (f_hand s) ++ f_queue s /\
  f_sent s = f_ans s ++ inflight s /\
  length (filter is_xreply (f_out s)) = b2n (f_lock s) /\
  (f_lock s = true -> forall p, In p (f_out s) -> is_xreply p = true -> p = xreply c (f_req s)) /\
  f_pers s = rev (filter (fun i => xtype c i =? 1) (f_ans s)) /\
  f_count s = Z.of_nat (length (inflight s ++ opt_list (f_hand s) ++ f_queue s)) /\
  f_done s = (if f_count s =? 0 then 1 else 0).
Proof.
  intros Hw Hc Hne Hr. pose proof (frun_J c evs Hw Hc _ _ _ (J_start c Hne) Hr) as I. destruct I.
  repeat split; try assumption. intros El p Hin. specialize (j_out0 El). rewrite Forall_forall in j_out0. now apply j_out0.
Qed.

(* F04e, before the repair: a value notification for the parameter in flight is taken as its extended type *)
Definition ex_x (chk : bool) : xcfg := mkXC [10; 11] [(10, 0); (11, 1)] chk.
Definition ex_x_events : list fevent := [FGet; FOther (3, [1; 10; 0; 1]); FSend; FDeliver; FDeliver; FGet; FSend; FDeliver].

Lemma ex_f04e : exists s o, wf_xcfg (ex_x false) = true /\ frun (ex_x false) (fstart (ex_x false)) ex_x_events = Some (s, o) /\
  f_pers s = [11; 10] /\ xtype (ex_x false) 10 = 0 /\ f_done s = 1.
Proof. eexists. eexists. split; [reflexivity|]. split; vm_compute; [reflexivity|repeat split; reflexivity]. Qed.

Lemma ex_f04e_repaired : exists s o, frun (ex_x true) (fstart (ex_x true)) ex_x_events = Some (s, o) /\
  f_pers s = [11] /\ f_done s = 1 /\ f_ans s = [10; 11].
Proof. eexists. eexists. split; vm_compute; [reflexivity|repeat split; reflexivity]. Qed.
