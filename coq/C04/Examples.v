(* C04/Examples.v — concrete runs: witnesses of the two attribution defects and non-vacuity of the hypotheses
   used in Property.v (a reachable state with a request on the wire, its reply in flight and closures pending). *)
From CF Require Import Common.Bytes C04.Model C04.Proofs C04.Proofs_b C04.Proofs_c C04.Proofs_d.
Open Scope Z_scope.

Definition ex_toc : list elem :=
  [mkElem 10 0 0 TU16 false true; mkElem 11 1 0 TU16 false true; mkElem 12 2 1 TU16 false true].
Definition ex_cfg (im : bool) : config :=
  mkCfg ex_toc [(0, 100)] [(0, 200)] [300] [(10, [5; 0]); (11, [1; 1]); (12, [9; 0])]
        [(10, [7; 0]); (11, [3; 4]); (12, [8; 0])] [] im.

(* F04 (before the repair, dispatch over a snapshot): two persistent_get_state requests for two parameters are
   pending; the reply for parameter 0 is handed to the callback registered for parameter 1 as well *)
Definition ex_f04_events : list event := [EvMisc 4 0 (Some 1); EvMisc 4 1 (Some 2); EvUGet; EvUSend; EvDeliver].

Lemma ex_f04 : exists s o, wf (ex_cfg false) /\ run (ex_cfg false) (init (ex_cfg false)) ex_f04_events = Some (s, o) /\
  misc_calls o = [(1, 0, MState false (VInt 7) None); (2, 1, MState false (VInt 7) None)].
Proof. eexists. eexists. split; [reflexivity|]. split; vm_compute; reflexivity. Qed.

(* the same events on the repaired model: only the callback of the request that was answered *)
Lemma ex_f04_repaired : exists s o, run (ex_cfg true) (init (ex_cfg true)) ex_f04_events = Some (s, o) /\
  misc_calls o = [(1, 0, MState false (VInt 7) None)] /\ map k_cb (s_clos s) = [2].
Proof. eexists. eexists. split; vm_compute; [reflexivity|split; reflexivity]. Qed.

(* F04b (still there after the repair): get_state, store, get_state of ONE parameter pending together: the
   first reply (not stored) goes to both get_state callbacks *)
Definition ex_f04b_events : list event :=
  [EvMisc 4 0 (Some 1); EvMisc 3 0 None; EvMisc 4 0 (Some 3); EvUGet; EvUSend; EvDeliver].

Lemma ex_f04b : exists s o, wf (ex_cfg true) /\ run (ex_cfg true) (init (ex_cfg true)) ex_f04b_events = Some (s, o) /\
  misc_calls o = [(1, 0, MState false (VInt 7) None); (3, 0, MState false (VInt 7) None)] /\ s_clos s = [].
Proof. eexists. eexists. split; [reflexivity|]. split; vm_compute; [reflexivity|split; reflexivity]. Qed.

(* non-vacuity: a reachable state with the lock held, one reply and one notification in flight, a closure pending,
   followed by the delivery of both *)
Definition ex_busy_events : list event :=
  [EvRead 0; EvRead 1; EvRead 2; EvUGet; EvUSend; EvNotify 11 [2; 2]; EvMisc 6 1 (Some 9)].

Lemma ex_busy : exists s o, run (ex_cfg true) (init (ex_cfg true)) ex_busy_events = Some (s, o) /\
  s_lock s = true /\ d_out s = [(1, [10; 0; 0; 5; 0]); (3, [1; 11; 0; 2; 2])] /\ length (s_clos s) = 1%nat /\
  length (s_queue s) = 3%nat /\ pkt_val (1, [10; 0; 0; 5; 0]) = Some (10, [5; 0]).
Proof. eexists. eexists. split; vm_compute; [reflexivity|repeat split; reflexivity]. Qed.

Lemma ex_set : exists s o, run (ex_cfg true) (init (ex_cfg true))
    [EvRead 0; EvRead 1; EvRead 2; EvUGet; EvUSend; EvDeliver; EvUGet; EvUSend; EvDeliver; EvUGet; EvUSend; EvDeliver;
     EvSet 1 (VInt 65535); EvSet 1 (VInt 65536); EvSet 7 (VInt 1); EvUGet; EvUSend; EvDeliver] = Some (s, o) /\
  txs o = [(1, [10; 0]); (1, [11; 0]); (1, [12; 0]); (2, [11; 0; 255; 255])] /\
  get_value (ex_cfg true) s 1 = Some (VInt 65535) /\ s_updated s = true /\ s_lock s = false.
Proof. eexists. eexists. split; vm_compute; [reflexivity|repeat split; reflexivity]. Qed.

(* ---- a two-class priority queue in place of the FIFO request queue (what a "writes first" updater would do):
        the updater takes the first write-channel request if there is one, else the head *)
Fixpoint take_write (q : list req) : option (req * list req) :=
  match q with
  | [] => None
  | r :: q' => if fst (r_pk r) =? 2 then Some (r, q')
               else match take_write q' with Some (w, rest) => Some (w, r :: rest) | None => None end
  end.

Definition step_prio (c : config) (s : state) (ev : event) : option (state * list obs) :=
  match ev with
  | EvUGet =>
    match s_hand s, s_queue s with
    | None, r :: q =>
      match take_write (r :: q) with
      | Some (w, rest) => Some (set_hand (set_queue s rest) (Some w), [])
      | None => Some (set_hand (set_queue s q) (Some r), [])
      end
    | _, _ => None
    end
  | _ => step c s ev
  end.

Fixpoint run_prio (c : config) (s : state) (evs : list event) : option (state * list obs) :=
  match evs with
  | [] => Some (s, [])
  | e :: r =>
    match step_prio c s e with
    | None => None
    | Some (s1, o1) => match run_prio c s1 r with None => None | Some (s2, o2) => Some (s2, o1 ++ o2) end
    end
  end.

Definition ex_fetch : list event :=
  [EvRead 0; EvRead 1; EvRead 2; EvUGet; EvUSend; EvDeliver; EvUGet; EvUSend; EvDeliver; EvUGet; EvUSend; EvDeliver].
(* set a=1 on the wire with a slow reply; read b, read c, set c=5, persistent_store c, set c=6 issued behind it *)
Definition ex_backlog : list event :=
  ex_fetch ++ [EvSet 0 (VInt 1); EvUGet; EvUSend; EvRead 1; EvRead 2; EvSet 2 (VInt 5); EvMisc 3 2 None; EvSet 2 (VInt 6);
               EvDeliver; EvUGet; EvUSend; EvDeliver; EvUGet; EvUSend; EvDeliver; EvUGet; EvUSend; EvDeliver;
               EvUGet; EvUSend; EvDeliver; EvUGet; EvUSend; EvDeliver].

Lemma ex_prio_reorders : exists s o, run_prio (ex_cfg true) (init (ex_cfg true)) ex_backlog = Some (s, o) /\
  skipn 3 (enqs o) = [(2, [10; 0; 1; 0]); (1, [11; 0]); (1, [12; 0]); (2, [12; 0; 5; 0]); (3, [3; 12; 0]); (2, [12; 0; 6; 0])] /\
  skipn 3 (txs o)  = [(2, [10; 0; 1; 0]); (2, [12; 0; 5; 0]); (2, [12; 0; 6; 0]); (1, [11; 0]); (1, [12; 0]); (3, [3; 12; 0])] /\
  aget 12 (d_stored s) = [6; 0].
Proof. eexists. eexists. split; vm_compute; [reflexivity|repeat split; reflexivity]. Qed.

Lemma ex_fifo_keeps_order : exists s o, run (ex_cfg true) (init (ex_cfg true)) ex_backlog = Some (s, o) /\
  txs o = enqs o /\ aget 12 (d_stored s) = [5; 0].
Proof. eexists. eexists. split; vm_compute; [reflexivity|split; reflexivity]. Qed.

(* set_value(<uint8 parameter>, 2): the write echo [id_lo; id_hi; 2] is the echo of the value 2 (not ENOENT) *)
Definition ex_u8 : config := mkCfg [mkElem 3 0 0 TU8 false true] [(0, 1000)] [] [1003] [(3, [9])] [(3, [9])] [] true.
Lemma ex_write_two : exists s o, run ex_u8 (init ex_u8)
    [EvRead 0; EvUGet; EvUSend; EvDeliver; EvSet 0 (VInt 2); EvUGet; EvUSend; EvDeliver] = Some (s, o) /\
  rx_replies o = [(1, [3; 0; 0; 9]); (2, [3; 0; 2])] /\ get_value ex_u8 s 0 = Some (VInt 2) /\
  upd_calls o = [(1000, 0, VInt 9); (1003, 0, VInt 9); (1000, 0, VInt 2); (1003, 0, VInt 2)] /\ s_lock s = false.
Proof. eexists. eexists. split; vm_compute; [reflexivity|repeat split; reflexivity]. Qed.

(* ---- a dispatcher whose callbacks share a MUTABLE packet, with an updater that strips the command byte of a
        MISC_VALUE_UPDATED notification in place: the closures, which run after the updater, are handed the stripped bytes *)
Definition deliver_strip (c : config) (s : state) : option (state * list obs) :=
  match d_out s with
  | [] => None
  | p :: rest =>
    let s0 := set_dev s (d_store s) (d_stored s) rest in
    let '(s1, o1) := updater_cb c p s0 in
    let p' := if (fst p =? 3) && match snd p with 1 :: _ => true | _ => false end then (3, tl (snd p)) else p in
    let ks := s_clos s1 in
    Some (set_clos s1 (filter (fun k => negb (clo_fires (idmatch c) p' k)) ks), ORx p :: o1 ++ clo_obs (idmatch c) p' ks)
  end.

Fixpoint run_strip (c : config) (s : state) (evs : list event) : option (state * list obs) :=
  match evs with
  | [] => Some (s, [])
  | e :: r =>
    match (match e with EvDeliver => deliver_strip c s | _ => step c s e end) with
    | None => None
    | Some (s1, o1) => match run_strip c s1 r with None => None | Some (s2, o2) => Some (s2, o1 ++ o2) end
    end
  end.

(* get_default_value of parameter 0 (uint8, default 7) is outstanding; the device reports a new value 0x2A00 of parameter 6
   (uint16): index 6 = MISC_GET_DEFAULT_VALUE | (0 << 8), first value byte 0 = high byte of index 0 *)
Definition ex_al : config :=
  mkCfg [mkElem 0 0 0 TU8 false true; mkElem 6 1 1 TU16 false false] [] [] [] [(0, [1]); (6, [5; 0])] [(0, [7]); (6, [9; 0])] [] true.
Definition ex_al_events : list event := [EvMisc 6 0 (Some 1); EvUGet; EvNotify 6 [0; 42]; EvUSend; EvDeliver; EvDeliver].

Lemma ex_strip_misattributes : exists s o, run_strip ex_al (init ex_al) ex_al_events = Some (s, o) /\
  misc_calls o = [(1, 0, MDefault (VInt 42))] /\ s_clos s = [].
Proof. eexists. eexists. split; vm_compute; [reflexivity|split; reflexivity]. Qed.

Lemma ex_by_value : exists s o, run ex_al (init ex_al) ex_al_events = Some (s, o) /\
  misc_calls o = [(1, 0, MDefault (VInt 7))] /\ s_clos s = [] /\ cache_get 6 (s_cache s) = Some (VInt 10752).
Proof. eexists. eexists. split; vm_compute; [reflexivity|repeat split; reflexivity]. Qed.
