(* C04/Race.v — the _ParamUpdater THREAD across link changes, as an explicit thread program (program counter + held
   request) composed with the session events.  Requests carry the session they were issued in (= built from that
   session's table), their issue number and their reply pattern; nothing else of their content matters here.

   pc:  PGet     blocked in request_queue.get()
        PAcq r   holds r, blocked in wait_lock.acquire()
        PSend r  has taken wait_lock, found a link, set the pattern, and is inside Crazyflie.send_packet at
                 _send_lock.acquire()                                   (only when [r_fine] = true)
   [r_tag = true] is the repaired updater (F04g): requests are tagged with the session counter when they are put and
   dropped after wait_lock.acquire() if close() has been called since.  [r_tag = false] is the code before. *)
From CF Require Export Common.Bytes.
Open Scope Z_scope.

Record rq := mkRq { q_sess : Z; q_seq : Z; q_pat : Z }.
Inductive upc := PGet | PAcq (r : rq) | PSend (r : rq).

Record ust := mkU {
  u_sess : Z;                 (* number of close() calls so far = number of the current (or next) session *)
  u_link : bool;              (* cf.link is not None *)
  u_next : Z;                 (* issue counter *)
  u_queue : list rq;
  u_pc : upc;
  u_lock : bool;              (* wait_lock held *)
  u_out : option rq;          (* the request whose pattern is in _lock_pattern *)
  u_wire : list (Z * rq);     (* (session whose link it went out on, request), in order *)
  u_fly : list rq }.          (* replies on their way on the current link (each named by the request it answers) *)

Record rcfg := mkRC { r_tag : bool; r_fine : bool }.

Inductive uev :=
| UIssue (pat : Z)          (* an API call puts a request *)
| UStep                     (* the updater thread runs from its blocking point to the next *)
| UReply                    (* the dispatcher delivers the next reply to _new_packet_cb *)
| UDown                     (* close_link / lost link: cf.link = None, then _disconnected -> close() *)
| UUp.                      (* open_link to the next device *)

Definition u0 : ust := mkU 0 true 0 [] PGet false None [] [].

Definition usend (s : ust) (r : rq) : ust :=
  if u_link s then mkU (u_sess s) true (u_next s) (u_queue s) PGet (u_lock s) (u_out s) (u_wire s ++ [(u_sess s, r)]) (u_fly s ++ [r])
  else mkU (u_sess s) false (u_next s) (u_queue s) PGet (u_lock s) (u_out s) (u_wire s) (u_fly s).

Definition ustep (c : rcfg) (s : ust) (e : uev) : option ust :=
  match e with
  | UIssue pat =>
    Some (mkU (u_sess s) (u_link s) (u_next s + 1) (u_queue s ++ [mkRq (u_sess s) (u_next s) pat]) (u_pc s) (u_lock s) (u_out s)
              (u_wire s) (u_fly s))
  | UStep =>
    match u_pc s with
    | PGet =>
      match u_queue s with
      | r :: q => Some (mkU (u_sess s) (u_link s) (u_next s) q (PAcq r) (u_lock s) (u_out s) (u_wire s) (u_fly s))
      | [] => None
      end
    | PAcq r =>
      if u_lock s then None
      else if u_link s && (negb (r_tag c) || (q_sess r =? u_sess s)) then
        let s1 := mkU (u_sess s) (u_link s) (u_next s) (u_queue s) (PSend r) true (Some r) (u_wire s) (u_fly s) in
        if r_fine c then Some s1 else Some (usend s1 r)
      else Some (mkU (u_sess s) (u_link s) (u_next s) (u_queue s) PGet false (u_out s) (u_wire s) (u_fly s))
    | PSend r => Some (usend s r)
    end
  | UReply =>
    match u_fly s with
    | r :: rest =>
      let hit := match u_out s with Some o => q_pat o =? q_pat r | None => false end in
      Some (mkU (u_sess s) (u_link s) (u_next s) (u_queue s) (u_pc s) (if hit then false else u_lock s)
                (if hit then None else u_out s) (u_wire s) rest)
    | [] => None
    end
  | UDown =>
    if u_link s then Some (mkU (u_sess s + 1) false (u_next s) [] (u_pc s) false None (u_wire s) []) else None
  | UUp =>
    if u_link s then None
    else Some (mkU (u_sess s) true (u_next s) (u_queue s) (u_pc s) (u_lock s) (u_out s) (u_wire s) (u_fly s))
  end.

Fixpoint urun (c : rcfg) (s : ust) (evs : list uev) : option ust :=
  match evs with
  | [] => Some s
  | e :: r => match ustep c s e with Some s1 => urun c s1 r | None => None end
  end.

(* ---- test plumbing for the correspondence step *)
Definition pc_code (p : upc) : list Z := match p with PGet => [0; -1] | PAcq r => [1; q_seq r] | PSend r => [2; q_seq r] end.
Definition usnap (s : ust) : list Z :=
  [if u_link s then 1 else 0] ++ pc_code (u_pc s) ++ [if u_lock s then 1 else 0; match u_out s with Some o => q_pat o | None => -1 end] ++
  [Z.of_nat (length (u_queue s))] ++ map q_seq (u_queue s) ++
  [Z.of_nat (length (u_wire s))] ++ flat_map (fun w => [fst w; q_seq (snd w)]) (u_wire s) ++
  [Z.of_nat (length (u_fly s))] ++ map q_seq (u_fly s).
Fixpoint utrace (c : rcfg) (s : ust) (evs : list uev) : list Z :=
  match evs with
  | [] => []
  | e :: r => match ustep c s e with Some s1 => usnap s1 ++ utrace c s1 r | None => [-999] end
  end.
