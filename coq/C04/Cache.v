(* C04/Cache.v — a parameter table restored from a TOC cache file (cflib/crazyflie/toccache.py _encoder/_decoder):
   the element as it is on disk carries the access as a NUMBER; Param.set_value refuses when that number equals
   ParamTocElement.RO_ACCESS.  [ro_const] is that class constant (1 in the library; the files on disk, written by the
   library or shipped in a read-only cache directory, hold 0 / 1). *)
From CF Require Import Common.Bytes C04.Model C04.Proofs.
Open Scope Z_scope.

Record disk_elem := mkDisk { k_ident : Z; k_name : Z; k_group : Z; k_ty : pty; k_access : Z; k_extended : bool }.

Definition RO_ACCESS_DISK : Z := 1.     (* what files written by HEAD hold for a read-only parameter *)

(* TocCache._encoder applied to an element whose access is the library's 0 / 1 *)
Definition to_disk (e : elem) (extended : bool) : disk_elem :=
  mkDisk (e_id e) (e_name e) (e_group e) (e_ty e) (if e_ro e then RO_ACCESS_DISK else 0) extended.

(* TocCache._decoder followed by the test `element.access == ParamTocElement.RO_ACCESS` of set_value; the persistent
   mark comes from the extended-type phase, not from the file *)
Definition of_disk (ro_const : Z) (pers : Z -> bool) (d : disk_elem) : elem :=
  mkElem (k_ident d) (k_name d) (k_group d) (k_ty d) (k_access d =? ro_const) (pers (k_ident d)).

Definition restore (ro_const : Z) (pers : Z -> bool) (ds : list disk_elem) : list elem := map (of_disk ro_const pers) ds.

Lemma of_to_disk e x pers : pers (e_id e) = e_pers e -> of_disk 1 pers (to_disk e x) = e.
Proof. destruct e as [i n g t ro p]. unfold of_disk, to_disk, RO_ACCESS_DISK. cbn. intros ->. destruct ro; reflexivity. Qed.

Lemma find_name_restore ro_const pers ds n d :
  find (fun x => k_name x =? n) ds = Some d -> find_name (restore ro_const pers ds) n = Some (of_disk ro_const pers d).
Proof.
  unfold find_name, restore. induction ds as [|x ds IH]; cbn [find map]; [discriminate|].
  cbn [of_disk e_name]. destruct (k_name x =? n); [intros H; injection H as <-; reflexivity|exact IH].
Qed.

(* a read-only element restored from its on-disk form is refused without transmission (library constant 1) *)
Lemma restored_readonly_refused c s pers ds name v d :
  toc c = restore 1 pers ds -> s_updated s = true ->
  find (fun x => k_name x =? name) ds = Some d -> k_access d = RO_ACCESS_DISK ->
  step c s (EvSet name v) = Some (s, [ORaise X_ATTR]).
Proof.
  intros Ht Hu Hf Ha. cbn [step]. rewrite Hu. cbn [negb]. unfold set_value. rewrite Ht, (find_name_restore 1 pers ds name d Hf).
  cbn [of_disk e_ro]. rewrite Ha. reflexivity.
Qed.

(* with the class constant changed to the firmware flag 0x40 the same file lets the write through *)
Definition ex_disk : list disk_elem := [mkDisk 0 0 0 TU8 0 false; mkDisk 1 1 0 TU16 1 true].
Definition ex_cache_cfg (ro_const : Z) : config :=
  mkCfg (restore ro_const (fun _ => false) ex_disk) [] [] [] [(0, [1]); (1, [2; 0])] [(0, [1]); (1, [2; 0])] [] true.

Lemma ex_flag_constant : exists s o, run (ex_cache_cfg 64) (init (ex_cache_cfg 64))
    [EvRead 0; EvRead 1; EvUGet; EvUSend; EvDeliver; EvUGet; EvUSend; EvDeliver; EvSet 1 (VInt 7); EvUGet; EvUSend] = Some (s, o) /\
  txs o = [(1, [0; 0]); (1, [1; 0]); (2, [1; 0; 7; 0])].
Proof. eexists. eexists. split; vm_compute; reflexivity. Qed.

Lemma ex_library_constant : exists s o, run (ex_cache_cfg 1) (init (ex_cache_cfg 1))
    [EvRead 0; EvRead 1; EvUGet; EvUSend; EvDeliver; EvUGet; EvUSend; EvDeliver; EvSet 1 (VInt 7)] = Some (s, o) /\
  txs o = [(1, [0; 0]); (1, [1; 0])] /\ s_queue s = [] /\ List.last o OAll = ORaise X_ATTR.
Proof. eexists. eexists. split; vm_compute; [reflexivity|repeat split; reflexivity]. Qed.
