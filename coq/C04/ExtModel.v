(* C04/ExtModel.v — executable model of _ExtendedTypeFetcher (cflib/crazyflie/param.py): request_queue, _lock,
   _req_param, _count, the worker loop split at its two blocking points, and _new_packet_cb, against a device that
   answers every MISC_GET_EXTENDED_TYPE request once; any other packet may arrive on the parameter port in
   between (unsolicited MISC_VALUE_UPDATED, replies to other misc commands).
   [x_cmdcheck = true] is the repaired callback (it looks at the command byte, F04e); false is the code before.
   The TOC side (which elements are extended, marking in the table) is modelled in C03/ExtModel.v; here the
   subject is attribution: which packet is taken as the answer to which request. *)
From CF Require Export C04.Model.
Open Scope Z_scope.

Record xcfg := mkXC {
  x_ids : list Z;             (* ids of the extended elements, in request order *)
  x_dev : list (Z * Z);       (* device: id -> extended type byte *)
  x_cmdcheck : bool }.

Record fstate := mkF {
  f_queue : list Z;           (* request_queue (ids) *)
  f_hand : option Z;          (* worker has dequeued it and waits for _lock *)
  f_lock : bool;
  f_req : Z;                  (* _req_param *)
  f_count : Z;                (* _count *)
  f_pers : list Z;            (* ids marked persistent, latest first *)
  f_done : Z;                 (* number of calls of the done callback *)
  f_out : list pkt;           (* device -> client link *)
  f_sent : list Z;            (* bookkeeping: ids requested on the wire, in order *)
  f_ans : list Z }.           (* bookkeeping: ids whose request has been answered, in order *)

Definition fstart (c : xcfg) : fstate :=
  mkF (x_ids c) None false (-1) (Z.of_nat (length (x_ids c))) [] 0 [] [] [].

Definition xtype (c : xcfg) (i : Z) : Z :=
  match find (fun p => fst p =? i) (x_dev c) with Some p => snd p | None => 0 end.

Definition xreply (c : xcfg) (i : Z) : pkt := (3, 2 :: id2 i ++ [xtype c i]).

Inductive fevent :=
| FGet                      (* request_queue.get() returns *)
| FSend                     (* _lock.acquire() returns: _req_param set, request sent *)
| FDeliver                  (* dispatcher hands the next packet to _new_packet_cb *)
| FOther (p : pkt).         (* the device sends something that is not an extended-type reply *)

Inductive fobs := FTx (i : Z) | FRx (p : pkt) | FDone.

Definition is_xreply (p : pkt) : bool :=
  (fst p =? 3) && match snd p with cmd :: _ => cmd =? 2 | [] => false end.

(* _new_packet_cb; exceptions (struct.error / IndexError) leave the state untouched *)
Definition f_on_packet (c : xcfg) (s : fstate) (p : pkt) : fstate * list fobs :=
  let '(ch, data) := p in
  if negb (ch =? 3) then (s, []) else
  if x_cmdcheck c && negb (match data with cmd :: _ => cmd =? 2 | [] => false end) then (s, []) else
  let idb := slice data 1 3 in
  if negb (Nat.eqb (length idb) 2) then (s, []) else
  if negb (f_req s =? le_val idb) then (s, []) else
  match nth_error data 3 with
  | None => (s, [])
  | Some xt =>
    let pers := if xt =? 1 then le_val idb :: f_pers s else f_pers s in
    let cnt := f_count s - 1 in
    if cnt =? 0 then
      (mkF [] (f_hand s) false (-1) cnt pers (f_done s + 1) (f_out s) (f_sent s) (f_ans s ++ [le_val idb]), [FDone])
    else
      (mkF (f_queue s) (f_hand s) false (-1) cnt pers (f_done s) (f_out s) (f_sent s) (f_ans s ++ [le_val idb]), [])
  end.

Definition set_fout (s : fstate) (o : list pkt) : fstate :=
  mkF (f_queue s) (f_hand s) (f_lock s) (f_req s) (f_count s) (f_pers s) (f_done s) o (f_sent s) (f_ans s).

Definition fstep (c : xcfg) (s : fstate) (e : fevent) : option (fstate * list fobs) :=
  match e with
  | FGet =>
    match f_hand s, f_queue s with
    | None, i :: q => Some (mkF q (Some i) (f_lock s) (f_req s) (f_count s) (f_pers s) (f_done s) (f_out s) (f_sent s) (f_ans s), [])
    | _, _ => None
    end
  | FSend =>
    match f_hand s with
    | Some i => if f_lock s then None else
        Some (mkF (f_queue s) None true i (f_count s) (f_pers s) (f_done s) (f_out s ++ [xreply c i]) (f_sent s ++ [i]) (f_ans s),
              [FTx i])
    | None => None
    end
  | FDeliver =>
    match f_out s with
    | [] => None
    | p :: rest => let '(s1, o) := f_on_packet c (set_fout s rest) p in Some (s1, FRx p :: o)
    end
  | FOther p => if is_xreply p then None else Some (set_fout s (f_out s ++ [p]), [])
  end.

Fixpoint frun (c : xcfg) (s : fstate) (evs : list fevent) : option (fstate * list fobs) :=
  match evs with
  | [] => Some (s, [])
  | e :: r =>
    match fstep c s e with
    | None => None
    | Some (s1, o1) => match frun c s1 r with None => None | Some (s2, o2) => Some (s2, o1 ++ o2) end
    end
  end.

Definition wf_xcfg (c : xcfg) : bool :=
  znodup (x_ids c) && forallb (fun i => (0 <=? i) && (i <? 65536)) (x_ids c).

(* ---- test plumbing for the correspondence step: also packets the device of the theorems never sends *)
Inductive fxevent := FX (e : fevent) | FStray (p : pkt).
Definition fxstep (c : xcfg) (s : fstate) (x : fxevent) : option (fstate * list fobs) :=
  match x with FX e => fstep c s e | FStray p => Some (set_fout s (f_out s ++ [p]), []) end.

Definition enc_fobs (o : fobs) : list Z :=
  match o with FTx i => [1; i] | FRx p => 2 :: fst p :: Z.of_nat (length (snd p)) :: snd p | FDone => [3] end.

Definition fsnap (toc_ids : list Z) (s : fstate) : list Z :=
  [Z.of_nat (length (f_queue s))] ++ f_queue s ++
  [match f_hand s with Some _ => 1 | None => 0 end; (if f_lock s then 1 else 0); f_req s; f_count s; f_done s] ++
  map (fun i => if existsb (Z.eqb i) (f_pers s) then 1 else 0) toc_ids ++
  [Z.of_nat (length (f_out s))] ++ flat_map (fun p => fst p :: Z.of_nat (length (snd p)) :: snd p) (f_out s).

Fixpoint ftrace (c : xcfg) (toc_ids : list Z) (s : fstate) (xs : list fxevent) : list Z :=
  match xs with
  | [] => []
  | x :: r =>
    match fxstep c s x with
    | None => [-999]
    | Some (s1, o) => Z.of_nat (length o) :: flat_map enc_fobs o ++ fsnap toc_ids s1 ++ ftrace c toc_ids s1 r
    end
  end.
