(* C04/Race_proofs.v — the repaired updater thread (session tag checked after wait_lock.acquire(), check and send taken as
   one step) never carries a request or a reply across a link change; wire order = issue order. *)
From CF Require Import Common.Bytes C04.Race.
From Coq Require Import Sorted ZifyBool.
Open Scope Z_scope.

Definition fixedc : rcfg := mkRC true false.

Definition held (p : upc) : list rq := match p with PGet => [] | PAcq r => [r] | PSend r => [r] end.
(* issue numbers: on the wire, then held by the updater, then queued *)
Definition seqs (s : ust) : list Z := map (fun w => q_seq (snd w)) (u_wire s) ++ map q_seq (held (u_pc s)) ++ map q_seq (u_queue s).

Lemma ss_app_inv (a b : list Z) : StronglySorted Z.lt (a ++ b) ->
  StronglySorted Z.lt a /\ StronglySorted Z.lt b /\ (forall x y, In x a -> In y b -> x < y).
Proof.
  induction a as [|x a IH]; cbn [app]; intros H.
  - repeat split; [constructor|exact H|intros ? ? []].
  - inversion H as [|x0 l Hs Hf]; subst. destruct (IH Hs) as [Ha [Hb Hab]]. rewrite Forall_app in Hf. destruct Hf as [Fa Fb].
    repeat split; [now constructor|exact Hb|].
    intros u v [<-|Hu] Hv; [rewrite Forall_forall in Fb; now apply Fb|now apply Hab].
Qed.

Lemma ss_app (a b : list Z) : StronglySorted Z.lt a -> StronglySorted Z.lt b -> (forall x y, In x a -> In y b -> x < y) ->
  StronglySorted Z.lt (a ++ b).
Proof.
  induction a as [|x a IH]; cbn [app]; intros Ha Hb Hab; [exact Hb|].
  inversion Ha as [|x0 l Hs Hf]; subst. constructor.
  - apply IH; [exact Hs|exact Hb|]. intros u v Hu Hv. apply Hab; [now right|exact Hv].
  - apply Forall_app. split; [exact Hf|]. apply Forall_forall. intros v Hv. apply Hab; [now left|exact Hv].
Qed.

Record K (s : ust) : Prop := {
  k_wire : Forall (fun w => q_sess (snd w) = fst w) (u_wire s);
  k_fly : Forall (fun r => q_sess r = u_sess s) (u_fly s);
  k_out : forall o, u_out s = Some o -> q_sess o = u_sess s;
  k_queue : Forall (fun r => q_sess r = u_sess s) (u_queue s);
  k_pc : match u_pc s with PSend _ => False | _ => True end;
  k_sorted : StronglySorted Z.lt (seqs s);
  k_next : Forall (fun x => x < u_next s) (seqs s)
}.

Lemma K0 : K u0.
Proof. constructor; cbn; try constructor; try discriminate; auto. Qed.

Ltac proj := cbn [u_wire u_fly u_out u_queue u_pc u_sess u_next u_link u_lock held map app fst snd q_sess q_seq q_pat].

Lemma ustep_K s e s1 : K s -> ustep fixedc s e = Some s1 -> K s1.
Proof.
  intros I. destruct e as [pat| | | |]; cbn [ustep fixedc r_tag r_fine negb orb].
  - (* issue *)
    intros H. injection H as <-. destruct I. constructor; proj; try assumption.
    + apply Forall_app. split; [assumption|]. constructor; [reflexivity|constructor].
    + unfold seqs in *. proj. rewrite map_app, !app_assoc. cbn [map q_seq].
      apply ss_app; [rewrite <- app_assoc; assumption|repeat constructor|].
      intros x y Hx [<-|[]]. rewrite <- app_assoc in Hx. rewrite Forall_forall in k_next0. now apply k_next0.
    + unfold seqs in *. proj. rewrite map_app, !app_assoc. apply Forall_app. split.
      * rewrite <- app_assoc. eapply Forall_impl; [|exact k_next0]. cbn. lia.
      * cbn. constructor; [lia|constructor].
  - (* updater step *)
    destruct (u_pc s) as [|r|r] eqn:Epc.
    + destruct (u_queue s) as [|r q] eqn:Eq; [discriminate|]. intros H. injection H as <-.
      destruct I. rewrite Eq in *. unfold seqs in *. rewrite Epc, Eq in *.
      constructor; unfold seqs; proj; try assumption; try exact Logic.I. now inversion k_queue0.
    + destruct (u_lock s); [discriminate|]. destruct I. unfold seqs in *. rewrite Epc in *. cbn [held map] in *.
      destruct (u_link s && (q_sess r =? u_sess s)) eqn:Ec.
      * apply andb_true_iff in Ec as [El Es]. apply Z.eqb_eq in Es. unfold usend. proj. rewrite El.
        intros H. injection H as <-. constructor; unfold seqs; proj; try assumption; try exact Logic.I.
        -- apply Forall_app. split; [assumption|]. constructor; [exact Es|constructor].
        -- apply Forall_app. split; [assumption|]. constructor; [exact Es|constructor].
        -- intros o Ho. injection Ho as <-. exact Es.
        -- rewrite map_app. cbn [map snd q_seq]. rewrite <- app_assoc. exact k_sorted0.
        -- rewrite map_app. cbn [map snd q_seq]. rewrite <- app_assoc. exact k_next0.
      * intros H. injection H as <-. constructor; unfold seqs; proj; try assumption; try exact Logic.I.
        -- apply ss_app_inv in k_sorted0 as [Sa [Sb Hab]]. cbn [app] in Sb. inversion Sb as [|x l Sq Fq]; subst.
           apply ss_app; [exact Sa|exact Sq|]. intros x y Hx Hy. apply Hab; [exact Hx|now right].
        -- rewrite Forall_app in k_next0. destruct k_next0 as [Fa Fb]. cbn [app] in Fb. inversion Fb; subst.
           apply Forall_app. now split.
    + destruct I. rewrite Epc in k_pc0. contradiction.
  - (* reply *)
    destruct (u_fly s) as [|r rest] eqn:Ef; [discriminate|]. intros H. injection H as <-.
    destruct I. rewrite Ef in *. constructor; unfold seqs in *; proj; try assumption.
    + now inversion k_fly0.
    + intros o. destruct (match u_out s with Some o0 => q_pat o0 =? q_pat r | None => false end); [discriminate|]. apply k_out0.
  - (* link down *)
    destruct (u_link s); [|discriminate]. intros H. injection H as <-.
    destruct I. constructor; unfold seqs in *; proj; try assumption; try constructor; try discriminate.
    + apply ss_app_inv in k_sorted0 as [Sa [Sb Hab]]. apply ss_app_inv in Sb as [Sh [_ _]].
      rewrite app_nil_r. apply ss_app; [exact Sa|exact Sh|]. intros x y Hx Hy. apply Hab; [exact Hx|]. apply in_or_app. now left.
    + rewrite Forall_app in k_next0. destruct k_next0 as [Fa Fb]. rewrite Forall_app in Fb. destruct Fb as [Fh _].
      rewrite app_nil_r. apply Forall_app. now split.
  - (* link up *)
    destruct (u_link s); [discriminate|]. intros H. injection H as <-.
    destruct I. constructor; unfold seqs in *; proj; assumption.
Qed.

Lemma urun_K evs : forall s s1, K s -> urun fixedc s evs = Some s1 -> K s1.
Proof.
  induction evs as [|e evs IH]; intros s s1 I; cbn [urun].
  - intros H. injection H as <-. exact I.
  - destruct (ustep fixedc s e) as [s2|] eqn:E; [|discriminate]. intros H. eapply IH; [|exact H]. eapply ustep_K; eauto.
Qed.

(* the summary used by the property *)
Lemma updater_sessions evs s : urun fixedc u0 evs = Some s ->
  Forall (fun w => q_sess (snd w) = fst w) (u_wire s) /\
  Forall (fun r => q_sess r = u_sess s) (u_fly s) /\
  (forall o, u_out s = Some o -> q_sess o = u_sess s) /\
  StronglySorted Z.lt (map (fun w => q_seq (snd w)) (u_wire s)).
Proof.
  intros H. pose proof (urun_K evs _ _ K0 H) as I. destruct I.
  repeat split; try assumption. unfold seqs in k_sorted0. now apply ss_app_inv in k_sorted0 as [Sa _].
Qed.

(* ---- witnesses: the code before the repair, and the repaired code at the finer granularity *)
(* read of pattern 5 issued and dequeued while an earlier request (pattern 7) is awaited; the link drops, the next one
   comes up before the updater thread has run: the request of session 0 goes out on the link of session 1 *)
Definition ex_stale : list uev := [UIssue 7; UStep; UStep; UIssue 5; UStep; UDown; UUp; UStep].

Lemma ex_unrepaired : exists s, urun (mkRC false false) u0 ex_stale = Some s /\
  u_wire s = [(0, mkRq 0 0 7); (1, mkRq 0 1 5)].
Proof. eexists. split; vm_compute; reflexivity. Qed.

Lemma ex_repaired : exists s, urun fixedc u0 ex_stale = Some s /\ u_wire s = [(0, mkRq 0 0 7)] /\ u_pc s = PGet /\ u_lock s = false.
Proof. eexists. split; vm_compute; [reflexivity|repeat split; reflexivity]. Qed.

(* finer granularity (hand-over also at _send_lock inside Crazyflie.send_packet): the tag has been checked, the link
   drops and the next one comes up while the thread sits at the send lock *)
Definition ex_window : list uev := [UIssue 5; UStep; UStep; UDown; UUp; UStep].

Lemma ex_send_window : exists s, urun (mkRC true true) u0 ex_window = Some s /\ u_wire s = [(1, mkRq 0 0 5)].
Proof. eexists. split; vm_compute; reflexivity. Qed.
