(* C04/Proofs_c.v — part 3: the protocol invariant (one outstanding request, the only reply in flight answers it). *)
From CF Require Import Common.Bytes C04.Model C04.Proofs C04.Proofs_b.
From Coq Require Import ZifyBool.
Open Scope Z_scope.
Ltac Zify.zify_post_hook ::= Z.to_euclidean_division_equations.

Definition patof (p : pkt) : list Z := if fst p =? 3 then firstn 3 (snd p) else firstn 2 (snd p).

Definition misc_cmd (cmd : Z) : Prop := cmd = 3 \/ cmd = 4 \/ cmd = 5 \/ cmd = 6.

Inductive wf_req (c : config) : req -> Prop :=
| WRead e t : In e (toc c) -> wf_req c (mkReq (1, id2 (e_id e)) t)
| WWrite e b t : In e (toc c) -> length b = ty_width (e_ty e) -> wf_req c (mkReq (2, id2 (e_id e) ++ b) t)
| WMisc e cmd t : In e (toc c) -> misc_cmd cmd -> wf_req c (mkReq (3, cmd :: id2 (e_id e)) t).

(* payload of a misc reply after command and id *)
Definition pay_ok (w : nat) (cmd : Z) (pay : list Z) : Prop :=
  ((cmd = 3 \/ cmd = 5) /\ exists st, pay = [st]) \/
  (cmd = 6 /\ (pay = [ENOENT] \/ length pay = w)) \/
  (cmd = 4 /\ (pay = [ENOENT] \/ (exists d, pay = 0 :: d /\ length d = w) \/
               (exists d sv, pay = 1 :: d ++ sv /\ length d = w /\ length sv = w))).

Inductive reply_ok (c : config) : req -> pkt -> Prop :=
| RRead e t b : In e (toc c) -> length b = ty_width (e_ty e) ->
    reply_ok c (mkReq (1, id2 (e_id e)) t) (1, id2 (e_id e) ++ [0] ++ b)
| RWrite e b t : In e (toc c) -> length b = ty_width (e_ty e) ->
    reply_ok c (mkReq (2, id2 (e_id e) ++ b) t) (2, id2 (e_id e) ++ b)
| RMisc e cmd t pay : In e (toc c) -> misc_cmd cmd -> pay_ok (ty_width (e_ty e)) cmd pay ->
    reply_ok c (mkReq (3, cmd :: id2 (e_id e)) t) (3, cmd :: id2 (e_id e) ++ pay).

Definition notif_ok (c : config) (p : pkt) : Prop :=
  exists e b, In e (toc c) /\ length b = ty_width (e_ty e) /\ p = (3, 1 :: id2 (e_id e) ++ b).

Definition out_elem_ok (c : config) (s : state) (p : pkt) : Prop :=
  if is_reply p then exists r, s_outst s = Some r /\ reply_ok c r p else notif_ok c p.

Definition reqs (s : state) : list req := opt_list (s_outst s) ++ opt_list (s_hand s) ++ s_queue s.

Record Inv (c : config) (s : state) : Prop := {
  i_req : Forall (wf_req c) (reqs s);
  i_cnt : length (filter is_reply (d_out s)) = b2n (s_lock s);
  i_unl : s_lock s = false -> s_pat s = None /\ s_outst s = None;
  i_lck : s_lock s = true -> exists r, s_outst s = Some r /\ s_pat s = Some (patof (r_pk r));
  i_out : Forall (out_elem_ok c s) (d_out s);
  i_dev : forall e, In e (toc c) -> length (aget (e_id e) (d_store s)) = ty_width (e_ty e);
  i_sto : forall e, In e (toc c) -> ahas (e_id e) (d_stored s) = true ->
                    length (aget (e_id e) (d_stored s)) = ty_width (e_ty e);
  i_clo : Forall (fun k => In (k_elem k) (toc c) /\ misc_cmd (k_cmd k)) (s_clos s)
}.

Lemma inv_init c : wf c -> Inv c (init c).
Proof.
  intros Hw. constructor; cbn; try constructor; try discriminate; auto.
  intros e He. now apply (wf_elem c e Hw He).
Qed.

(* ------------------------------------------------------------------ association-list facts for the device *)
Lemma ahas_aset_same i b m : ahas i (aset i b m) = true.
Proof. unfold ahas, aset. cbn. now rewrite Z.eqb_refl. Qed.

Lemma existsb_filter_other {B} i j (m : list (Z * B)) : i <> j ->
  existsb (fun p => fst p =? j) (filter (fun p => negb (fst p =? i)) m) = existsb (fun p => fst p =? j) m.
Proof.
  intros Hij. induction m as [|[k v] m IH]; cbn [filter existsb fst]; [reflexivity|].
  destruct (k =? i) eqn:E1; cbn [negb existsb fst].
  - apply Z.eqb_eq in E1. subst k. replace (i =? j) with false by lia. exact IH.
  - now rewrite IH.
Qed.

Lemma ahas_aset_other i j b m : i <> j -> ahas j (aset i b m) = ahas j m.
Proof. intros Hij. unfold ahas, aset. cbn [existsb fst]. replace (i =? j) with false by lia. now rewrite existsb_filter_other. Qed.

Lemma ahas_adel_other i j m : i <> j -> ahas j (adel i m) = ahas j m.
Proof. intros Hij. unfold ahas, adel. now apply existsb_filter_other. Qed.

Lemma ahas_adel_same i m : ahas i (adel i m) = false.
Proof.
  unfold ahas, adel. induction m as [|[k v] m IH]; cbn [filter existsb fst]; [reflexivity|].
  destruct (k =? i) eqn:E; cbn [negb existsb fst]; [exact IH|]. now rewrite E.
Qed.

Lemma aget_adel_other i j m : i <> j -> aget j (adel i m) = aget j m.
Proof. intros Hij. unfold aget, adel. now rewrite find_filter_other. Qed.

(* ------------------------------------------------------------------ the device answers a well-formed request *)
Definition dev_inv (c : config) (st sd : list (Z * list Z)) : Prop :=
  (forall e, In e (toc c) -> length (aget (e_id e) st) = ty_width (e_ty e)) /\
  (forall e, In e (toc c) -> ahas (e_id e) sd = true -> length (aget (e_id e) sd) = ty_width (e_ty e)).

Lemma slice_misc cmd i l : slice (cmd :: id2 i ++ l) 1 3 = id2 i.
Proof. rewrite id2_eq. reflexivity. Qed.
Lemma firstn2_id i l : firstn 2 (id2 i ++ l) = id2 i.
Proof. rewrite id2_eq. reflexivity. Qed.
Lemma skipn2_id i l : skipn 2 (id2 i ++ l) = l.
Proof. rewrite id2_eq. reflexivity. Qed.
Lemma firstn3_misc cmd i l : firstn 3 (cmd :: id2 i ++ l) = cmd :: id2 i.
Proof. rewrite id2_eq. reflexivity. Qed.

Lemma dev_recv_ok c r s : wf c -> wf_req c r -> dev_inv c (d_store s) (d_stored s) ->
  exists p st sd, dev_recv c (r_pk r) s = set_dev s st sd (d_out s ++ [p]) /\ reply_ok c r p /\ is_reply p = true /\
                  dev_inv c st sd.
Proof.
  intros Hw Hr [Hd Hs]. destruct Hr as [e t He|e b t He Hb|e cmd t He Hc]; cbn [r_pk].
  - (* read *)
    exists (1, id2 (e_id e) ++ [0] ++ aget (e_id e) (d_store s)), (d_store s), (d_stored s).
    destruct (wf_elem c e Hw He) as [Hid _].
    repeat split; try assumption.
    + unfold dev_recv. cbn [Z.eqb]. replace (firstn 2 (id2 (e_id e))) with (id2 (e_id e)) by (rewrite id2_eq; reflexivity).
      rewrite id2_val by assumption. reflexivity.
    + constructor; auto.
  - (* write *)
    exists (2, id2 (e_id e) ++ b), (aset (e_id e) b (d_store s)), (d_stored s).
    destruct (wf_elem c e Hw He) as [Hid _].
    repeat split; try assumption.
    + unfold dev_recv. cbn [Z.eqb]. rewrite firstn2_id, skipn2_id, id2_val by assumption. reflexivity.
    + constructor; auto.
    + intros e' He'. destruct (Z.eq_dec (e_id e) (e_id e')) as [E|E].
      * rewrite (wf_same_id c e e' Hw He He' E) in *. now rewrite aget_aset_same.
      * rewrite aget_aset_other by assumption. now apply Hd.
  - (* misc *)
    destruct (wf_elem c e Hw He) as [Hid [_ [_ [Hdl _]]]].
    assert (Hsl : slice (cmd :: id2 (e_id e)) 1 3 = id2 (e_id e)) by (rewrite id2_eq; reflexivity).
    unfold dev_recv. cbn [Z.eqb]. rewrite Hsl, id2_val by assumption.
    set (i := e_id e) in *. set (en := existsb (Z.eqb i) (dev_enoent c)).
    destruct Hc as [-> | [-> | [-> | ->]]]; cbn [Z.eqb].
    + (* store *)
      destruct en.
      * exists (3, 3 :: id2 i ++ [ENOENT]), (d_store s), (d_stored s). repeat split; try assumption.
        constructor; [assumption|unfold misc_cmd; auto|]. left. split; [auto|now exists ENOENT].
      * exists (3, 3 :: id2 i ++ [0]), (d_store s), (aset i (aget i (d_store s)) (d_stored s)). repeat split; try assumption.
        -- constructor; [assumption|unfold misc_cmd; auto|]. left. split; [auto|now exists 0].
        -- intros e' He' Hh. destruct (Z.eq_dec i (e_id e')) as [E|E].
           ++ unfold i in E. rewrite <- (wf_same_id c e e' Hw He He' E). fold i. rewrite aget_aset_same. now apply Hd.
           ++ rewrite ahas_aset_other in Hh by assumption. rewrite aget_aset_other by assumption. now apply Hs.
    + (* get state *)
      destruct en.
      * exists (3, 4 :: id2 i ++ [ENOENT]), (d_store s), (d_stored s). repeat split; try assumption.
        constructor; [assumption|unfold misc_cmd; auto|]. right. right. split; [reflexivity|now left].
      * destruct (ahas i (d_stored s)) eqn:Eh.
        -- exists (3, 4 :: id2 i ++ [1] ++ aget i (dev_default c) ++ aget i (d_stored s)), (d_store s), (d_stored s).
           repeat split; try assumption.
           constructor; [assumption|unfold misc_cmd; auto|]. right. right. split; [reflexivity|]. right. right.
           exists (aget i (dev_default c)), (aget i (d_stored s)). repeat split; [assumption|now apply Hs].
        -- exists (3, 4 :: id2 i ++ [0] ++ aget i (dev_default c)), (d_store s), (d_stored s).
           repeat split; try assumption.
           constructor; [assumption|unfold misc_cmd; auto|]. right. right. split; [reflexivity|]. right. left.
           exists (aget i (dev_default c)). now split.
    + (* clear *)
      destruct en.
      * exists (3, 5 :: id2 i ++ [ENOENT]), (d_store s), (d_stored s). repeat split; try assumption.
        constructor; [assumption|unfold misc_cmd; auto|]. left. split; [auto|now exists ENOENT].
      * exists (3, 5 :: id2 i ++ [0]), (d_store s), (adel i (d_stored s)). repeat split; try assumption.
        -- constructor; [assumption|unfold misc_cmd; auto|]. left. split; [auto|now exists 0].
        -- intros e' He' Hh. destruct (Z.eq_dec i (e_id e')) as [E|E].
           ++ rewrite <- E, ahas_adel_same in Hh. discriminate.
           ++ rewrite ahas_adel_other in Hh by assumption. rewrite aget_adel_other by assumption. now apply Hs.
    + (* default *)
      exists (3, 6 :: id2 i ++ (if en then [ENOENT] else aget i (dev_default c))), (d_store s), (d_stored s).
      repeat split; try assumption.
      constructor; [assumption|unfold misc_cmd; auto|]. right. left. split; [reflexivity|].
      destruct en; [now left|now right].
Qed.

(* ------------------------------------------------------------------ what a value packet does to the client *)
Definition val_fire (c : config) (s : state) (e : elem) (v : uval) : bool :=
  all_cached c (cache_set (e_id e) v (s_cache s)) && negb (s_updated s).
Definition val_state (c : config) (s : state) (e : elem) (v : uval) : state :=
  set_cache s (cache_set (e_id e) v (s_cache s)) (s_updated s || val_fire c s e v).
Definition val_obs (c : config) (s : state) (e : elem) (v : uval) : list obs :=
  map (fun cb => OUpd cb (e_name e) v) (cbs_for c e) ++ (if val_fire c s e v then [OAll] else []).

Ltac sproj := cbn [s_queue s_hand s_lock s_pat s_outst s_cache s_updated s_clos d_store d_stored d_out
                   set_queue set_hand set_lock set_cache set_clos set_dev release enq dev_push add_clo val_state reqs
                   opt_list app r_pk r_tag fst snd].

Lemma unpack_len t b : length b = ty_width t -> exists v, unpack t b = Some v.
Proof. intros H. unfold unpack. rewrite H, Nat.eqb_refl. eauto. Qed.

Lemma param_updated_ok c ii data s e b :
  wf c -> In e (toc c) -> slice data ii (ii + 2) = id2 (e_id e) -> skipn (ii + 2) data = b ->
  length b = ty_width (e_ty e) ->
  exists v, unpack (e_ty e) b = Some v /\ param_updated c ii data s = Some (val_state c s e v, val_obs c s e v).
Proof.
  intros Hw He Hs Hk Hl. destruct (unpack_len _ _ Hl) as [v Hv]. exists v. split; [assumption|].
  unfold param_updated. rewrite Hs. replace (length (id2 (e_id e))) with 2%nat by reflexivity. cbn [Nat.eqb].
  destruct (wf_elem c e Hw He) as [Hid _]. rewrite id2_val by assumption. rewrite (find_id_in c e Hw He).
  rewrite Hk, Hv. reflexivity.
Qed.

Lemma updater_cb_read c s e b : wf c -> In e (toc c) -> length b = ty_width (e_ty e) -> s_pat s = Some (id2 (e_id e)) ->
  exists v, unpack (e_ty e) b = Some v /\
            updater_cb c (1, id2 (e_id e) ++ [0] ++ b) s = (release (val_state c s e v), val_obs c s e v).
Proof.
  intros Hw He Hl Hp.
  destruct (param_updated_ok c 0 (id2 (e_id e) ++ b) s e b Hw He) as [v [Hv Hu]]; try assumption.
  { rewrite id2_eq. reflexivity. } { rewrite id2_eq. reflexivity. }
  exists v. split; [assumption|]. unfold updater_cb. cbn [Z.eqb Pos.eqb orb]. rewrite Hp.
  replace (firstn 2 (id2 (e_id e) ++ [0] ++ b)) with (id2 (e_id e)) by (rewrite id2_eq; reflexivity).
  unfold pat_is. rewrite zlist_eqb_refl.
  replace (skipn 3 (id2 (e_id e) ++ [0] ++ b)) with b by (rewrite id2_eq; reflexivity).
  rewrite Hu. reflexivity.
Qed.

Lemma updater_cb_write c s e b : wf c -> In e (toc c) -> length b = ty_width (e_ty e) -> s_pat s = Some (id2 (e_id e)) ->
  exists v, unpack (e_ty e) b = Some v /\
            updater_cb c (2, id2 (e_id e) ++ b) s = (release (val_state c s e v), val_obs c s e v).
Proof.
  intros Hw He Hl Hp.
  destruct (param_updated_ok c 0 (id2 (e_id e) ++ b) s e b Hw He) as [v [Hv Hu]]; try assumption.
  { rewrite id2_eq. reflexivity. } { rewrite id2_eq. reflexivity. }
  exists v. split; [assumption|]. unfold updater_cb. cbn [Z.eqb Pos.eqb orb]. rewrite Hp, firstn2_id.
  unfold pat_is. rewrite zlist_eqb_refl, Hu. reflexivity.
Qed.

Lemma updater_cb_misc c s cmd i pay : misc_cmd cmd -> s_pat s = Some (cmd :: id2 i) ->
  updater_cb c (3, cmd :: id2 i ++ pay) s = (release s, []).
Proof.
  intros Hc Hp. unfold updater_cb. cbn [Z.eqb Pos.eqb orb].
  replace (cmd =? 1) with false by (unfold misc_cmd in Hc; lia).
  rewrite firstn3_misc, Hp. unfold pat_is. now rewrite zlist_eqb_refl.
Qed.

Lemma updater_cb_notif c s e b : wf c -> In e (toc c) -> length b = ty_width (e_ty e) ->
  pat_is (s_pat s) (1 :: id2 (e_id e)) = false ->
  exists v, unpack (e_ty e) b = Some v /\
            updater_cb c (3, 1 :: id2 (e_id e) ++ b) s = (val_state c s e v, val_obs c s e v).
Proof.
  intros Hw He Hl Hp.
  destruct (param_updated_ok c 1 (1 :: id2 (e_id e) ++ b) s e b Hw He) as [v [Hv Hu]]; try assumption.
  { rewrite id2_eq. reflexivity. } { rewrite id2_eq. reflexivity. }
  exists v. split; [assumption|]. unfold updater_cb. cbn [Z.eqb Pos.eqb orb]. rewrite Hu.
  rewrite firstn3_misc. cbn [val_state set_cache s_pat]. rewrite Hp. reflexivity.
Qed.

Lemma patof_req c r : wf_req c r ->
  (exists e, patof (r_pk r) = id2 (e_id e)) \/ (exists cmd e, misc_cmd cmd /\ patof (r_pk r) = cmd :: id2 (e_id e)).
Proof.
  intros [e t He|e b t He Hb|e cmd t He Hc]; unfold patof; cbn [r_pk fst snd Z.eqb].
  - left. exists e. rewrite id2_eq. reflexivity.
  - left. exists e. apply firstn2_id.
  - right. exists cmd, e. split; [assumption|]. rewrite id2_eq. reflexivity.
Qed.

Lemma pat_not_notif c r i : wf_req c r -> pat_is (Some (patof (r_pk r))) (1 :: id2 i) = false.
Proof.
  intros Hr. unfold pat_is. destruct (zlist_eqb _ _) eqn:E; [|reflexivity]. exfalso.
  apply zlist_eqb_spec in E. destruct (patof_req c r Hr) as [[e H]|[cmd [e [Hc H]]]]; rewrite H in E.
  - rewrite !id2_eq in E. discriminate.
  - injection E as E _. unfold misc_cmd in Hc. lia.
Qed.

Lemma filter_nil_all {A} (f : A -> bool) l : length (filter f l) = 0%nat -> forall x, In x l -> f x = false.
Proof.
  intros H x Hx. destruct (f x) eqn:E; [|reflexivity]. exfalso.
  assert (Hin : In x (filter f l)) by (apply filter_In; now split).
  destruct (filter f l); [contradiction|discriminate].
Qed.

Lemma is_reply_notif i b : is_reply (3, 1 :: id2 i ++ b) = false.
Proof. reflexivity. Qed.

Lemma reply_ok_is_reply c r p : reply_ok c r p -> is_reply p = true.
Proof.
  intros [e t b He Hb|e b t He Hb|e cmd t pay He Hc Hp]; unfold is_reply; cbn [fst snd Z.eqb]; try reflexivity.
  replace (cmd =? 1) with false by (unfold misc_cmd in Hc; lia). reflexivity.
Qed.

(* ------------------------------------------------------------------ the invariant is preserved *)
Local Opaque dev_recv updater_cb clo_obs.

Lemma inv_dev c s : Inv c s -> dev_inv c (d_store s) (d_stored s).
Proof. intros I. split; [apply (i_dev c s I)|apply (i_sto c s I)]. Qed.

Lemma inv_ext c s s' : Inv c s ->
  s_lock s' = s_lock s -> s_pat s' = s_pat s -> s_outst s' = s_outst s -> d_out s' = d_out s ->
  d_store s' = d_store s -> d_stored s' = d_stored s ->
  Forall (wf_req c) (reqs s') -> Forall (fun k => In (k_elem k) (toc c) /\ misc_cmd (k_cmd k)) (s_clos s') -> Inv c s'.
Proof.
  intros I E1 E2 E3 E4 E5 E6 Hr Hk. destruct I. constructor; rewrite ?E1, ?E2, ?E3, ?E4, ?E5, ?E6; try assumption.
  unfold out_elem_ok in *. now rewrite E3.
Qed.

Lemma reqs_enq s r : reqs (enq s r) = reqs s ++ [r].
Proof. unfold reqs. sproj. now rewrite !app_assoc. Qed.

Lemma inv_enq c s r : Inv c s -> wf_req c r -> Inv c (enq s r).
Proof.
  intros I Hr. apply (inv_ext c s); try reflexivity; try assumption.
  - rewrite reqs_enq. apply Forall_app. split; [apply (i_req c s I)|now constructor].
  - apply (i_clo c s I).
Qed.

Lemma inv_add_clo c s cmd e cb : Inv c s -> In e (toc c) -> misc_cmd cmd -> Inv c (add_clo s cmd e cb).
Proof.
  intros I He Hcm. destruct cb as [f|]; [|exact I]. apply (inv_ext c s); try reflexivity; try assumption.
  - apply (i_req c s I).
  - sproj. apply Forall_app. split; [apply (i_clo c s I)|]. constructor; [now split|constructor].
Qed.

Lemma inv_issue c s cmd e cb : Inv c s -> In e (toc c) -> misc_cmd cmd ->
  Inv c (enq (add_clo s cmd e cb) (mkReq (misc_packet cmd e) cb)).
Proof.
  intros I He Hc. apply inv_enq; [now apply inv_add_clo|]. unfold misc_packet. now constructor.
Qed.

Lemma set_value_queue tc name v p : set_value tc true name v = SQueue p ->
  exists e b, In e tc /\ e_name e = name /\ e_ro e = false /\ pack (e_ty e) v = Some b /\ p = (2, id2 (e_id e) ++ b).
Proof.
  unfold set_value. destruct (find_name tc name) as [e|] eqn:Ef; [|discriminate].
  destruct (e_ro e) eqn:Ero; [discriminate|]. destruct (negb _); [discriminate|].
  destruct (pack _ _) as [b|] eqn:Ep; [|discriminate]. intros H. injection H as <-.
  apply find_name_some in Ef as [Hin Hn]. exists e, b. now repeat split.
Qed.

Lemma step_inv c s ev s1 o : wf c -> Inv c s -> step c s ev = Some (s1, o) -> Inv c s1.
Proof.
  intros Hw I. destruct ev as [name v|name|cmd name cb| | | |i b]; cbn [step].
  - (* set *)
    destruct (negb (s_updated s)); [discriminate|].
    destruct (set_value _ _ _ _) as [x|p|] eqn:Es; try discriminate; intros H; injection H as <- <-; [exact I|].
    apply set_value_queue in Es as [e [b [He [_ [_ [Hp ->]]]]]].
    apply inv_enq; [exact I|]. constructor; [exact He|]. eapply pack_length; eauto.
  - (* read *)
    destruct (find_name _ _) as [e|] eqn:Ef; intros H; injection H as <- <-; [|exact I].
    apply find_name_some in Ef as [He _]. apply inv_enq; [exact I|now constructor].
  - (* misc *)
    destruct (find_name _ _) as [e|] eqn:Ef.
    + apply find_name_some in Ef as [He _].
      destruct (cmd =? 6) eqn:E6.
      { destruct cb as [f|]; [|discriminate]. intros H. injection H as <- <-. apply (inv_issue c s 6 e (Some f)); unfold misc_cmd; auto. }
      destruct ((cmd =? 3) || (cmd =? 5)) eqn:E35.
      { destruct (negb (e_pers e)); intros H; injection H as <- <-; [exact I|]. apply (inv_issue c s cmd e cb); unfold misc_cmd; auto; lia. }
      destruct (cmd =? 4) eqn:E4; [|discriminate].
      destruct (negb (e_pers e)); [intros H; injection H as <- <-; exact I|].
      destruct cb as [f|]; [|discriminate]. intros H. injection H as <- <-. apply (inv_issue c s 4 e (Some f)); unfold misc_cmd; auto.
    + destruct (cmd =? 3).
      { destruct cb; intros H; injection H as <- <-; exact I. }
      destruct ((cmd =? 4) || (cmd =? 5)); [|discriminate]. intros H. injection H as <- <-. exact I.
  - (* updater: get *)
    destruct (s_hand s) eqn:Eh; [discriminate|]. destruct (s_queue s) as [|r q] eqn:Eq; [discriminate|].
    intros H. injection H as <- <-. apply (inv_ext c s); try reflexivity; try assumption.
    + pose proof (i_req c s I) as Hr. unfold reqs in *. rewrite Eh, Eq in Hr. sproj. exact Hr.
    + apply (i_clo c s I).
  - (* updater: send *)
    destruct (s_hand s) as [r|] eqn:Eh; [|discriminate]. destruct (s_lock s) eqn:El; [discriminate|].
    destruct (r_pk r) as [ch data] eqn:Er. intros H. injection H as <- <-.
    destruct (i_unl c s I El) as [Hp Ho].
    pose proof (i_req c s I) as Hr. unfold reqs in Hr. rewrite Eh, Ho in Hr. cbn [opt_list app] in Hr.
    inversion Hr as [|r0 q0 Hwr Hq]; subst r0 q0.
    match goal with |- Inv c (dev_recv c _ ?x) => set (s0 := x) end.
    destruct (dev_recv_ok c r s0 Hw Hwr (inv_dev c s I)) as [p [st [sd [Ed [Hrok [Hrep [Hd1 Hd2]]]]]]].
    rewrite Er in Ed. rewrite Ed. unfold s0.
    pose proof (i_cnt c s I) as Hc. rewrite El in Hc. cbn [b2n] in Hc.
    pose proof (filter_nil_all _ _ Hc) as Hno.
    constructor; sproj.
    + unfold reqs. sproj. now constructor.
    + rewrite filter_app, app_length, Hc. cbn [filter]. rewrite Hrep. reflexivity.
    + discriminate.
    + intros _. exists r. split; [reflexivity|]. unfold patof. rewrite Er. reflexivity.
    + apply Forall_app. split.
      * apply Forall_forall. intros x Hx. pose proof (i_out c s I) as Hout. rewrite Forall_forall in Hout.
        specialize (Hout x Hx). unfold out_elem_ok in *. rewrite (Hno x Hx) in *. exact Hout.
      * constructor; [|constructor]. unfold out_elem_ok. rewrite Hrep. sproj. exists r. now split.
    + exact Hd1.
    + exact Hd2.
    + apply (i_clo c s I).
  - (* deliver *)
    destruct (d_out s) as [|p rest] eqn:Eo; [discriminate|].
    pose proof (i_out c s I) as Hout. rewrite Eo in Hout. inversion Hout as [|p0 r0 Hp Hrest]; subst p0 r0.
    pose proof (i_cnt c s I) as Hc. rewrite Eo in Hc. cbn [filter] in Hc.
    set (s0 := set_dev s (d_store s) (d_stored s) rest).
    unfold out_elem_ok in Hp. destruct (is_reply p) eqn:Erp.
    + (* the awaited reply *)
      destruct Hp as [r [Ho Hrok]]. destruct (s_lock s) eqn:El; [|discriminate Hc].
      destruct (i_lck c s I El) as [r' [Ho' Hpat]]. rewrite Ho in Ho'. injection Ho' as <-.
      cbn [length b2n] in Hc. injection Hc as Hc. pose proof (filter_nil_all _ _ Hc) as Hno.
      assert (Hfin : forall s2 o2, updater_cb c p s0 = (release s2, o2) ->
                s_queue s2 = s_queue s -> s_hand s2 = s_hand s -> s_clos s2 = s_clos s -> d_store s2 = d_store s ->
                d_stored s2 = d_stored s -> d_out s2 = rest ->
                forall s3 o3, (let '(s1, o1) := updater_cb c p s0 in
                               Some (set_clos s1 (filter (fun k => negb (clo_fires (idmatch c) p k)) (s_clos s1)),
                                     ORx p :: o1 ++ clo_obs (idmatch c) p (s_clos s1))) = Some (s3, o3) -> Inv c s3).
      { intros s2 o2 Eu Q1 Q2 Q3 Q4 Q5 Q6 s3 o3. rewrite Eu. intros H. injection H as <- <-.
        constructor; sproj; rewrite ?Q1, ?Q2, ?Q3, ?Q4, ?Q5, ?Q6.
        - pose proof (i_req c s I) as Hr. unfold reqs in *. rewrite Ho in Hr.
          cbn [opt_list app] in Hr. now inversion Hr.
        - exact Hc.
        - intros _. now split.
        - discriminate.
        - apply Forall_forall. intros x Hx. rewrite Forall_forall in Hrest. specialize (Hrest x Hx).
          unfold out_elem_ok in *. rewrite (Hno x Hx) in *. exact Hrest.
        - apply (i_dev c s I).
        - apply (i_sto c s I).
        - pose proof (i_clo c s I) as Hk. rewrite Forall_forall in *. intros k Hkin. apply filter_In in Hkin as [Hkin _]. now apply Hk. }
      assert (Hp0 : s_pat s0 = s_pat s) by reflexivity.
      destruct Hrok as [e t b He Hb|e b t He Hb|e cmd t pay He Hcm Hpay].
      * destruct (updater_cb_read c s0 e b Hw He Hb) as [v [_ Eu]].
        { rewrite Hp0, Hpat. unfold patof. cbn [r_pk fst snd Z.eqb]. rewrite id2_eq. reflexivity. }
        intros H. eapply Hfin; [exact Eu| | | | | | |exact H]; reflexivity.
      * destruct (updater_cb_write c s0 e b Hw He Hb) as [v [_ Eu]].
        { rewrite Hp0, Hpat. unfold patof. cbn [r_pk fst snd Z.eqb]. now rewrite firstn2_id. }
        intros H. eapply Hfin; [exact Eu| | | | | | |exact H]; reflexivity.
      * pose proof (updater_cb_misc c s0 cmd (e_id e) pay Hcm) as Eu.
        intros H. eapply Hfin; [apply Eu| | | | | | |exact H]; try reflexivity.
        rewrite Hp0, Hpat. unfold patof. cbn [r_pk fst snd Z.eqb]. rewrite id2_eq. reflexivity.
    + (* an unsolicited notification *)
      destruct Hp as [e [b [He [Hb ->]]]].
      assert (Hnp : pat_is (s_pat s0) (1 :: id2 (e_id e)) = false).
      { change (s_pat s0) with (s_pat s). destruct (s_lock s) eqn:El.
        - destruct (i_lck c s I El) as [r [Ho Hpat]]. rewrite Hpat. apply (pat_not_notif c).
          pose proof (i_req c s I) as Hr. unfold reqs in Hr. rewrite Ho in Hr. now inversion Hr.
        - destruct (i_unl c s I El) as [-> _]. reflexivity. }
      destruct (updater_cb_notif c s0 e b Hw He Hb Hnp) as [v [_ Eu]]. rewrite Eu.
      intros H. injection H as <- <-.
      constructor; sproj.
      * apply (i_req c s I).
      * exact Hc.
      * apply (i_unl c s I).
      * apply (i_lck c s I).
      * exact Hrest.
      * apply (i_dev c s I).
      * apply (i_sto c s I).
      * pose proof (i_clo c s I) as Hk. rewrite Forall_forall in *. intros k Hkin. apply filter_In in Hkin as [Hkin _]. now apply Hk.
  - (* device-side change *)
    destruct (find_id _ _) as [e|] eqn:Ef; [|discriminate].
    destruct (Nat.eqb (length b) (ty_width (e_ty e)) && bytesb b) eqn:Eb; [|discriminate].
    intros H. injection H as <- <-. apply find_id_some in Ef as [He <-].
    apply andb_true_iff in Eb as [Eb _]. apply Nat.eqb_eq in Eb.
    constructor; sproj.
    + apply (i_req c s I).
    + rewrite filter_app, app_length. cbn [filter].
      match goal with |- context [is_reply (?a, ?d)] => change (is_reply (a, d)) with false end. cbn [length]. rewrite Nat.add_0_r. apply (i_cnt c s I).
    + apply (i_unl c s I).
    + apply (i_lck c s I).
    + apply Forall_app. split; [apply (i_out c s I)|]. constructor; [|constructor].
      unfold out_elem_ok.
      match goal with |- context [is_reply (?a, ?d)] => change (is_reply (a, d)) with false end.
      exists e, b. now repeat split.
    + intros e' He'. destruct (Z.eq_dec (e_id e) (e_id e')) as [E|E].
      * rewrite <- (wf_same_id c e e' Hw He He' E). now rewrite aget_aset_same.
      * rewrite aget_aset_other by assumption. now apply (i_dev c s I).
    + apply (i_sto c s I).
    + apply (i_clo c s I).
Qed.

Lemma run_inv c evs : wf c -> forall s s1 o, Inv c s -> run c s evs = Some (s1, o) -> Inv c s1.
Proof.
  intros Hw. induction evs as [|e evs IH]; intros s s1 o I; cbn [run].
  - intros H. injection H as <- _. exact I.
  - destruct (step c s e) as [[s2 o2]|] eqn:E1; [|discriminate].
    destruct (run c s2 evs) as [[s3 o3]|] eqn:E2; [|discriminate].
    intros H. injection H as <- _. eapply IH; [|exact E2]. eapply step_inv; eauto.
Qed.
