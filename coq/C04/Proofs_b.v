(* C04/Proofs_b.v — part 2: basic facts about configurations, packets and the trace projections; FIFO. *)
From CF Require Import Common.Bytes C04.Model C04.Proofs.
From Coq Require Import ZifyBool.
Open Scope Z_scope.
Ltac Zify.zify_post_hook ::= Z.to_euclidean_division_equations.

Definition wf (c : config) : Prop := wf_cfgb c = true.

(* ------------------------------------------------------------------ lists of integers without duplicates *)
Lemma existsb_eqb_in x l : existsb (Z.eqb x) l = true <-> In x l.
Proof.
  rewrite existsb_exists. split.
  - intros [y [Hy E]]. apply Z.eqb_eq in E. now subst.
  - intros H. exists x. split; [assumption|apply Z.eqb_refl].
Qed.

Lemma znodup_spec l : znodup l = true -> NoDup l.
Proof.
  induction l as [|x l IH]; cbn [znodup]; intros H; constructor.
  - apply andb_true_iff in H as [H _]. apply negb_true_iff in H.
    intros Hin. apply existsb_eqb_in in Hin. congruence.
  - apply IH. apply andb_true_iff in H as [_ H]. exact H.
Qed.

Lemma nodup_map_inj {A} (f : A -> Z) (l : list A) a b :
  NoDup (map f l) -> In a l -> In b l -> f a = f b -> a = b.
Proof.
  induction l as [|x l IH]; cbn [map In]; intros Hn Ha Hb E; [contradiction|].
  inversion Hn as [|y m Hnot Hn']; subst.
  destruct Ha as [->|Ha], Hb as [->|Hb].
  - reflexivity.
  - exfalso. apply Hnot. rewrite E. now apply in_map.
  - exfalso. apply Hnot. rewrite <- E. now apply in_map.
  - now apply IH.
Qed.

Lemma find_unique {A} (f : A -> Z) (l : list A) a :
  NoDup (map f l) -> In a l -> find (fun e => f e =? f a) l = Some a.
Proof.
  induction l as [|x l IH]; cbn [map In find]; intros Hn Ha; [contradiction|].
  inversion Hn as [|y m Hnot Hn']; subst.
  destruct Ha as [->|Ha].
  - now rewrite Z.eqb_refl.
  - destruct (f x =? f a) eqn:E.
    + apply Z.eqb_eq in E. exfalso. apply Hnot. rewrite E. now apply in_map.
    + now apply IH.
Qed.

(* ------------------------------------------------------------------ well-formed configurations *)
Lemma wf_ids c : wf c -> NoDup (map e_id (toc c)).
Proof.
  unfold wf, wf_cfgb. intros H. apply andb_true_iff in H as [H _]. apply andb_true_iff in H as [H _].
  now apply znodup_spec.
Qed.

Lemma wf_names c : wf c -> NoDup (map e_name (toc c)).
Proof.
  unfold wf, wf_cfgb. intros H. apply andb_true_iff in H as [H _]. apply andb_true_iff in H as [_ H].
  now apply znodup_spec.
Qed.

Lemma wf_elem c e : wf c -> In e (toc c) ->
  0 <= e_id e < 65536 /\
  length (aget (e_id e) (dev_init c)) = ty_width (e_ty e) /\ bytes (aget (e_id e) (dev_init c)) /\
  length (aget (e_id e) (dev_default c)) = ty_width (e_ty e) /\ bytes (aget (e_id e) (dev_default c)).
Proof.
  unfold wf, wf_cfgb. intros H Hin. apply andb_true_iff in H as [_ H].
  rewrite forallb_forall in H. specialize (H e Hin).
  repeat (apply andb_true_iff in H as [H ?]).
  repeat match goal with X : Nat.eqb _ _ = true |- _ => apply Nat.eqb_eq in X end.
  repeat match goal with X : bytesb _ = true |- _ => apply bytesb_spec in X end.
  repeat split; try assumption; lia.
Qed.

Lemma find_id_in c e : wf c -> In e (toc c) -> find_id (toc c) (e_id e) = Some e.
Proof. intros Hw Hin. unfold find_id. apply (find_unique e_id); [now apply wf_ids|assumption]. Qed.

Lemma find_name_some tc n e : find_name tc n = Some e -> In e tc /\ e_name e = n.
Proof. unfold find_name. intros H. apply find_some in H as [H1 H2]. apply Z.eqb_eq in H2. now split. Qed.

Lemma find_id_some tc i e : find_id tc i = Some e -> In e tc /\ e_id e = i.
Proof. unfold find_id. intros H. apply find_some in H as [H1 H2]. apply Z.eqb_eq in H2. now split. Qed.

Lemma wf_same_id c e e' : wf c -> In e (toc c) -> In e' (toc c) -> e_id e = e_id e' -> e = e'.
Proof. intros Hw. apply nodup_map_inj. now apply wf_ids. Qed.

(* ------------------------------------------------------------------ the two index bytes *)
Lemma id2_eq i : id2 i = [i mod 256; i / 256 mod 256].
Proof. reflexivity. Qed.

Lemma id2_val i : 0 <= i < 65536 -> le_val (id2 i) = i.
Proof. intros H. rewrite id2_eq. cbn [le_val]. lia. Qed.

Lemma id2_inj i j : 0 <= i < 65536 -> 0 <= j < 65536 -> id2 i = id2 j -> i = j.
Proof. intros Hi Hj E. rewrite <- (id2_val i Hi), <- (id2_val j Hj). now rewrite E. Qed.

Lemma zlist_eqb_refl l : zlist_eqb l l = true.
Proof. now apply zlist_eqb_spec. Qed.

(* ------------------------------------------------------------------ association lists *)
Lemma aget_aset_same i b m : aget i (aset i b m) = b.
Proof. unfold aget, aset. cbn [find fst snd]. now rewrite Z.eqb_refl. Qed.

Lemma find_filter_other {B} i j (m : list (Z * B)) : i <> j ->
  find (fun p => fst p =? j) (filter (fun p => negb (fst p =? i)) m) = find (fun p => fst p =? j) m.
Proof.
  intros Hij. induction m as [|[k v] m IH]; cbn [filter find fst]; [reflexivity|].
  destruct (k =? i) eqn:E1; cbn [negb find fst].
  - apply Z.eqb_eq in E1. subst k. replace (i =? j) with false by lia. exact IH.
  - destruct (k =? j); [reflexivity|exact IH].
Qed.

Lemma aget_aset_other i j b m : i <> j -> aget j (aset i b m) = aget j m.
Proof.
  intros Hij. unfold aget, aset. cbn [find fst]. replace (i =? j) with false by lia.
  now rewrite find_filter_other.
Qed.

Lemma cache_get_set_same i v ch : cache_get i (cache_set i v ch) = Some v.
Proof. unfold cache_get, cache_set. cbn [find fst snd]. now rewrite Z.eqb_refl. Qed.

Lemma cache_get_set_other i j v ch : i <> j -> cache_get j (cache_set i v ch) = cache_get j ch.
Proof.
  intros Hij. unfold cache_get, cache_set. cbn [find fst]. replace (i =? j) with false by lia.
  now rewrite find_filter_other.
Qed.

(* ------------------------------------------------------------------ trace projections *)
Definition is_io (x : obs) : bool := match x with OEnq _ | OTx _ | ORx _ => true | _ => false end.
Definition quiet (o : list obs) : Prop := Forall (fun x => is_io x = false) o.

Lemma quiet_app a b : quiet a -> quiet b -> quiet (a ++ b).
Proof. unfold quiet. intros. apply Forall_app. now split. Qed.

Lemma quiet_proj o : quiet o -> enqs o = [] /\ txs o = [] /\ rx_replies o = [].
Proof.
  induction 1 as [|x o Hx _ IH]; [now repeat split|].
  destruct IH as [I1 [I2 I3]]. unfold enqs, txs, rx_replies in *. cbn [flat_map].
  rewrite I1, I2, I3. destruct x; try discriminate Hx; now repeat split.
Qed.

Lemma enqs_app a b : enqs (a ++ b) = enqs a ++ enqs b.
Proof. unfold enqs. apply flat_map_app. Qed.
Lemma txs_app a b : txs (a ++ b) = txs a ++ txs b.
Proof. unfold txs. apply flat_map_app. Qed.
Lemma rx_replies_app a b : rx_replies (a ++ b) = rx_replies a ++ rx_replies b.
Proof. unfold rx_replies. apply flat_map_app. Qed.
Lemma misc_calls_app a b : misc_calls (a ++ b) = misc_calls a ++ misc_calls b.
Proof. unfold misc_calls. apply flat_map_app. Qed.
Lemma upd_calls_app a b : upd_calls (a ++ b) = upd_calls a ++ upd_calls b.
Proof. unfold upd_calls. apply flat_map_app. Qed.

Lemma quiet_upd (f : Z -> obs) l : (forall cb, is_io (f cb) = false) -> quiet (map f l).
Proof. intros H. unfold quiet. apply Forall_forall. intros x Hx. apply in_map_iff in Hx as [cb [<- _]]. apply H. Qed.

Lemma param_updated_quiet c ii data s s1 o : param_updated c ii data s = Some (s1, o) -> quiet o.
Proof.
  unfold param_updated. destruct (Nat.eqb _ 2); [|discriminate].
  destruct (find_id _ _) as [e|]; [|intros H; injection H as <- <-; constructor].
  destruct (unpack _ _) as [v|]; [|discriminate].
  intros H. injection H as <- <-. apply quiet_app.
  - apply quiet_upd. reflexivity.
  - destruct (_ && _); repeat constructor.
Qed.

Lemma updater_cb_quiet c p s s1 o : updater_cb c p s = (s1, o) -> quiet o.
Proof.
  unfold updater_cb. destruct p as [ch data].
  destruct ((ch =? 1) || (ch =? 2)).
  - destruct (pat_is _ _); [|intros H; injection H as <- <-; constructor].
    destruct (param_updated _ _ _ _) as [[s2 o2]|] eqn:E; intros H; injection H as <- <-; [|constructor].
    eapply param_updated_quiet; eauto.
  - destruct (ch =? 3); [|intros H; injection H as <- <-; constructor].
    destruct data as [|cmd rest]; [intros H; injection H as <- <-; constructor|].
    destruct (cmd =? 1).
    + destruct (param_updated _ _ _ _) as [[s2 o2]|] eqn:E; [|intros H; injection H as <- <-; constructor].
      destruct (pat_is _ _); intros H; injection H as <- <-; eapply param_updated_quiet; eauto.
    + destruct (pat_is _ _); intros H; injection H as <- <-; constructor.
Qed.

Lemma clo_obs_quiet im p ks : quiet (clo_obs im p ks).
Proof.
  unfold clo_obs, quiet. apply Forall_forall. intros x Hx. apply in_flat_map in Hx as [k [_ Hx]].
  destruct (clo_match im k p); [|contradiction]. destruct (clo_result k (snd p)); [|contradiction].
  destruct Hx as [<-|[]]. reflexivity.
Qed.

(* ------------------------------------------------------------------ FIFO: wire = prefix of the put order *)
Definition pend (s : state) : list pkt := map r_pk (opt_list (s_hand s) ++ s_queue s).

Lemma dev_recv_client c p s :
  s_queue (dev_recv c p s) = s_queue s /\ s_hand (dev_recv c p s) = s_hand s /\ s_lock (dev_recv c p s) = s_lock s /\
  s_pat (dev_recv c p s) = s_pat s /\ s_outst (dev_recv c p s) = s_outst s /\ s_cache (dev_recv c p s) = s_cache s /\
  s_updated (dev_recv c p s) = s_updated s /\ s_clos (dev_recv c p s) = s_clos s.
Proof.
  unfold dev_recv. destruct p as [ch data].
  repeat match goal with
         | |- context [if ?b then _ else _] => destruct b
         | |- context [match ?d with [] => _ | _ :: _ => _ end] => destruct d
         end; cbn; repeat split; reflexivity.
Qed.

Lemma updater_cb_pend c p s s1 o : updater_cb c p s = (s1, o) -> s_queue s1 = s_queue s /\ s_hand s1 = s_hand s /\ s_clos s1 = s_clos s /\
  d_store s1 = d_store s /\ d_stored s1 = d_stored s /\ d_out s1 = d_out s.
Proof.
  assert (PU : forall ii data s s2 o2, param_updated c ii data s = Some (s2, o2) ->
            s_queue s2 = s_queue s /\ s_hand s2 = s_hand s /\ s_clos s2 = s_clos s /\ d_store s2 = d_store s /\
            d_stored s2 = d_stored s /\ d_out s2 = d_out s /\ s_lock s2 = s_lock s /\ s_pat s2 = s_pat s /\ s_outst s2 = s_outst s).
  { intros ii data s0 s2 o2. unfold param_updated. destruct (Nat.eqb _ 2); [|discriminate].
    destruct (find_id _ _) as [e|]; [|intros H; injection H as <- <-; now repeat split].
    destruct (unpack _ _) as [v|]; [|discriminate]. intros H. injection H as <- <-. cbn. now repeat split. }
  unfold updater_cb. destruct p as [ch data].
  destruct ((ch =? 1) || (ch =? 2)).
  - destruct (pat_is _ _); [|intros H; injection H as <- <-; now repeat split].
    destruct (param_updated _ _ _ _) as [[s2 o2]|] eqn:E; intros H; injection H as <- <-; [|now repeat split].
    apply PU in E. cbn. intuition.
  - destruct (ch =? 3); [|intros H; injection H as <- <-; now repeat split].
    destruct data as [|cmd rest]; [intros H; injection H as <- <-; now repeat split|].
    destruct (cmd =? 1).
    + destruct (param_updated _ _ _ _) as [[s2 o2]|] eqn:E; [|intros H; injection H as <- <-; now repeat split].
      apply PU in E. destruct (pat_is _ _); intros H; injection H as <- <-; cbn; intuition.
    + destruct (pat_is _ _); intros H; injection H as <- <-; cbn; now repeat split.
Qed.

Lemma add_clo_pend s cmd e cb : s_queue (add_clo s cmd e cb) = s_queue s /\ s_hand (add_clo s cmd e cb) = s_hand s.
Proof. destruct cb; now split. Qed.

Local Opaque dev_recv updater_cb clo_obs.

Lemma step_fifo c s e s1 o : step c s e = Some (s1, o) -> txs o ++ pend s1 = pend s ++ enqs o.
Proof.
  unfold pend. destruct e as [name v|name|cmd name cb| | | |i b]; cbn [step].
  - destruct (negb (s_updated s)); [discriminate|]. destruct (set_value _ _ _ _); try discriminate.
    + intros H. injection H as <- <-. cbn. now rewrite app_nil_r.
    + intros H. injection H as <- <-. cbn. rewrite map_app, map_app, map_app. cbn. now rewrite app_assoc.
  - destruct (find_name _ _); intros H; injection H as <- <-; cbn.
    + rewrite map_app, map_app, map_app. cbn. now rewrite app_assoc.
    + now rewrite app_nil_r.
  - destruct cb as [f|]; destruct (find_name _ _) as [el|];
      repeat match goal with
             | |- context [if ?b then _ else _] => destruct b
             end; try discriminate; intros H; injection H as <- <-; cbn; rewrite ?map_app; cbn;
      rewrite ?app_assoc, ?app_nil_r; reflexivity.
  - destruct (s_hand s) eqn:Eh; [discriminate|]. destruct (s_queue s) eqn:Eq; [discriminate|].
    intros H. injection H as <- <-. cbn. now rewrite app_nil_r.
  - destruct (s_hand s) as [r|] eqn:Eh; [|discriminate]. destruct (s_lock s); [discriminate|].
    destruct (r_pk r) as [ch data] eqn:Er. intros H. injection H as <- <-.
    match goal with |- context [dev_recv c ?p ?s0] => destruct (dev_recv_client c p s0) as [Q [Hh _]] end.
    rewrite Q, Hh. cbn. rewrite Er. now rewrite app_nil_r.
  - destruct (d_out s) as [|p rest]; [discriminate|].
    destruct (updater_cb _ _ _) as [s2 o2] eqn:E. intros H. injection H as <- <-.
    pose proof (updater_cb_quiet _ _ _ _ _ E) as Q1. pose proof (clo_obs_quiet (idmatch c) p (s_clos s2)) as Q2.
    pose proof (quiet_proj _ (quiet_app _ _ Q1 Q2)) as [E1 [E2 _]].
    apply updater_cb_pend in E as [Eq [Eh _]]. cbn in Eq, Eh.
    unfold txs, enqs in *. cbn [flat_map]. rewrite E1, E2. cbn. rewrite Eq, Eh. now rewrite app_nil_r.
  - destruct (find_id _ _); [|discriminate]. destruct (_ && _); [|discriminate].
    intros H. injection H as <- <-. cbn. now rewrite app_nil_r.
Qed.

Lemma run_fifo c evs : forall s s1 o, run c s evs = Some (s1, o) -> txs o ++ pend s1 = pend s ++ enqs o.
Proof.
  induction evs as [|e evs IH]; intros s s1 o; cbn [run].
  - intros H. injection H as <- <-. cbn. now rewrite app_nil_r.
  - destruct (step c s e) as [[s2 o2]|] eqn:E1; [|discriminate].
    destruct (run c s2 evs) as [[s3 o3]|] eqn:E2; [|discriminate].
    intros H. injection H as <- <-. apply step_fifo in E1. apply IH in E2.
    rewrite txs_app, enqs_app, <- app_assoc, E2, app_assoc, E1, app_assoc. reflexivity.
Qed.

Lemma fifo_from_init c evs s o : run c (init c) evs = Some (s, o) -> enqs o = txs o ++ pend s.
Proof. intros H. apply run_fifo in H. cbn in H. now symmetry. Qed.
