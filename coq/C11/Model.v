(* C11/Model.v — executable model of cflib/crazyflie/toccache.py (TocCache.__init__/fetch/insert/_encoder/
   _decoder) over an abstract file system.  Hand-written; tied to the code by differential evaluation of
   operation sequences on the real TocCache with temporary directories (harness/props/c11.py).

   File contents are an abstract type `C` with a parser `par : C -> option jdoc`: the theorems instantiate
   it with byte strings and state what they need from json.dumps/json.load as hypotheses (validated
   exhaustively on CPython for every generated file); the tie instantiates it with "document + cut flag". *)
From CF Require Export C03.Model C03.ExtModel.
Open Scope Z_scope.

(* ------------------------------------------------------------------ JSON documents of depth 3 *)
Inductive scalar := SNum (z : Z) | SStr (s : list Z) | SBool (b : bool).
Definition jfields := list (list Z * scalar).
Definition jgroup := list (list Z * jfields).
Definition jdoc := list (list Z * jgroup).

Definition k_class := codes "__class__".
Definition k_ident := codes "ident".
Definition k_group := codes "group".
Definition k_name := codes "name".
Definition k_ctype := codes "ctype".
Definition k_pytype := codes "pytype".
Definition k_access := codes "access".
Definition k_extended := codes "extended".

Definition cls_name (c : cls) : list Z :=
  match c with LogCls => codes "LogTocElement" | ParamCls => codes "ParamTocElement" end.

(* TocCache._encoder *)
Definition encoder (e : elem) : jfields :=
  [ (k_class, SStr (cls_name (e_cls e))); (k_ident, SNum (e_ident e)); (k_group, SStr (e_group e));
    (k_name, SStr (e_name e)); (k_ctype, SStr (codes (e_ctype e))); (k_pytype, SStr (codes (e_pytype e)));
    (k_access, SNum (e_access e)) ]
  ++ match e_cls e with ParamCls => [(k_extended, SBool (e_extended e))] | LogCls => [] end.

Definition jdoc_of (t : toc) : jdoc :=
  map (fun gd => (fst gd, map (fun ne => (fst ne, encoder (snd ne))) (snd gd))) t.

Fixpoint string_of_codes (l : list Z) : string :=
  match l with
  | [] => EmptyString
  | z :: l' => String (ascii_of_N (Z.to_N z)) (string_of_codes l')
  end.

(* result of TocCache.fetch *)
Inductive lres :=
| Loaded (t : toc)      (* a table of elements *)
| LoadedOther           (* JSON was accepted but the value is not a table of elements as _encoder writes them
                           (outside the model; the theorems show it cannot happen for files written by insert) *)
| Miss.                 (* None: no file, or any exception *)

(* TocCache._decoder on a leaf object that has '__class__'.  None = an exception (KeyError ...). *)
Definition decode_elem (f : jfields) : option (option elem) :=
  match dget k_class f, dget k_ident f, dget k_group f, dget k_name f, dget k_ctype f, dget k_pytype f,
        dget k_access f with
  | Some kc, Some ki, Some kg, Some kn, Some kt, Some kp, Some ka =>
      match kc with
      | SStr cn =>
          let c := if zlist_eqb cn (cls_name LogCls) then Some LogCls
                   else if zlist_eqb cn (cls_name ParamCls) then Some ParamCls else None in
          match c with
          | None => None     (* eval() of any other string: NameError (arbitrary expressions are outside the model) *)
          | Some c =>
              match c, dget k_extended f with
              | ParamCls, None => None                      (* KeyError 'extended' *)
              | _, kx =>
                  match ki, kg, kn, kt, kp, ka with
                  | SNum i, SStr g, SStr n, SStr ct, SStr pt, SNum a =>
                      match c, kx with
                      | LogCls, _ => Some (Some (mkElem LogCls i g n (string_of_codes ct) (string_of_codes pt) a false false))
                      | ParamCls, Some (SBool x) =>
                          Some (Some (mkElem ParamCls i g n (string_of_codes ct) (string_of_codes pt) a x false))
                      | ParamCls, _ => Some None
                      end
                  | _, _, _, _, _, _ => Some None           (* loads, but with field types _encoder never writes *)
                  end
              end
          end
      | _ => None            (* eval(non-string): TypeError *)
      end
  | _, _, _, _, _, _, _ => None                             (* KeyError *)
  end.

Definition has_class {V} (d : list (list Z * V)) : bool := existsb (zlist_eqb k_class) (map fst d).

(* json.load(..., object_hook=_decoder): the hook runs on every object, innermost first; a dictionary
   whose keys include '__class__' but which is not a leaf makes eval() raise TypeError. *)
Fixpoint load_group (g : jgroup) : option (option (list (list Z * elem))) :=
  match g with
  | [] => Some (Some [])
  | (n, f) :: g' =>
      let r := if has_class f then decode_elem f else Some None in
      match r, load_group g' with
      | None, _ | _, None => None
      | Some (Some e), Some (Some l) => Some (Some ((n, e) :: l))
      | _, _ => Some None
      end
  end.

Fixpoint load_doc (d : jdoc) : option (option toc) :=
  match d with
  | [] => Some (Some [])
  | (g, grp) :: d' =>
      let r := if has_class grp then None else load_group grp in
      match r, load_doc d' with
      | None, _ | _, None => None
      | Some (Some l), Some (Some t) => Some (Some ((g, l) :: t))
      | _, _ => Some None
      end
  end.

Definition load (d : jdoc) : lres :=
  if has_class d then Miss else
  match load_doc d with
  | None => Miss
  | Some None => LoadedOther
  | Some (Some t) => Loaded t
  end.

(* what a stored table looks like after a round trip: the persistent marker is not stored *)
Definition reload_elem (e : elem) : elem :=
  mkElem (e_cls e) (e_ident e) (e_group e) (e_name e) (e_ctype e) (e_pytype e) (e_access e)
         (match e_cls e with ParamCls => e_extended e | LogCls => false end) false.
Definition reload (t : toc) : toc := map_toc reload_elem t.

(* ------------------------------------------------------------------ file names *)

Definition hexdigit (d : Z) : Z := if d <? 10 then 48 + d else 55 + d.
Fixpoint nibbles (n : nat) (c : Z) : list Z :=
  match n with O => [] | S k => c mod 16 :: nibbles k (c / 16) end.
(* '%08X' % crc   (0 <= crc < 2^32) *)
Definition hex8 (c : Z) : list Z := map hexdigit (rev (nibbles 8 c)).
Definition dot_json : list Z := codes ".json".
Definition cache_name (c : Z) : list Z := hex8 c ++ dot_json.

Definition ends_with (p s : list Z) : bool :=
  (List.length p <=? List.length s)%nat && zlist_eqb p (skipn (List.length s - List.length p) s).

(* glob('*.json'): ends with .json, not hidden *)
Definition glob_json (name : list Z) : bool :=
  ends_with dot_json name && negb (match name with 46 :: _ => true | _ => false end).

(* ------------------------------------------------------------------ TocCache over a file system *)

Inductive dir := RO | RW.

Section Cache.
  Variable C : Type.                       (* file contents *)
  Variable par : C -> option jdoc.         (* json.load *)

  (* directory listings in glob order; a directory that is not configured is empty *)
  Record fsys := mkFs { ro_files : list (list Z * C); rw_files : list (list Z * C) }.

  Record cstate := mkC { c_files : list (dir * list Z); c_rw : bool }.

  Definition files (d : dir) (fs : fsys) := match d with RO => ro_files fs | RW => rw_files fs end.

  (* TocCache(ro_cache, rw_cache) *)
  Definition cinit (has_ro has_rw : bool) (fs : fsys) : cstate :=
    mkC ((if has_ro then map (fun nc => (RO, fst nc)) (filter (fun nc => glob_json (fst nc)) (ro_files fs)) else [])
         ++ (if has_rw then map (fun nc => (RW, fst nc)) (filter (fun nc => glob_json (fst nc)) (rw_files fs)) else []))
        has_rw.

  Fixpoint last_match (p : list Z) (l : list (dir * list Z)) (acc : option (dir * list Z)) : option (dir * list Z) :=
    match l with
    | [] => acc
    | x :: l' => last_match p l' (if ends_with p (snd x) then Some x else acc)
    end.

  (* TocCache.fetch *)
  Definition cfetch (st : cstate) (fs : fsys) (crc : Z) : lres :=
    match last_match (cache_name crc) (c_files st) None with
    | None => Miss
    | Some (d, nm) =>
        match dget nm (files d fs) with
        | None => Miss                                   (* open() fails *)
        | Some content =>
            match par content with
            | None => Miss
            | Some doc => load doc
            end
        end
    end.

  (* TocCache.insert where the write ends with `content` in the file (complete, or cut short by a crash) *)
  Definition cwrite (fs : fsys) (crc : Z) (content : C) : fsys :=
    mkFs (ro_files fs) (dset (cache_name crc) content (rw_files fs)).

  Definition cinsert (st : cstate) (fs : fsys) (crc : Z) (content : C) : cstate * fsys :=
    if c_rw st then (mkC (c_files st ++ [(RW, cache_name crc)]) true, cwrite fs crc content)
    else (st, fs).
End Cache.

Arguments mkFs {C}. Arguments ro_files {C}. Arguments rw_files {C}. Arguments files {C}.
Arguments cinit {C}. Arguments cfetch {C}. Arguments cwrite {C}. Arguments cinsert {C}.

(* ------------------------------------------------------------------ encodings for the tie *)
Definition enc_lres (r : lres) : list Z :=
  match r with Loaded t => 1 :: enc_toc t | LoadedOther => [2] | Miss => [0] end.
