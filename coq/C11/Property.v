(* C11/Property.v — property C11 (the table cache never yields a wrong table, even after a crash).
   Theorems only.  Model: C11/Model.v (TocCache over an abstract file system, _encoder/_decoder, file
   names) on top of C03/Model.v.  JSON is a hypothesis `json_ok ser par`:
     par (ser (jdoc_of t)) = Some (jdoc_of t)             for tables t with distinct keys, and
     par (firstn k (ser (jdoc_of t))) = None              for every k < length (every proper prefix),
   validated on CPython by the harness for every generated file at every byte offset. *)
From CF Require Import Common.Bytes C03.Model C03.ExtModel C03.Fetch C03.Lookup C11.Model C11.Proofs C11.Conc C11.Observers C11.Empty C11.Decoder C11.ReadOnly.
Open Scope Z_scope.

(* Crash safety, wrong-table safety and read-only directory, for ALL histories: starting from cache
   directories holding only files written by TocCache (complete or cut short), after any sequence of
   completed inserts, inserts cut at ANY byte offset k by a crash, and restarts with any combination of
   read-only/read-write directories: the read-only directory is unchanged; a fetch for a CRC either
   misses, or returns exactly (entry for entry: index, group, name, types, access, extended; persistent
   reset) the table t whose complete serialisation is the content of the file named by THAT CRC;
   it never returns anything else. *)
Theorem C11_history_safe : forall ser par, json_ok ser par ->
  forall ops st fs crc,
  fs_ok ser fs -> st_ok st -> Forall op_ok ops -> 0 <= crc < 2 ^ 32 ->
  let '(st', fs') := crun ser (st, fs) ops in
  ro_files fs' = ro_files fs /\
  match cfetch par st' fs' crc with
  | Loaded t' => exists d t, In (cache_name crc, ser (jdoc_of t)) (files d fs') /\ wf t /\ t' = reload t
  | LoadedOther => False
  | Miss => True
  end.
Proof. exact history_safe. Qed.
Print Assumptions C11_history_safe.

(* the hypotheses of the previous theorem are satisfiable: empty directories *)
Theorem C11_initial_state_ok : forall ser a b, fs_ok ser empty_fs /\ st_ok (cinit a b empty_fs).
Proof. intros ser a b. split; [exact (fs_ok_empty ser)|exact (st_ok_empty a b)]. Qed.
Print Assumptions C11_initial_state_ok.

(* A hit happens only for the file named by the announced checksum: the file consulted is <CRC as 8 hex
   digits>.json, and two checksums have the same file name only if they are equal. *)
Theorem C11_hit_only_on_equal_crc : forall st crc d nm,
  st_ok st -> 0 <= crc < 2 ^ 32 ->
  last_match (cache_name crc) (c_files st) None = Some (d, nm) -> nm = cache_name crc.
Proof. exact hit_name. Qed.
Print Assumptions C11_hit_only_on_equal_crc.

Theorem C11_names_injective : forall a b,
  0 <= a < 2 ^ 32 -> 0 <= b < 2 ^ 32 -> ends_with (cache_name a) (cache_name b) = true -> a = b.
Proof. exact ends_with_names. Qed.
Print Assumptions C11_names_injective.

(* The cache works: what was inserted is what the next fetch returns (unless a group or a variable is
   literally called "__class__", in which case the file is never readable: a miss). *)
Theorem C11_loaded_equals_stored : forall ser par, json_ok ser par ->
  forall st fs crc t, c_rw st = true -> wf t -> class_free t = true ->
  let '(st', fs') := cinsert st fs crc (ser (jdoc_of t)) in
  cfetch par st' fs' crc = Loaded (reload t).
Proof. exact insert_then_fetch'. Qed.
Print Assumptions C11_loaded_equals_stored.

(* the element decoder inverts the element encoder, field by field, for both classes *)
Theorem C11_decode_encode : forall e, decode_elem (encoder e) = Some (Some (reload_elem e)).
Proof. exact decode_encode. Qed.
Print Assumptions C11_decode_encode.

(* a file cut at any byte offset is a miss *)
Theorem C11_truncation_is_miss : forall ser par, json_ok ser par ->
  forall st fs crc d nm t k,
  last_match (cache_name crc) (c_files st) None = Some (d, nm) ->
  dget nm (files d fs) = Some (firstn k (ser (jdoc_of t))) -> wf t ->
  (k < List.length (ser (jdoc_of t)))%nat ->
  cfetch par st fs crc = Miss.
Proof. exact truncation_is_miss'. Qed.
Print Assumptions C11_truncation_is_miss.

(* no file for that checksum is a miss *)
Theorem C11_missing_is_miss : forall par st (fs : fsys (list Z)) crc,
  (forall d nm, In (d, nm) (c_files st) -> ends_with (cache_name crc) nm = false) ->
  cfetch par st fs crc = Miss.
Proof. exact missing_is_miss. Qed.
Print Assumptions C11_missing_is_miss.

(* the read-only directory is never written, and without a read-write directory nothing is written *)
Theorem C11_ro_never_written : forall st (fs : fsys (list Z)) crc ct,
  ro_files (snd (cinsert st fs crc ct)) = ro_files fs /\
  (c_rw st = false -> cinsert st fs crc ct = (st, fs)).
Proof. intros st fs crc ct. split; [exact (ro_never_written st fs crc ct)|exact (no_rw_no_write st fs crc ct)]. Qed.
Print Assumptions C11_ro_never_written.

(* Checksum collision between the log and the parameter table (finding F11, behaviour after the fix):
   a cached table containing an element of the other class is not used ... *)
Theorem C11_other_class_is_miss : forall c t e,
  In e (values t) -> e_cls e <> c -> cache_hit c (Some t) = None.
Proof. exact other_class_is_miss. Qed.
Print Assumptions C11_other_class_is_miss.

(* ... while the table downloaded for device entries `items`, stored and loaded again, is used and is
   exactly the downloaded table *)
Theorem C11_cached_equals_downloaded : forall c items,
  items <> [] -> cache_hit c (Some (reload (spec_toc c items))) = Some (spec_toc c items).
Proof. exact valid_reload_is_hit. Qed.
Print Assumptions C11_cached_equals_downloaded.

(* Composition with the download (C03): after any history, with that cache behind the fetcher, for every
   device table and every admissible reply schedule: no exception, at most one completion, and on
   completion the table is either the device's table, downloaded and handed to the cache under the
   announced CRC (miss: no file, cut file, unparsable file, table of the other class, empty table), or the
   table stored in the complete file named by the announced CRC, all of whose elements are of the
   fetcher's class.  Never a partial or mixed table, never a failed fetch. *)
Theorem C11_miss_falls_back_to_download : forall ser par, json_ok ser par ->
  forall ops st0 fs0 c ver items raw crc extra evs,
  fs_ok ser fs0 -> st_ok st0 -> Forall op_ok ops ->
  raw_items c items = Some raw -> Forall item_ok items -> 0 <= crc < 2 ^ 32 ->
  Z.of_nat (List.length items) < (if 4 <=? ver then 65536 else 256) -> admissible evs ->
  let '(st, fs) := crun ser (st0, fs0) ops in
  let '(s, o) := fetch c (cache_fun par st fs) ver (mkDev raw crc extra) evs in
  raised o = [] /\ (finished_count o <= 1)%nat /\
  (finished_count o = 1%nat ->
     (f_toc s = spec_toc c items /\ inserts o = [(crc, spec_toc c items)]) \/
     (exists d t, In (cache_name crc, ser (jdoc_of t)) (files d fs) /\ wf t /\ f_toc s = reload t /\
                  (forall e, In e (values (reload t)) -> e_cls e = c) /\ inserts o = [])).
Proof. exact miss_falls_back. Qed.
Print Assumptions C11_miss_falls_back_to_download.

(* Concurrent writers (swarm: several TocCache objects share one read-write directory and store from parallel
   threads).  Model C11/Conc.v: a file system with inodes; an insert is open('<rw>/<CRC>.json','w') (create,
   or truncate the existing inode), one write of the whole text at offset 0, close; ANY interleaving of ANY
   number of inserts (different or equal checksums, different or equal tables).  JSON hypotheses: a complete
   text parses back, the empty file does not parse, nothing (ending in a closing brace) may follow a complete
   text, a text ends with the closing brace.  Then every file of the directory that parses completely is named
   by the checksum of one of the inserts and holds exactly the text of a table inserted under THAT checksum:
   a table never ends up under a checksum it was not stored under. *)
Theorem C11_concurrent_writers_isolated : forall (ser : jdoc -> list Z) (par : list Z -> option jdoc),
  (forall t, wf t -> par (ser (jdoc_of t)) = Some (jdoc_of t)) ->
  par [] = None ->
  (forall t rest, wf t -> rest <> [] -> last rest 0 = 125 -> par (ser (jdoc_of t) ++ rest) = None) ->
  (forall t, wf t -> ser (jdoc_of t) <> [] /\ last (ser (jdoc_of t)) 0 = 125) ->
  forall jobs : list (Z * toc), (forall c t, In (c, t) jobs -> wf t) ->
  forall sched : list nat,
  let '(_, fs) := wrun (map (fun ct => mkW (fst ct) (ser (jdoc_of (snd ct)))) jobs) sched in
  forall nm i ct d,
    In (nm, i) (c_dir fs) -> nth_error (c_inodes fs) i = Some (nm, ct) -> par ct = Some d ->
    exists c t, In (c, t) jobs /\ nm = cache_name c /\ d = jdoc_of t /\ ct = ser (jdoc_of t).
Proof. exact concurrent_isolated. Qed.
Print Assumptions C11_concurrent_writers_isolated.

(* The holder of the table and its observers (model C11/Observers.v, tied to the real Toc object).  A cache hit
   assigns the loaded table straight to the holder (`self.toc.toc = cache_data`).  Lookups are pure observers:
   for EVERY history before the hit (adds, clears, earlier installs, lookups of any kind at any point) the holder
   afterwards is the installed table and every lookup answers as a function of that table only. *)
Theorem C11_lookups_are_pure_observers : forall t0 pre t post,
  forallb is_lookup post = true ->
  hrun t0 (pre ++ OInstall t :: post) = (t, snd (hrun t0 pre) ++ map (answer t) post).
Proof. exact after_install. Qed.
Print Assumptions C11_lookups_are_pure_observers.

(* ... so after a hit on the table stored for device entries `items`, by id, by (group, name) and by complete
   name all return the device's entry, for every entry, whatever was looked up before *)
Theorem C11_hit_lookups_agree : forall c items t0 pre i it,
  NoDup (map key items) -> nth_error items i = Some it -> ~ In 46 (di_group it) -> ~ In 46 (di_name it) ->
  snd (hrun t0 (pre ++ [OInstall (reload (spec_toc c items)); OById (Z.of_nat i);
                        OByName (di_group it) (di_name it); OByCN (di_group it ++ [46] ++ di_name it)])) =
  snd (hrun t0 pre) ++ [Some (spec_elem c (Z.of_nat i) it); Some (spec_elem c (Z.of_nat i) it);
                        Some (spec_elem c (Z.of_nat i) it)].
Proof. exact hit_lookups_agree. Qed.
Print Assumptions C11_hit_lookups_agree.

(* A memoising by-id observer is equivalent to the pure holder provided the cache-hit path invalidates the
   memo like add_element and clear do ... *)
Theorem C11_memo_invalidated_on_hit_ok : forall ops s,
  memo_ok s -> fst (fst (mrun true s ops)) = fst (hrun (fst s) ops) /\ snd (mrun true s ops) = snd (hrun (fst s) ops).
Proof. exact memo_invalidated_ok. Qed.
Print Assumptions C11_memo_invalidated_on_hit_ok.

(* ... and refuted when it does not: one lookup on the still empty holder, then the hit: the table is right but
   invisible by id and by complete name *)
Theorem C11_memo_not_invalidated_refuted :
  snd (hrun [] witness_ops) = [None; Some witness_elem; Some witness_elem; Some witness_elem] /\
  snd (mrun false ([], None) witness_ops) = [None; None; Some witness_elem; None].
Proof. exact memo_not_invalidated_refuted. Qed.
Print Assumptions C11_memo_not_invalidated_refuted.

(* The empty table under checksum collisions (model C11/Empty.v).  `{}` has no element and so no class: the class
   check is vacuous on it.  HEAD's rule — non-empty AND all elements of the expected class — gives, for EVERY
   collision (table of class c' downloaded from ANY device entries, stored, loaded by a fetcher of class c): a hit
   exactly when c = c' and the table is not empty, and then exactly that table; `{}` is a miss for both classes. *)
Theorem C11_collision_rule : forall c c' items,
  cache_hit c (Some (reload (spec_toc c' items))) =
  if cls_eqb c c' && match items with [] => false | _ => true end then Some (spec_toc c' items) else None.
Proof. exact collision_rule. Qed.
Print Assumptions C11_collision_rule.

Theorem C11_empty_cached_is_miss : forall c, cache_hit c (Some []) = None.
Proof. exact empty_cached_is_miss. Qed.
Print Assumptions C11_empty_cached_is_miss.

(* that miss is free when the device table really is empty: the "download" is the INFO request alone *)
Theorem C11_empty_table_download_is_one_request : forall c cache ver crc extra evs,
  0 <= crc < 2 ^ 32 -> admissible evs ->
  let '(s, o) := fetch c cache ver (mkDev [] crc extra) evs in
  finished_count o = 1%nat -> cache_hit c (cache crc) = None ->
  f_toc s = [] /\ sends o = [info_req (4 <=? ver)] /\ inserts o = [(crc, [])].
Proof. exact empty_table_download_is_one_request. Qed.
Print Assumptions C11_empty_table_download_is_one_request.

(* refutation of the rule that accepts the empty table: the same `{}` passes for both classes, and for any device
   whose table of that class is not empty the accepted table is wrong *)
Theorem C11_accept_empty_refuted :
  (cache_hit_accept_empty LogCls (Some []) = Some [] /\ cache_hit_accept_empty ParamCls (Some []) = Some []) /\
  forall c items, items <> [] -> exists t, cache_hit_accept_empty c (Some []) = Some t /\ t <> spec_toc c items.
Proof. split; [exact empty_passes_for_both_classes|exact accept_empty_refuted]. Qed.
Print Assumptions C11_accept_empty_refuted.

(* fetch is total: in EVERY state of the TocCache object and of the file system — including a file that the object
   lists (found at construction or stored by its own insert) but that is gone (deleted, replaced by a directory,
   unreadable) — fetch returns a table or a miss, never an exception; a listed-but-gone file is a miss *)
Theorem C11_fetch_total : forall (par : list Z -> option jdoc) st fs crc,
  cfetch_x true par st fs crc = FOk (cfetch par st fs crc).
Proof. exact (@fetch_total (list Z)). Qed.
Print Assumptions C11_fetch_total.

Theorem C11_listed_but_gone_is_miss : forall (par : list Z -> option jdoc) st (fs : fsys (list Z)) crc d nm,
  last_match (cache_name crc) (c_files st) None = Some (d, nm) -> dget nm (files d fs) = None ->
  cfetch par st fs crc = Miss.
Proof. exact (@listed_but_gone_is_miss (list Z)). Qed.
Print Assumptions C11_listed_but_gone_is_miss.

(* refutation of a stat placed before the guard *)
Theorem C11_stat_outside_guard_refuted :
  let st := mkC [(RW, cache_name 7)] true in
  let fs := @mkFs (list Z) [] [] in
  cfetch_x false (fun _ => None) st fs 7 = FRaise /\ cfetch_x true (fun _ => None) st fs 7 = FOk Miss.
Proof. exact stat_outside_guard_refuted. Qed.
Print Assumptions C11_stat_outside_guard_refuted.

(* The decoder as a partial function (model C11/Decoder.v, following HEAD: every field is read with obj[key]).
   It succeeds only on objects carrying the class tag and EVERY required key of that class — ident, group, name,
   ctype, pytype, access, and extended for parameters. *)
Theorem C11_decoder_needs_all_keys : forall f r,
  decode_elem f = Some r ->
  exists c, class_of f = Some c /\ forall k, In k (required_keys c) -> dget k f <> None.
Proof. exact decode_needs_all_keys. Qed.
Print Assumptions C11_decoder_needs_all_keys.

(* hence a cache file in which ANY element object lacks ANY required key (e.g. a parameter file of an older
   version without 'extended') is a miss of fetch — whatever else the file holds, wherever the element sits —
   and by C11_miss_falls_back_to_download the table is downloaded *)
Theorem C11_missing_key_is_miss : forall (par : list Z -> option jdoc) st (fs : fsys (list Z)) crc dd nm ct d g grp n f c k,
  last_match (cache_name crc) (c_files st) None = Some (dd, nm) -> dget nm (files dd fs) = Some ct -> par ct = Some d ->
  In (g, grp) d -> In (n, f) grp -> has_class f = true ->
  class_of f = Some c -> In k (required_keys c) -> dget k f = None ->
  cfetch par st fs crc = Miss.
Proof. exact (@fetch_missing_key_is_miss (list Z)). Qed.
Print Assumptions C11_missing_key_is_miss.

(* refutation of reading 'extended' with a default: the old file is then a hit whose element says extended = false
   although the device's entry is extended *)
Theorem C11_lenient_extended_refuted :
  let dev_elem := mkElem ParamCls 0 [112] [97] "uint8_t" "<B" 0 true false in
  decode_elem old_param_object = None /\
  decode_elem_lenient old_param_object = Some (Some (mkElem ParamCls 0 [112] [97] "uint8_t" "<B" 0 false false)) /\
  mkElem ParamCls 0 [112] [97] "uint8_t" "<B" 0 false false <> reload_elem dev_elem.
Proof. exact lenient_extended_refuted. Qed.
Print Assumptions C11_lenient_extended_refuted.

(* "The read-only cache directory is never written" over whole histories (model C11/ReadOnly.v): the file system is
   the pair of maps (ro, rw); for EVERY history of fetches (of any checksum, usable or not: missing, cut short,
   unparsable, missing fields), completed inserts, inserts cut short, restarts with any directory combination, on any
   number of objects: the ro map afterwards is the ro map before.  (fetch writes nothing; insert writes the rw map.) *)
Theorem C11_ro_unchanged_any_history : forall (par : list Z -> option jdoc) ops st (fs : fsys (list Z)),
  ro_files (snd (rrun par (st, fs) ops)) = ro_files fs.
Proof. exact (@ro_unchanged_any_history (list Z)). Qed.
Print Assumptions C11_ro_unchanged_any_history.

(* refutation of "discard a cache file that cannot be used": a truncated file in the read-only directory is deleted *)
Theorem C11_discard_on_unparsable_refuted :
  let fs := @mkFs (list Z) [(cache_name 7, [123])] [] in
  let st := cinit true true fs in
  let par := fun (_ : list Z) => @None jdoc in
  ro_files (snd (fetch_discard par st fs 7)) = [] /\
  ro_files (snd (rrun par (st, fs) [RFetch 7])) = [(cache_name 7, [123])] /\
  cfetch par st fs 7 = Miss.
Proof. exact discard_on_unparsable_refuted. Qed.
Print Assumptions C11_discard_on_unparsable_refuted.

(* The checksum is an UNSIGNED 32-bit number in the file name (C11_names_injective: the name is injective on
   [0, 2^32), a table stored under S1 is found for S2 only if S1 = S2).  Instance for the negated pair
   (S, 2^32 - S) with S = 0xA5A5EEEF: no hit in either direction ... *)
Theorem C11_negated_pair_unsigned_is_miss :
  ends_with (cache_name 1515852049) (cache_name 2779115247) = false /\
  ends_with (cache_name 2779115247) (cache_name 1515852049) = false.
Proof. exact negated_pair_unsigned_is_miss. Qed.
Print Assumptions C11_negated_pair_unsigned_is_miss.

(* ... and the signed reading refuted: '-5A5A1111.json' stored for S is found by the suffix match for 2^32 - S *)
Theorem C11_signed_checksum_refuted :
  2 ^ 32 - 2779115247 = 1515852049 /\
  ends_with (cache_name 1515852049) (signed_name 2779115247) = true /\
  signed_name 2779115247 <> cache_name 2779115247.
Proof. exact signed_checksum_refuted. Qed.
Print Assumptions C11_signed_checksum_refuted.
