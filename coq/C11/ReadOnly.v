(* C11/ReadOnly.v — "The read-only cache directory is never written."
   The file system is a pair of maps (ro, rw).  Steps of a TocCache user over any number of sessions and objects:
   fetch (HEAD: reads, writes nothing, keeps the object's file list), insert (writes the rw map only), a crash during
   insert (a prefix in the rw map), a restart with any directory combination.  Theorem: the ro map after ANY
   history is the ro map before.  A fetch that DISCARDS an unusable file (drops it from the list and removes it from
   wherever it lives) is modelled and refuted: a truncated file of the read-only directory is deleted. *)
From CF Require Import Common.Bytes C03.Model C03.ExtModel C03.Lookup C11.Model C11.Proofs.
Open Scope Z_scope.

Inductive rop {C : Type} :=
| RInsert (crc : Z) (content : C)            (* insert completes (content = the text written) *)
| RCrash (crc : Z) (content : C)             (* insert cut short: content = what reached the file *)
| RReopen (has_ro has_rw : bool)
| RFetch (crc : Z).

Definition rstep {C} (par : C -> option jdoc) (sf : cstate * fsys C) (op : @rop C) : cstate * fsys C :=
  let '(st, fs) := sf in
  match op with
  | RInsert crc ct => cinsert st fs crc ct
  | RCrash crc ct => if c_rw st then (st, cwrite fs crc ct) else (st, fs)
  | RReopen a b => (cinit a b fs, fs)
  | RFetch crc => (st, fs)                     (* the result (cfetch par st fs crc) goes to the caller; no state changes *)
  end.

Definition rrun {C} (par : C -> option jdoc) (sf : cstate * fsys C) (ops : list (@rop C)) : cstate * fsys C :=
  fold_left (rstep par) ops sf.

Lemma ro_unchanged_step {C} (par : C -> option jdoc) st (fs : fsys C) op :
  ro_files (snd (rstep par (st, fs) op)) = ro_files fs.
Proof.
  destruct op as [crc ct|crc ct|a b|crc]; cbn [rstep].
  - unfold cinsert. destruct (c_rw st); reflexivity.
  - destruct (c_rw st); reflexivity.
  - reflexivity.
  - reflexivity.
Qed.

Lemma ro_unchanged_any_history {C} (par : C -> option jdoc) : forall ops st (fs : fsys C),
  ro_files (snd (rrun par (st, fs) ops)) = ro_files fs.
Proof.
  induction ops as [|op ops IH]; intros st fs; [reflexivity|].
  unfold rrun. cbn [fold_left]. fold (rrun par (rstep par (st, fs) op) ops).
  pose proof (ro_unchanged_step par st fs op) as H.
  destruct (rstep par (st, fs) op) as [st1 fs1]. cbn [snd] in H. rewrite <- H. apply IH.
Qed.

(* ---- fetch that discards an unusable file (os.remove on whatever path was listed) *)
Definition dremove_file {C} (k : list Z) (d : list (list Z * C)) : list (list Z * C) :=
  filter (fun kv => negb (zlist_eqb k (fst kv))) d.

Definition fetch_discard {C} (par : C -> option jdoc) (st : cstate) (fs : fsys C) (crc : Z) : lres * cstate * fsys C :=
  match last_match (cache_name crc) (c_files st) None with
  | None => (Miss, st, fs)
  | Some (d, nm) =>
      let usable := match dget nm (files d fs) with
                    | Some ct => match par ct with Some doc => match load doc with Miss => false | _ => true end | None => false end
                    | None => false
                    end in
      if usable then (cfetch par st fs crc, st, fs)
      else (Miss,
            mkC (filter (fun x => negb (match fst x, d with RO, RO | RW, RW => zlist_eqb (snd x) nm | _, _ => false end)) (c_files st)) (c_rw st),
            match d with
            | RO => mkFs (dremove_file nm (ro_files fs)) (rw_files fs)
            | RW => mkFs (ro_files fs) (dremove_file nm (rw_files fs))
            end)
  end.

(* a file of the read-only directory cut short by an earlier crash: HEAD's fetch leaves it, the discarding fetch
   deletes it *)
Lemma discard_on_unparsable_refuted :
  let fs := @mkFs (list Z) [(cache_name 7, [123])] [] in
  let st := cinit true true fs in
  let par := fun (_ : list Z) => @None jdoc in
  ro_files (snd (fetch_discard par st fs 7)) = [] /\
  ro_files (snd (rrun par (st, fs) [RFetch 7])) = [(cache_name 7, [123])] /\
  cfetch par st fs 7 = Miss.
Proof. vm_compute. repeat split; reflexivity. Qed.

(* ---------------------------------------------------------------- the checksum in the file name is UNSIGNED *)

(* '%08X.json' % crc for a crc read as a SIGNED 32-bit number: values with the top bit set print as '-' followed by
   the hex digits of 2^32 - crc *)
Definition signed_name (c : Z) : list Z :=
  if c <? 2 ^ 31 then cache_name c else 45 :: cache_name (2 ^ 32 - c).

(* unsigned reading (HEAD): a table stored under S1 is found when S2 is announced iff S1 = S2, in particular not for
   the pair (S, 2^32 - S) *)
Lemma negated_pair_unsigned_is_miss :
  ends_with (cache_name 1515852049) (cache_name 2779115247) = false /\
  ends_with (cache_name 2779115247) (cache_name 1515852049) = false.
Proof. split; reflexivity. Qed.

(* signed reading, refuted: the file stored for S = 0xA5A5EEEF is named '-5A5A1111.json', and the suffix match finds it
   for the DIFFERENT checksum 2^32 - S = 0x5A5A1111 *)
Lemma signed_checksum_refuted :
  2 ^ 32 - 2779115247 = 1515852049 /\
  ends_with (cache_name 1515852049) (signed_name 2779115247) = true /\
  signed_name 2779115247 <> cache_name 2779115247.
Proof.
  split; [reflexivity|split; [vm_compute; reflexivity|]].
  unfold not. intros H. vm_compute in H. discriminate.
Qed.
