(* C11/Observers.v — the holder of a table (cflib.crazyflie.toc.Toc) and its observers.
   The holder is the table (`Toc.toc`); the lookups get_element / get_element_by_id / get_element_by_complete_name
   are its ONLY observers and they are pure: no lookup changes the answer of any later lookup.  On a cache hit
   TocFetcher assigns the loaded table straight to the holder (`self.toc.toc = cache_data`), bypassing
   add_element() and clear().  Executable model of the holder under arbitrary histories (tied to the real Toc
   object by harness/props/c11.py), a model of a MEMOISING by-id observer with an explicit switch "the cache-hit
   path invalidates the memo", and the theorems: the pure holder answers from the installed table whatever was
   looked up before; a memo that the hit path invalidates is equivalent; one that it does not is refuted. *)
From CF Require Import Common.Bytes C03.Model C03.ExtModel C03.Lookup C11.Model C11.Proofs.
Open Scope Z_scope.

Inductive hop :=
| OAdd (e : elem)                 (* Toc.add_element *)
| OClear                          (* Toc.clear *)
| OInstall (t : toc)              (* cache hit: holder.toc = loaded table *)
| OById (i : Z)
| OByName (g n : list Z)
| OByCN (cn : list Z).

Definition is_lookup (o : hop) : bool :=
  match o with OById _ | OByName _ _ | OByCN _ => true | _ => false end.

(* the answer of a lookup as a function of the table only *)
Definition answer (t : toc) (o : hop) : option elem :=
  match o with
  | OById i => get_element_by_id i t
  | OByName g n => get_element g n t
  | OByCN cn => get_element_by_complete_name cn t
  | _ => None
  end.

Definition hstep (t : toc) (o : hop) : toc * list (option elem) :=
  match o with
  | OAdd e => (add_element e t, [])
  | OClear => ([], [])
  | OInstall t' => (t', [])
  | _ => (t, [answer t o])
  end.

Fixpoint hrun (t : toc) (ops : list hop) : toc * list (option elem) :=
  match ops with
  | [] => (t, [])
  | o :: r => let '(t1, a1) := hstep t o in let '(t2, a2) := hrun t1 r in (t2, a1 ++ a2)
  end.

(* ---- a memoising observer: ident -> element index built on the first lookup by id *)
Definition build (t : toc) : list (Z * elem) := map (fun e => (e_ident e, e)) (values t).

Definition mstate := (toc * option (list (Z * elem)))%type.

Definition m_by_id (s : mstate) (i : Z) : mstate * option elem :=
  let idx := match snd s with Some x => x | None => build (fst s) end in
  ((fst s, Some idx), assoc i idx).

(* inv = true: the cache-hit path drops the memo as add_element/clear do; false: it does not *)
Definition mstep (inv : bool) (s : mstate) (o : hop) : mstate * list (option elem) :=
  match o with
  | OAdd e => ((add_element e (fst s), None), [])
  | OClear => (([], None), [])
  | OInstall t' => ((t', if inv then None else snd s), [])
  | OById i => let '(s', a) := m_by_id s i in (s', [a])
  | OByName g n => (s, [get_element g n (fst s)])
  | OByCN cn =>
      match get_element_id cn (fst s) with
      | Ok (Some i) => let '(s', a) := m_by_id s i in (s', [a])
      | _ => (s, [None])
      end
  end.

Fixpoint mrun (inv : bool) (s : mstate) (ops : list hop) : mstate * list (option elem) :=
  match ops with
  | [] => (s, [])
  | o :: r => let '(s1, a1) := mstep inv s o in let '(s2, a2) := mrun inv s1 r in (s2, a1 ++ a2)
  end.

Definition enc_answers (l : list (option elem)) : list Z := flat_map enc_opt_elem l.

(* ---------------------------------------------------------------- proofs *)

Lemma hrun_app t a b : hrun t (a ++ b) = let '(t1, x) := hrun t a in let '(t2, y) := hrun t1 b in (t2, x ++ y).
Proof.
  revert t. induction a as [|o a IH]; intros t; cbn [app hrun].
  - destruct (hrun t b). reflexivity.
  - destruct (hstep t o) as [t1 a1]. rewrite IH. destruct (hrun t1 a) as [t2 a2].
    destruct (hrun t2 b) as [t3 a3]. now rewrite app_assoc.
Qed.

(* lookups are pure observers: they leave the holder as it is and answer from the current table *)
Lemma lookups_pure t ops : forallb is_lookup ops = true -> hrun t ops = (t, map (answer t) ops).
Proof.
  induction ops as [|o r IH]; intros H; [reflexivity|].
  cbn [forallb] in H. apply andb_true_iff in H. destruct H as [Ho Hr].
  destruct o; try discriminate; cbn [hrun hstep map]; rewrite (IH Hr); reflexivity.
Qed.

(* after a cache hit, whatever was done and looked up before, every lookup answers from the installed table *)
Lemma after_install t0 pre t post :
  forallb is_lookup post = true ->
  hrun t0 (pre ++ OInstall t :: post) = (t, snd (hrun t0 pre) ++ map (answer t) post).
Proof.
  intros H. rewrite hrun_app. destruct (hrun t0 pre) as [t1 a1]. cbn [hrun hstep snd].
  rewrite (lookups_pure t post H). reflexivity.
Qed.

Lemma assoc_build i t : assoc i (build t) = get_element_by_id i t.
Proof.
  unfold build, get_element_by_id. induction (values t) as [|e l IH]; [reflexivity|].
  cbn [map assoc find]. rewrite (Z.eqb_sym i (e_ident e)). destruct (e_ident e =? i); [reflexivity|exact IH].
Qed.

Definition memo_ok (s : mstate) : Prop := snd s = None \/ snd s = Some (build (fst s)).

Lemma m_by_id_ok s i : memo_ok s ->
  fst (fst (m_by_id s i)) = fst s /\ memo_ok (fst (m_by_id s i)) /\ snd (m_by_id s i) = get_element_by_id i (fst s).
Proof.
  intros [H|H]; unfold m_by_id; rewrite H; cbn [fst snd]; (split; [reflexivity|split; [now right|apply assoc_build]]).
Qed.

(* a memoising observer whose memo the cache-hit path invalidates is indistinguishable from the pure holder *)
Lemma memo_invalidated_ok : forall ops s,
  memo_ok s -> fst (fst (mrun true s ops)) = fst (hrun (fst s) ops) /\ snd (mrun true s ops) = snd (hrun (fst s) ops).
Proof.
  induction ops as [|o r IH]; intros s Hs; [split; reflexivity|].
  cbn [mrun hrun].
  assert (Hstep : fst (fst (mstep true s o)) = fst (hstep (fst s) o) /\ memo_ok (fst (mstep true s o)) /\
                  snd (mstep true s o) = snd (hstep (fst s) o)).
  { destruct o as [e| |t'|i|g n|cn]; cbn [mstep hstep fst snd answer].
    - repeat split; now left.
    - repeat split; now left.
    - repeat split; now left.
    - destruct (m_by_id_ok s i Hs) as (A & B & C). destruct (m_by_id s i) as [s' a]. cbn [fst snd] in *.
      split; [exact A|split; [exact B|now rewrite C]].
    - repeat split; exact Hs.
    - unfold get_element_by_complete_name. destruct (get_element_id cn (fst s)) as [[i|]|x]; cbn [fst snd].
      + destruct (m_by_id_ok s i Hs) as (A & B & C). destruct (m_by_id s i) as [s' a]. cbn [fst snd] in *.
        split; [exact A|split; [exact B|now rewrite C]].
      + repeat split; exact Hs.
      + repeat split; exact Hs. }
  destruct (mstep true s o) as [s1 a1]. destruct (hstep (fst s) o) as [t1 b1]. cbn [fst snd] in Hstep.
  destruct Hstep as (E1 & Hok & E2). specialize (IH s1 Hok). rewrite E1 in IH.
  destruct (mrun true s1 r) as [s2 a2]. destruct (hrun t1 r) as [t2 b2]. cbn [fst snd] in *.
  destruct IH as [I1 I2]. split; [exact I1|]. now rewrite E2, I2.
Qed.

(* one that it does not invalidate is wrong: one lookup on the still empty holder before the hit, and every
   entry of the cached table is invisible by id (and by complete name) afterwards *)
Definition witness_elem : elem := mkElem ParamCls 0 [112] [97] "uint8_t" "<B" 0 false false.
Definition witness_table : toc := [([112], [([97], witness_elem)])].
Definition witness_ops : list hop := [OById 0; OInstall witness_table; OById 0; OByName [112] [97]; OByCN [112; 46; 97]].

Lemma memo_not_invalidated_refuted :
  snd (hrun [] witness_ops) = [None; Some witness_elem; Some witness_elem; Some witness_elem] /\
  snd (mrun false ([], None) witness_ops) = [None; None; Some witness_elem; None].
Proof. split; reflexivity. Qed.

(* the table a cache hit installs for device entries `items` answers every lookup with the device's entry *)
Lemma hit_lookups_agree c items t0 pre i it :
  NoDup (map key items) -> nth_error items i = Some it -> ~ In 46 (di_group it) -> ~ In 46 (di_name it) ->
  snd (hrun t0 (pre ++ [OInstall (reload (spec_toc c items)); OById (Z.of_nat i);
                        OByName (di_group it) (di_name it); OByCN (di_group it ++ [46] ++ di_name it)])) =
  snd (hrun t0 pre) ++ [Some (spec_elem c (Z.of_nat i) it); Some (spec_elem c (Z.of_nat i) it);
                        Some (spec_elem c (Z.of_nat i) it)].
Proof.
  intros Hnd Hi Hg Hn. rewrite after_install by reflexivity. cbn [snd map answer]. rewrite reload_spec_toc.
  destruct (lookup_agree c items i it Hnd Hi) as (A & B & C). destruct (C Hg Hn) as [_ D].
  cbn zeta in *. now rewrite A, B, D.
Qed.
