(* C11/Decoder.v — TocCache._decoder as a PARTIAL function on the JSON object of an element.
   HEAD reads every field with obj[key]: an element object (one that carries '__class__') lacking ANY of
   ident, group, name, ctype, pytype, access — or, for a ParamTocElement, extended — raises KeyError inside
   json.load, fetch() returns None: a miss, the table is downloaded.  (An object WITHOUT '__class__' is left a
   plain dictionary by the hook: the loaded value is then not a table of elements; TocFetcher's validity check
   rejects it: also a download.)  Cache files written by older library versions lack 'extended'. *)
From CF Require Import Common.Bytes C03.Model C03.ExtModel C03.Lookup C11.Model C11.Proofs.
Open Scope Z_scope.

Definition required_keys (c : cls) : list (list Z) :=
  [k_ident; k_group; k_name; k_ctype; k_pytype; k_access] ++ match c with ParamCls => [k_extended] | LogCls => [] end.

Definition class_of (f : jfields) : option cls :=
  match dget k_class f with
  | Some (SStr cn) => if zlist_eqb cn (cls_name LogCls) then Some LogCls
                      else if zlist_eqb cn (cls_name ParamCls) then Some ParamCls else None
  | _ => None
  end.

(* the decoder succeeds only on objects that carry the class tag and every required key of that class *)
Lemma decode_needs_all_keys f r :
  decode_elem f = Some r ->
  exists c, class_of f = Some c /\ forall k, In k (required_keys c) -> dget k f <> None.
Proof.
  unfold decode_elem, class_of.
  destruct (dget k_class f) as [kc|] eqn:Ec; [|discriminate].
  destruct (dget k_ident f) as [ki|] eqn:Ei; [|discriminate].
  destruct (dget k_group f) as [kg|] eqn:Eg; [|discriminate].
  destruct (dget k_name f) as [kn|] eqn:En; [|discriminate].
  destruct (dget k_ctype f) as [kt|] eqn:Et; [|discriminate].
  destruct (dget k_pytype f) as [kp|] eqn:Ep; [|discriminate].
  destruct (dget k_access f) as [ka|] eqn:Ea; [|discriminate].
  destruct kc as [z|cn|b]; try discriminate.
  destruct (zlist_eqb cn (cls_name LogCls)) eqn:E1.
  - intros _. exists LogCls. split; [reflexivity|].
    intros k Hk. cbn [required_keys app] in Hk.
    repeat (destruct Hk as [<-|Hk]; [congruence|]). destruct Hk.
  - destruct (zlist_eqb cn (cls_name ParamCls)) eqn:E2; [|discriminate].
    destruct (dget k_extended f) as [kx|] eqn:Ex; [|discriminate].
    intros _. exists ParamCls. split; [reflexivity|].
    intros k Hk. cbn [required_keys app] in Hk.
    repeat (destruct Hk as [<-|Hk]; [congruence|]). destruct Hk.
Qed.

(* contrapositive: a missing required key is an exception *)
Lemma decode_missing_key f c k :
  class_of f = Some c -> In k (required_keys c) -> dget k f = None -> decode_elem f = None.
Proof.
  intros Hc Hk Hn. destruct (decode_elem f) as [r|] eqn:E; [|reflexivity].
  destruct (decode_needs_all_keys f r E) as (c' & Hc' & Hall).
  rewrite Hc in Hc'. injection Hc' as <-. now elim (Hall k Hk).
Qed.

(* one such element anywhere in the file makes the whole load fail: fetch() returns a miss *)
Lemma load_group_bad g n f :
  In (n, f) g -> has_class f = true -> decode_elem f = None -> load_group g = None.
Proof.
  induction g as [|[n' f'] g IH]; intros Hin Hc Hd; [contradiction|].
  cbn [load_group]. destruct Hin as [Heq|Hin].
  - injection Heq as -> ->. rewrite Hc, Hd. reflexivity.
  - rewrite (IH Hin Hc Hd). destruct (if has_class f' then decode_elem f' else Some None) as [[e|]|]; reflexivity.
Qed.

Lemma load_doc_bad d g grp n f :
  In (g, grp) d -> In (n, f) grp -> has_class f = true -> decode_elem f = None -> load_doc d = None.
Proof.
  induction d as [|[g' grp'] d IH]; intros Hg Hin Hc Hd; [contradiction|].
  cbn [load_doc]. destruct Hg as [Heq|Hg].
  - injection Heq as -> ->. rewrite (load_group_bad grp n f Hin Hc Hd).
    match goal with |- context [if ?b then None else None] => destruct b end; reflexivity.
  - rewrite (IH Hg Hin Hc Hd).
    match goal with |- match ?x with _ => _ end = None => destruct x as [[l|]|] end; reflexivity.
Qed.

Lemma missing_key_is_miss d g grp n f c k :
  In (g, grp) d -> In (n, f) grp -> has_class f = true ->
  class_of f = Some c -> In k (required_keys c) -> dget k f = None ->
  load d = Miss.
Proof.
  intros Hg Hin Hhc Hc Hk Hn. unfold load.
  rewrite (load_doc_bad d g grp n f Hg Hin Hhc (decode_missing_key f c k Hc Hk Hn)).
  match goal with |- (if ?b then _ else _) = _ => destruct b end; reflexivity.
Qed.

(* through TocCache.fetch: whatever file holds such a document *)
Lemma fetch_missing_key_is_miss {C} (par : C -> option jdoc) st (fs : fsys C) crc dd nm ct d g grp n f c k :
  last_match (cache_name crc) (c_files st) None = Some (dd, nm) -> dget nm (files dd fs) = Some ct -> par ct = Some d ->
  In (g, grp) d -> In (n, f) grp -> has_class f = true ->
  class_of f = Some c -> In k (required_keys c) -> dget k f = None ->
  cfetch par st fs crc = Miss.
Proof.
  intros H1 H2 H3 Hg Hin Hhc Hc Hk Hn. unfold cfetch. rewrite H1, H2, H3.
  exact (missing_key_is_miss d g grp n f c k Hg Hin Hhc Hc Hk Hn).
Qed.

(* ---- the lenient reading of 'extended' (obj.get('extended', False)), refuted *)
Definition decode_elem_lenient (f : jfields) : option (option elem) :=
  match dget k_extended f with
  | Some _ => decode_elem f
  | None => decode_elem (f ++ [(k_extended, SBool false)])
  end.

Definition old_param_object : jfields :=
  [ (k_class, SStr (cls_name ParamCls)); (k_ident, SNum 0); (k_group, SStr [112]); (k_name, SStr [97]);
    (k_ctype, SStr (codes "uint8_t")); (k_pytype, SStr (codes "<B")); (k_access, SNum 0) ].

(* the device's entry is extended; a file of an older version has no 'extended' key: HEAD misses, the lenient
   decoder produces an element with extended = false, i.e. not the device's entry *)
Lemma lenient_extended_refuted :
  let dev_elem := mkElem ParamCls 0 [112] [97] "uint8_t" "<B" 0 true false in
  decode_elem old_param_object = None /\
  decode_elem_lenient old_param_object = Some (Some (mkElem ParamCls 0 [112] [97] "uint8_t" "<B" 0 false false)) /\
  mkElem ParamCls 0 [112] [97] "uint8_t" "<B" 0 false false <> reload_elem dev_elem.
Proof. repeat split; try reflexivity. discriminate. Qed.
