(* C11/Conc.v — several TocCache objects writing into ONE read-write directory at the same time (a swarm:
   CachedCfFactory gives every Crazyflie the same rw_cache; Swarm.open_links connects them on parallel threads).
   Model of TocCache.insert at the granularity of file-system calls, over a file system with inodes:
     open(<rw>/<CRC>.json, 'w')   creates the file or truncates the existing one; the writer keeps a descriptor
     write(text)                  one write at the descriptor's offset 0 (the harness flushes at this point)
     close()
   and ANY interleaving of ANY number of writers.  Executable definitions first, proofs below. *)
From CF Require Import Common.Bytes C03.Model C03.ExtModel C03.Lookup C11.Model C11.Proofs.
Open Scope Z_scope.

Record writer := mkW { w_crc : Z; w_text : list Z }.

Record wst := mkWs { ws_pc : nat;      (* 0 before open, 1 open, 2 written, 3 closed *)
                     ws_fd : nat }.    (* inode of the descriptor *)

(* inodes carry the name they were created under (never renamed by this code) and their content *)
Record cfs := mkCfs { c_inodes : list (list Z * list Z); c_dir : list (list Z * nat) }.

Fixpoint upd {A} (i : nat) (v : A) (l : list A) : list A :=
  match l, i with
  | [], _ => []
  | _ :: l', O => v :: l'
  | x :: l', S k => x :: upd k v l'
  end.

(* a write of the whole text at offset 0 over what the inode holds *)
Definition overlay (t old : list Z) : list Z := t ++ skipn (List.length t) old.

Definition wstep (ws : list writer) (st : list wst * cfs) (k : nat) : list wst * cfs :=
  let '(pcs, fs) := st in
  match nth_error ws k, nth_error pcs k with
  | Some w, Some p =>
      match ws_pc p with
      | O =>
          let nm := cache_name (w_crc w) in
          match dget nm (c_dir fs) with
          | Some i =>
              match nth_error (c_inodes fs) i with
              | Some (onm, _) => (upd k (mkWs 1 i) pcs, mkCfs (upd i (onm, []) (c_inodes fs)) (c_dir fs))
              | None => (pcs, fs)
              end
          | None =>
              let i := List.length (c_inodes fs) in
              (upd k (mkWs 1 i) pcs, mkCfs (c_inodes fs ++ [(nm, [])]) (c_dir fs ++ [(nm, i)]))
          end
      | 1%nat =>
          match nth_error (c_inodes fs) (ws_fd p) with
          | Some (onm, old) =>
              (upd k (mkWs 2 (ws_fd p)) pcs, mkCfs (upd (ws_fd p) (onm, overlay (w_text w) old) (c_inodes fs)) (c_dir fs))
          | None => (pcs, fs)
          end
      | 2%nat => (upd k (mkWs 3 (ws_fd p)) pcs, fs)
      | _ => (pcs, fs)
      end
  | _, _ => (pcs, fs)
  end.

Definition wrun (ws : list writer) (sched : list nat) : list wst * cfs :=
  fold_left (wstep ws) sched (map (fun _ => mkWs 0 0) ws, mkCfs [] []).

(* directory listing with contents, for the tie *)
Definition enc_cfs (fs : cfs) : list Z :=
  flat_map (fun ni => lenc (fst ni) ++ match nth_error (c_inodes fs) (snd ni) with
                                        | Some (_, ct) => lenc ct | None => [-1] end) (c_dir fs).

(* ---------------------------------------------------------------- proofs *)

Lemma nth_error_upd_same {A} (l : list A) i v x : nth_error l i = Some x -> nth_error (upd i v l) i = Some v.
Proof. revert i. induction l as [|y l IH]; intros [|i] H; cbn in *; try discriminate; auto. Qed.

Lemma nth_error_upd_other {A} (l : list A) i j v : i <> j -> nth_error (upd i v l) j = nth_error l j.
Proof.
  revert i j. induction l as [|y l IH]; intros [|i] [|j] H; cbn; auto; try congruence.
Qed.

Lemma last_skipn (l : list Z) n dflt : skipn n l <> [] -> last (skipn n l) dflt = last l dflt.
Proof.
  revert n. induction l as [|x l IH]; intros [|n] H; cbn [skipn] in *; try congruence.
  rewrite IH by exact H. destruct l as [|y l]; [destruct n; cbn in H; congruence|reflexivity].
Qed.

Lemma last_app_ne (a b : list Z) dflt : b <> [] -> last (a ++ b) dflt = last b dflt.
Proof.
  induction a as [|x a IH]; intros H; [reflexivity|]. cbn [app]. rewrite <- IH by exact H.
  destruct (a ++ b) eqn:E; [|reflexivity]. apply app_eq_nil in E. destruct E. contradiction.
Qed.

Lemma pair_some_inj {A B} (a c : A) (b d : B) : Some (a, b) = Some (c, d) -> a = c /\ b = d.
Proof. intros H. injection H. auto. Qed.

Section Conc.
  Variable ser : jdoc -> list Z.
  Variable par : list Z -> option jdoc.
  (* json: a complete file parses back; an empty file does not parse; nothing may follow the closing brace;
     the text ends with the closing brace *)
  Hypothesis par_ser : forall t, wf t -> par (ser (jdoc_of t)) = Some (jdoc_of t).
  Hypothesis par_empty : par [] = None.
  Hypothesis par_extra : forall t rest, wf t -> rest <> [] -> last rest 0 = 125 ->
                                        par (ser (jdoc_of t) ++ rest) = None.
  Hypothesis ser_last : forall t, wf t -> ser (jdoc_of t) <> [] /\ last (ser (jdoc_of t)) 0 = 125.

  (* the writers: (crc, table); each inserts json.dumps(table) under its crc *)
  Variable jobs : list (Z * toc).
  Hypothesis jobs_wf : forall c t, In (c, t) jobs -> wf t.
  Let ws := map (fun ct => mkW (fst ct) (ser (jdoc_of (snd ct)))) jobs.

  Definition good (nm ct : list Z) : Prop :=
    ct = [] \/ exists c t rest, In (c, t) jobs /\ cache_name c = nm /\ ct = ser (jdoc_of t) ++ rest /\
                                (rest = [] \/ last rest 0 = 125).

  Definition CInv (st : list wst * cfs) : Prop :=
    let '(pcs, fs) := st in
    (forall nm i, In (nm, i) (c_dir fs) -> exists ct, nth_error (c_inodes fs) i = Some (nm, ct)) /\
    (forall k w p, nth_error ws k = Some w -> nth_error pcs k = Some p -> ws_pc p = 1%nat ->
                   exists ct, nth_error (c_inodes fs) (ws_fd p) = Some (cache_name (w_crc w), ct)) /\
    (forall i nm ct, nth_error (c_inodes fs) i = Some (nm, ct) -> good nm ct).

  Lemma ws_nth k w : nth_error ws k = Some w ->
    exists c t, In (c, t) jobs /\ w_crc w = c /\ w_text w = ser (jdoc_of t).
  Proof.
    unfold ws. rewrite nth_error_map. destruct (nth_error jobs k) as [[c t]|] eqn:E; [|discriminate].
    cbn. intros H. injection H as <-. exists c, t. split; [eapply nth_error_In; exact E|split; reflexivity].
  Qed.

  Lemma good_last nm ct : good nm ct -> ct <> [] -> last ct 0 = 125.
  Proof.
    intros [->|(c & t & rest & Hin & _ & -> & Hr)] Hne; [congruence|].
    destruct (ser_last t (jobs_wf c t Hin)) as [Hn Hl].
    destruct Hr as [->|Hr]; [now rewrite app_nil_r|].
    destruct rest as [|x rest]; [now rewrite app_nil_r|]. rewrite last_app_ne by discriminate. exact Hr.
  Qed.

  Lemma CInv_step st k : CInv st -> CInv (wstep ws st k).
  Proof.
    destruct st as [pcs fs]. intros (HA & HB & HC). unfold wstep.
    destruct (nth_error ws k) as [w|] eqn:Ew; [|now repeat split].
    destruct (nth_error pcs k) as [p|] eqn:Ep; [|now repeat split].
    destruct (ws_pc p) as [|[|[|n]]] eqn:Epc; try (now repeat split).
    - (* open *)
      destruct (dget (cache_name (w_crc w)) (c_dir fs)) as [i|] eqn:Ed.
      + apply dget_In in Ed. destruct (HA _ _ Ed) as [ct Hi]. rewrite Hi.
        cbn [CInv c_dir c_inodes]. split; [|split].
        * intros nm j Hin. destruct (HA _ _ Hin) as [ct' Hj].
          destruct (Nat.eq_dec i j) as [E|Hne].
          -- rewrite <- E in Hj. rewrite Hi in Hj. destruct (pair_some_inj _ _ _ _ Hj) as [E1 E2]. rewrite <- E, <- E1.
             eexists. eapply nth_error_upd_same. exact Hi.
          -- exists ct'. now rewrite nth_error_upd_other.
        * intros k' w' p' Hw' Hp' Hpc'.
          destruct (Nat.eq_dec k k') as [->|Hne].
          -- rewrite (nth_error_upd_same _ _ _ _ Ep) in Hp'. injection Hp' as <-. cbn [ws_fd].
             rewrite Ew in Hw'. injection Hw' as <-. eexists. eapply nth_error_upd_same. exact Hi.
          -- rewrite nth_error_upd_other in Hp' by exact Hne.
             destruct (HB _ _ _ Hw' Hp' Hpc') as [ct' Hf].
             destruct (Nat.eq_dec i (ws_fd p')) as [E|Hne2].
             ++ rewrite <- E in Hf. rewrite Hi in Hf. destruct (pair_some_inj _ _ _ _ Hf) as [E1 E2]. rewrite <- E, <- E1.
                eexists. eapply nth_error_upd_same. exact Hi.
             ++ exists ct'. now rewrite nth_error_upd_other.
        * intros j nm ct' Hj. destruct (Nat.eq_dec i j) as [E|Hne].
          -- rewrite <- E in Hj. rewrite (nth_error_upd_same _ _ _ _ Hi) in Hj. destruct (pair_some_inj _ _ _ _ Hj) as [E1 E2]. subst ct'. now left.
          -- rewrite nth_error_upd_other in Hj by exact Hne. eapply HC. exact Hj.
      + cbn [CInv c_dir c_inodes]. split; [|split].
        * intros nm j Hin. apply in_app_iff in Hin. destruct Hin as [Hin|[Heq|[]]].
          -- destruct (HA _ _ Hin) as [ct' Hj]. exists ct'. rewrite nth_error_app1; [exact Hj|].
             apply nth_error_Some. congruence.
          -- assert (E1 : cache_name (w_crc w) = nm) by congruence. assert (E2 : List.length (c_inodes fs) = j) by congruence.
             rewrite <- E1, <- E2. exists []. rewrite nth_error_app2 by lia. now rewrite Nat.sub_diag.
        * intros k' w' p' Hw' Hp' Hpc'.
          destruct (Nat.eq_dec k k') as [->|Hne].
          -- rewrite (nth_error_upd_same _ _ _ _ Ep) in Hp'. injection Hp' as <-. cbn [ws_fd].
             rewrite Ew in Hw'. injection Hw' as <-. exists [].
             rewrite nth_error_app2 by lia. now rewrite Nat.sub_diag.
          -- rewrite nth_error_upd_other in Hp' by exact Hne.
             destruct (HB _ _ _ Hw' Hp' Hpc') as [ct' Hf]. exists ct'.
             rewrite nth_error_app1; [exact Hf|]. apply nth_error_Some. congruence.
        * intros j nm ct' Hj.
          destruct (Nat.lt_ge_cases j (List.length (c_inodes fs))) as [Hlt|Hge].
          -- rewrite nth_error_app1 in Hj by exact Hlt. eapply HC. exact Hj.
          -- rewrite nth_error_app2 in Hj by exact Hge.
             destruct (j - List.length (c_inodes fs))%nat as [|m]; cbn in Hj; [|destruct m; discriminate].
             destruct (pair_some_inj _ _ _ _ Hj) as [E1 E2]. subst ct'. now left.
    - (* write *)
      destruct (HB _ _ _ Ew Ep Epc) as [old Hf]. rewrite Hf.
      cbn [CInv c_dir c_inodes]. split; [|split].
      * intros nm j Hin. destruct (HA _ _ Hin) as [ct' Hj].
        destruct (Nat.eq_dec (ws_fd p) j) as [E|Hne].
        -- rewrite E in Hf. rewrite Hf in Hj. destruct (pair_some_inj _ _ _ _ Hj) as [E1 E2]. rewrite <- E1, <- E. eexists. eapply nth_error_upd_same. rewrite E. exact Hf.
        -- exists ct'. now rewrite nth_error_upd_other.
      * intros k' w' p' Hw' Hp' Hpc'.
        destruct (Nat.eq_dec k k') as [->|Hne].
        -- rewrite (nth_error_upd_same _ _ _ _ Ep) in Hp'. injection Hp' as <-. discriminate.
        -- rewrite nth_error_upd_other in Hp' by exact Hne.
           destruct (HB _ _ _ Hw' Hp' Hpc') as [ct' Hf'].
           destruct (Nat.eq_dec (ws_fd p) (ws_fd p')) as [E|Hne2].
           ++ rewrite <- E in Hf'. rewrite Hf in Hf'. destruct (pair_some_inj _ _ _ _ Hf') as [E1 E2]. rewrite <- E, <- E1.
              eexists. eapply nth_error_upd_same. exact Hf.
           ++ exists ct'. now rewrite nth_error_upd_other.
      * intros j nm ct' Hj. destruct (Nat.eq_dec (ws_fd p) j) as [E|Hne].
        -- rewrite <- E, (nth_error_upd_same _ _ _ _ Hf) in Hj. destruct (pair_some_inj _ _ _ _ Hj) as [E1 E2]. subst nm ct'.
           destruct (ws_nth k w Ew) as (c & t & Hin & Hc & Ht). right.
           exists c, t, (skipn (List.length (w_text w)) old). split; [exact Hin|split; [now rewrite <- Hc|]].
           unfold overlay. rewrite Ht. split; [reflexivity|].
           destruct (skipn (List.length (ser (jdoc_of t))) old) eqn:Es; [now left|right].
           rewrite <- Es. rewrite last_skipn by (rewrite Es; discriminate).
           apply (good_last (cache_name (w_crc w)) old (HC _ _ _ Hf)).
           intros ->. now rewrite skipn_nil in Es.
        -- rewrite nth_error_upd_other in Hj by exact Hne. eapply HC. exact Hj.
    - (* close *)
      cbn [CInv]. split; [exact HA|split; [|exact HC]].
      intros k' w' p' Hw' Hp' Hpc'. destruct (Nat.eq_dec k k') as [->|Hne].
      + rewrite (nth_error_upd_same _ _ _ _ Ep) in Hp'. injection Hp' as <-. discriminate.
      + rewrite nth_error_upd_other in Hp' by exact Hne. eapply HB; eauto.
  Qed.

  Lemma CInv_run sched : CInv (wrun ws sched).
  Proof.
    unfold wrun.
    assert (G : forall st, CInv st -> CInv (fold_left (wstep ws) sched st)).
    { induction sched as [|k sched IH]; intros st H; cbn [fold_left]; [exact H|]. apply IH. now apply CInv_step. }
    apply G. cbn. split; [|split].
    - intros nm i [].
    - intros k w p Hw Hp Hpc. rewrite nth_error_map in Hp. destruct (nth_error ws k); [|discriminate].
      cbn in Hp. injection Hp as <-. discriminate.
    - intros [|i] nm ct H; discriminate.
  Qed.

  (* after ANY interleaving of ANY number of concurrent inserts: a file of the directory that parses completely
     is named by the checksum of one of the inserts and holds exactly the table of an insert under THAT checksum *)
  Lemma concurrent_isolated sched :
    let '(_, fs) := wrun ws sched in
    forall nm i ct d, In (nm, i) (c_dir fs) -> nth_error (c_inodes fs) i = Some (nm, ct) -> par ct = Some d ->
      exists c t, In (c, t) jobs /\ nm = cache_name c /\ d = jdoc_of t /\ ct = ser (jdoc_of t).
  Proof.
    pose proof (CInv_run sched) as H. destruct (wrun ws sched) as [pcs fs]. destruct H as (HA & HB & HC).
    intros nm i ct d Hin Hi Hp.
    destruct (HC _ _ _ Hi) as [->|(c & t & rest & Hj & Hn & -> & Hr)]; [rewrite par_empty in Hp; discriminate|].
    pose proof (jobs_wf c t Hj) as Hwf.
    destruct rest as [|x rest].
    - rewrite app_nil_r in *. rewrite (par_ser t Hwf) in Hp. injection Hp as <-. exists c, t. now repeat split.
    - destruct Hr as [Hr|Hr]; [discriminate|]. rewrite (par_extra t (x :: rest) Hwf) in Hp by (discriminate || exact Hr).
      discriminate.
  Qed.
End Conc.
