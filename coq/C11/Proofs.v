(* C11/Proofs.v *)
From CF Require Import Common.Bytes C03.Model C03.ExtModel C03.Proofs C03.Fetch C03.Lookup C11.Model.
From Coq Require Import ZifyBool.
Open Scope Z_scope.
Ltac Zify.zify_post_hook ::= Z.to_euclidean_division_equations.

(* ---------------------------------------------------------------- strings *)
Lemma string_of_codes_codes s : string_of_codes (codes s) = s.
Proof.
  induction s as [|a s IH]; [reflexivity|].
  unfold codes in *. cbn [list_ascii_of_string map string_of_codes].
  rewrite IH, N2Z.id, ascii_N_embedding. reflexivity.
Qed.

(* ---------------------------------------------------------------- _decoder (_encoder e) *)
Lemma decode_encode_raw : forall c i g n lct lpt a x,
  decode_elem ([ (k_class, SStr (cls_name c)); (k_ident, SNum i); (k_group, SStr g); (k_name, SStr n);
                 (k_ctype, SStr lct); (k_pytype, SStr lpt); (k_access, SNum a) ]
               ++ match c with ParamCls => [(k_extended, SBool x)] | LogCls => [] end)
  = Some (Some (mkElem c i g n (string_of_codes lct) (string_of_codes lpt) a
                       (match c with ParamCls => x | LogCls => false end) false)).
Proof. intros [|] i g n lct lpt a x; vm_compute; reflexivity. Qed.

Lemma decode_encode e : decode_elem (encoder e) = Some (Some (reload_elem e)).
Proof.
  unfold encoder. rewrite decode_encode_raw. unfold reload_elem. now rewrite !string_of_codes_codes.
Qed.

Lemma has_class_encoder e : has_class (encoder e) = true.
Proof. unfold encoder. destruct (e_cls e); vm_compute; reflexivity. Qed.

Definition enc_group (d : list (list Z * elem)) : jgroup := map (fun ne => (fst ne, encoder (snd ne))) d.

Lemma load_group_enc d :
  load_group (enc_group d) = Some (Some (map (fun ne => (fst ne, reload_elem (snd ne))) d)).
Proof.
  induction d as [|[n e] d IH]; [reflexivity|].
  cbn [enc_group map load_group fst snd]. fold (enc_group d).
  rewrite has_class_encoder, decode_encode, IH. reflexivity.
Qed.

Lemma has_class_map {V W} (f : list Z * V -> list Z * W) d :
  (forall x, fst (f x) = fst x) -> has_class (map f d) = has_class d.
Proof. intros H. unfold has_class. rewrite map_map. f_equal. apply map_ext. exact H. Qed.

(* no group and no variable is called "__class__" *)
Definition class_free (t : toc) : bool :=
  negb (has_class t) && forallb (fun gd => negb (has_class (snd gd))) t.

Lemma load_doc_enc t :
  load_doc (jdoc_of t) =
  if forallb (fun gd => negb (has_class (snd gd))) t then Some (Some (reload t)) else None.
Proof.
  induction t as [|[g d] t IH]; [reflexivity|].
  unfold jdoc_of in *. cbn [map load_doc fst snd forallb]. fold (enc_group d).
  rewrite IH. unfold enc_group at 1. rewrite has_class_map by reflexivity.
  destruct (has_class d); cbn [negb andb]; [reflexivity|].
  rewrite load_group_enc.
  destruct (forallb (fun gd => negb (has_class (snd gd))) t); reflexivity.
Qed.

Lemma load_jdoc_of t : load (jdoc_of t) = if class_free t then Loaded (reload t) else Miss.
Proof.
  unfold load, class_free. unfold jdoc_of at 1. rewrite has_class_map by reflexivity.
  destruct (has_class t); cbn [negb andb]; [reflexivity|].
  rewrite load_doc_enc. destruct (forallb _ t); reflexivity.
Qed.

(* ---------------------------------------------------------------- file names *)
Fixpoint val16 (l : list Z) : Z := match l with [] => 0 | b :: l' => b + 16 * val16 l' end.

Lemma val16_nibbles n : forall c, val16 (nibbles n c) = c mod 16 ^ Z.of_nat n.
Proof.
  induction n as [|n IH]; intros c.
  - cbn. now rewrite Z.mod_1_r.
  - cbn [nibbles val16]. rewrite IH. rewrite Nat2Z.inj_succ, Z.pow_succ_r by lia.
    assert (0 < 16 ^ Z.of_nat n) by (apply Z.pow_pos_nonneg; lia).
    rewrite Z.rem_mul_r by lia. lia.
Qed.

Lemma nibbles_range n : forall c, Forall (fun d => 0 <= d < 16) (nibbles n c).
Proof. induction n as [|n IH]; intros c; cbn [nibbles]; constructor; [lia|apply IH]. Qed.

Lemma nibbles_length n : forall c, List.length (nibbles n c) = n.
Proof. induction n as [|n IH]; intros c; cbn [nibbles List.length]; [reflexivity|now rewrite IH]. Qed.

Lemma hexdigit_inj a b : 0 <= a < 16 -> 0 <= b < 16 -> hexdigit a = hexdigit b -> a = b.
Proof. unfold hexdigit. intros Ha Hb. destruct (a <? 10) eqn:E1, (b <? 10) eqn:E2; lia. Qed.

Lemma map_hexdigit_inj : forall l1 l2,
  Forall (fun d => 0 <= d < 16) l1 -> Forall (fun d => 0 <= d < 16) l2 ->
  map hexdigit l1 = map hexdigit l2 -> l1 = l2.
Proof.
  induction l1 as [|a l1 IH]; intros [|b l2] H1 H2 E; try discriminate; [reflexivity|].
  inversion H1; inversion H2; subst. cbn [map] in E. injection E as E1 E2.
  f_equal; [now apply hexdigit_inj|now apply IH].
Qed.

Lemma hex8_inj a b : 0 <= a < 2 ^ 32 -> 0 <= b < 2 ^ 32 -> hex8 a = hex8 b -> a = b.
Proof.
  intros Ha Hb E. unfold hex8 in E.
  apply map_hexdigit_inj in E; try (apply Forall_rev; apply nibbles_range).
  apply (f_equal (@rev Z)) in E. rewrite !rev_involutive in E.
  apply (f_equal val16) in E. rewrite !val16_nibbles in E.
  change (16 ^ Z.of_nat 8) with (2 ^ 32) in E. rewrite !Z.mod_small in E by assumption. exact E.
Qed.

Lemma hex8_length c : List.length (hex8 c) = 8%nat.
Proof. unfold hex8. now rewrite map_length, rev_length, nibbles_length. Qed.

Lemma cache_name_length c : List.length (cache_name c) = 13%nat.
Proof. unfold cache_name. rewrite app_length, hex8_length. reflexivity. Qed.

Lemma ends_with_refl p : ends_with p p = true.
Proof. unfold ends_with. rewrite Nat.leb_refl, Nat.sub_diag. cbn [skipn andb]. apply zlist_eqb_refl. Qed.

Lemma ends_with_names a b :
  0 <= a < 2 ^ 32 -> 0 <= b < 2 ^ 32 -> ends_with (cache_name a) (cache_name b) = true -> a = b.
Proof.
  intros Ha Hb E. unfold ends_with in E. rewrite !cache_name_length in E.
  cbn [Nat.sub skipn Nat.leb andb] in E. apply zlist_eqb_spec in E.
  unfold cache_name in E. apply app_inv_tail in E. now apply hex8_inj.
Qed.

(* ---------------------------------------------------------------- last match *)
Lemma last_match_In p : forall l acc x,
  last_match p l acc = Some x -> (acc = Some x \/ (In x l /\ ends_with p (snd x) = true)).
Proof.
  induction l as [|y l IH]; intros acc x H; cbn [last_match] in H; [now left|].
  apply IH in H. destruct H as [H|[H1 H2]].
  - destruct (ends_with p (snd y)) eqn:E; [|now left]. injection H as <-. right. split; [now left|exact E].
  - right. split; [now right|exact H2].
Qed.

Lemma last_match_snoc p l x acc : ends_with p (snd x) = true -> last_match p (l ++ [x]) acc = Some x.
Proof.
  revert acc. induction l as [|y l IH]; intros acc H; cbn [app last_match].
  - now rewrite H.
  - now apply IH.
Qed.

(* ---------------------------------------------------------------- map_toc is a homomorphism *)
Lemma dget_map {V W} (f : V -> W) k d :
  dget k (map (fun kv => (fst kv, f (snd kv))) d) = option_map f (dget k d).
Proof.
  induction d as [|[k' v] d IH]; [reflexivity|]. cbn [map dget fst snd].
  destruct (zlist_eqb k k'); [reflexivity|exact IH].
Qed.

Lemma dset_map {V W} (f : V -> W) k v d :
  dset k (f v) (map (fun kv => (fst kv, f (snd kv))) d) = map (fun kv => (fst kv, f (snd kv))) (dset k v d).
Proof.
  induction d as [|[k' v'] d IH]; [reflexivity|]. cbn [map dset fst snd].
  destruct (zlist_eqb k k'); cbn [map fst snd]; [reflexivity|now rewrite IH].
Qed.

Lemma map_toc_add f e t :
  e_group (f e) = e_group e -> e_name (f e) = e_name e ->
  map_toc f (add_element e t) = add_element (f e) (map_toc f t).
Proof.
  intros Hg Hn. unfold add_element, map_toc. rewrite Hg, Hn.
  rewrite (dget_map (fun d => map (fun ne => (fst ne, f (snd ne))) d)).
  destruct (dget (e_group e) t) as [d|]; cbn [option_map].
  - rewrite (dset_map f). symmetry. apply (dset_map (fun d => map (fun ne => (fst ne, f (snd ne))) d)).
  - symmetry. apply (dset_map (fun d => map (fun ne => (fst ne, f (snd ne))) d) (e_group e) [(e_name e, e)]).
Qed.

Lemma map_toc_of_elems f es :
  (forall e, e_group (f e) = e_group e /\ e_name (f e) = e_name e) ->
  map_toc f (toc_of_elems es) = toc_of_elems (map f es).
Proof.
  intros H. induction es as [|e es IH] using rev_ind; [reflexivity|].
  rewrite map_app. cbn [map]. rewrite !toc_of_elems_snoc, map_toc_add, IH; try apply H. reflexivity.
Qed.

Lemma reload_spec_elem c i it : reload_elem (spec_elem c i it) = spec_elem c i it.
Proof. destruct c; reflexivity. Qed.

Lemma reload_spec_toc c items : reload (spec_toc c items) = spec_toc c items.
Proof.
  unfold reload, spec_toc. rewrite map_toc_of_elems by (intros e; split; reflexivity).
  f_equal. generalize 0. induction items as [|it items IH]; intros i; [reflexivity|].
  cbn [spec_elems map]. now rewrite reload_spec_elem, IH.
Qed.

Lemma values_map_toc f t : values (map_toc f t) = map f (values t).
Proof.
  unfold values, map_toc. induction t as [|[g d] t IH]; [reflexivity|].
  cbn [map flat_map fst snd]. rewrite IH, map_app, !map_map. reflexivity.
Qed.

(* ---------------------------------------------------------------- TocCache over byte files *)
Section Bytes.
  Variable ser : jdoc -> list Z.             (* json.dumps(toc, indent=2, default=_encoder) as written *)
  Variable par : list Z -> option jdoc.      (* json.load with the object hook factored out (load) *)
  Hypothesis par_ser : forall t, wf t -> par (ser (jdoc_of t)) = Some (jdoc_of t).
  Hypothesis par_prefix : forall t k, wf t -> (k < List.length (ser (jdoc_of t)))%nat ->
                                      par (firstn k (ser (jdoc_of t))) = None.

  Definition named_ok (nm : list Z) : Prop := exists c, 0 <= c < 2 ^ 32 /\ nm = cache_name c.
  (* a file written by insert: completely, or cut short at any byte *)
  Definition content_ok (ct : list Z) : Prop := exists t k, wf t /\ ct = firstn k (ser (jdoc_of t)).
  Definition fs_ok (fs : fsys (list Z)) : Prop :=
    forall d nm ct, In (nm, ct) (files d fs) -> named_ok nm /\ content_ok ct.
  Definition st_ok (st : cstate) : Prop := forall d nm, In (d, nm) (c_files st) -> named_ok nm.

  Lemma content_cases ct : content_ok ct ->
    (exists t, wf t /\ ct = ser (jdoc_of t)) \/ par ct = None.
  Proof.
    intros (t & k & Hwf & ->).
    destruct (Nat.lt_ge_cases k (List.length (ser (jdoc_of t)))) as [H|H].
    - right. now apply par_prefix.
    - left. exists t. split; [exact Hwf|]. now apply firstn_all2.
  Qed.

  Lemma hit_name st crc d nm :
    st_ok st -> 0 <= crc < 2 ^ 32 ->
    last_match (cache_name crc) (c_files st) None = Some (d, nm) -> nm = cache_name crc.
  Proof.
    intros Hst Hc H. apply last_match_In in H. destruct H as [H|[Hin He]]; [discriminate|].
    destruct (Hst _ _ Hin) as (c & Hcr & ->). cbn [snd] in He.
    f_equal. symmetry. now apply ends_with_names.
  Qed.

  Lemma loaded_equals_stored st fs crc t' :
    fs_ok fs -> st_ok st -> 0 <= crc < 2 ^ 32 ->
    cfetch par st fs crc = Loaded t' ->
    exists d t, In (cache_name crc, ser (jdoc_of t)) (files d fs) /\ wf t /\ t' = reload t.
  Proof.
    intros Hfs Hst Hc H. unfold cfetch in H.
    destruct (last_match (cache_name crc) (c_files st) None) as [[d nm]|] eqn:El; [|discriminate].
    pose proof (hit_name _ _ _ _ Hst Hc El) as ->.
    destruct (dget (cache_name crc) (files d fs)) as [ct|] eqn:Ed; [|discriminate].
    apply dget_In in Ed. destruct (Hfs _ _ _ Ed) as [_ Hct].
    destruct (content_cases ct Hct) as [(t & Hwf & ->)|Hn].
    - rewrite (par_ser t Hwf), load_jdoc_of in H. exists d, t. split; [exact Ed|split; [exact Hwf|]].
      destruct (class_free t); [now injection H as <-|discriminate].
    - rewrite Hn in H. discriminate.
  Qed.

  Lemma never_other st fs crc : fs_ok fs -> cfetch par st fs crc <> LoadedOther.
  Proof.
    intros Hfs H. unfold cfetch in H.
    destruct (last_match (cache_name crc) (c_files st) None) as [[d nm]|]; [|discriminate].
    destruct (dget nm (files d fs)) as [ct|] eqn:Ed; [|discriminate].
    apply dget_In in Ed. destruct (Hfs _ _ _ Ed) as [_ Hct].
    destruct (content_cases ct Hct) as [(t & Hwf & ->)|Hn].
    - rewrite (par_ser t Hwf), load_jdoc_of in H. destruct (class_free t); discriminate.
    - rewrite Hn in H. discriminate.
  Qed.

  Lemma truncation_is_miss st fs crc d nm t k :
    last_match (cache_name crc) (c_files st) None = Some (d, nm) ->
    dget nm (files d fs) = Some (firstn k (ser (jdoc_of t))) -> wf t ->
    (k < List.length (ser (jdoc_of t)))%nat ->
    cfetch par st fs crc = Miss.
  Proof. intros El Ed Hwf Hk. unfold cfetch. now rewrite El, Ed, par_prefix. Qed.

  Lemma missing_is_miss st fs crc :
    (forall d nm, In (d, nm) (c_files st) -> ends_with (cache_name crc) nm = false) ->
    cfetch par st fs crc = Miss.
  Proof.
    intros H. unfold cfetch.
    destruct (last_match (cache_name crc) (c_files st) None) as [[d nm]|] eqn:El; [|reflexivity].
    apply last_match_In in El. destruct El as [El|[Hin He]]; [discriminate|].
    cbn [snd] in He. rewrite (H _ _ Hin) in He. discriminate.
  Qed.

  Lemma insert_then_fetch st fs crc t :
    c_rw st = true -> wf t -> class_free t = true ->
    let '(st', fs') := cinsert st fs crc (ser (jdoc_of t)) in
    cfetch par st' fs' crc = Loaded (reload t).
  Proof.
    intros Hrw Hwf Hcf. unfold cinsert. rewrite Hrw. unfold cfetch. cbn [c_files].
    rewrite last_match_snoc by (cbn [snd]; apply ends_with_refl).
    cbn [files cwrite rw_files]. rewrite dget_dset_same, (par_ser t Hwf), load_jdoc_of, Hcf. reflexivity.
  Qed.

  Lemma fs_ok_write fs crc t k :
    fs_ok fs -> 0 <= crc < 2 ^ 32 -> wf t -> fs_ok (cwrite fs crc (firstn k (ser (jdoc_of t)))).
  Proof.
    intros Hfs Hc Hwf d nm ct Hin. destruct d; cbn [files cwrite ro_files rw_files] in Hin.
    - apply (Hfs RO _ _ Hin).
    - apply dset_In in Hin. destruct Hin as [Hin|Heq].
      + apply (Hfs RW _ _ Hin).
      + injection Heq as -> ->. split; [exists crc; now split|exists t, k; now split].
  Qed.

  Lemma st_ok_insert st (fs : fsys (list Z)) crc ct :
    st_ok st -> 0 <= crc < 2 ^ 32 -> st_ok (fst (cinsert st fs crc ct)).
  Proof.
    intros Hst Hc. unfold cinsert. destruct (c_rw st); cbn [fst]; [|exact Hst].
    intros d nm Hin. cbn [c_files] in Hin. apply in_app_iff in Hin. destruct Hin as [Hin|[Heq|[]]].
    - now apply (Hst d nm).
    - injection Heq as <- <-. exists crc. now split.
  Qed.

  Lemma st_ok_init has_ro has_rw fs : fs_ok fs -> st_ok (cinit has_ro has_rw fs).
  Proof.
    intros Hfs d nm Hin. unfold cinit in Hin. cbn [c_files] in Hin. apply in_app_iff in Hin.
    destruct Hin as [Hin|Hin].
    - destruct has_ro; [|contradiction]. apply in_map_iff in Hin. destruct Hin as ([nm' ct] & Heq & Hf).
      injection Heq as <- <-. apply filter_In in Hf. destruct Hf as [Hf _]. apply (Hfs RO _ _ Hf).
    - destruct has_rw; [|contradiction]. apply in_map_iff in Hin. destruct Hin as ([nm' ct] & Heq & Hf).
      injection Heq as <- <-. apply filter_In in Hf. destruct Hf as [Hf _]. apply (Hfs RW _ _ Hf).
  Qed.

  Lemma ro_never_written st (fs : fsys (list Z)) crc ct : ro_files (snd (cinsert st fs crc ct)) = ro_files fs.
  Proof. unfold cinsert. destruct (c_rw st); reflexivity. Qed.

  Lemma no_rw_no_write st (fs : fsys (list Z)) crc ct : c_rw st = false -> cinsert st fs crc ct = (st, fs).
  Proof. intros H. unfold cinsert. now rewrite H. Qed.

  (* the cache as the fetcher of C03 sees it *)
  Definition cache_fun (st : cstate) (fs : fsys (list Z)) : Z -> option toc :=
    fun crc => match cfetch par st fs crc with Loaded t => Some t | _ => None end.
End Bytes.

(* a non-empty table of the other element class is never used (fix F11) *)
Lemma other_class_is_miss c t e :
  In e (values t) -> e_cls e <> c -> cache_hit c (Some t) = None.
Proof.
  intros Hin Hne. cbn [cache_hit].
  destruct (forallb (fun e0 => cls_eqb (e_cls e0) c) (values t)) eqn:E.
  - rewrite forallb_forall in E. specialize (E e Hin). exfalso. apply Hne.
    destruct (e_cls e), c; try reflexivity; discriminate.
  - now rewrite andb_false_r.
Qed.

Lemma valid_reload_is_hit c items :
  items <> [] -> cache_hit c (Some (reload (spec_toc c items))) = Some (spec_toc c items).
Proof.
  intros Hne. rewrite reload_spec_toc. cbn [cache_hit].
  assert (Hcls : forallb (fun e => cls_eqb (e_cls e) c) (values (spec_toc c items)) = true).
  { apply forallb_forall. intros e He.
    destruct (In_get_element e _ (wf_toc_of_elems _) He) as (g & n & Hg).
    destruct (get_spec_inv c items g n e Hg) as (j & it & _ & -> & _).
    destruct c; reflexivity. }
  rewrite Hcls.
  destruct (spec_toc c items) eqn:E; [|reflexivity].
  exfalso. destruct items as [|it items]; [now apply Hne|].
  assert (H : get_element (di_group it) (di_name it) (spec_toc c (it :: items)) <> None).
  { change (it :: items) with ([it] ++ items).
    revert E. clear. intros _.
    induction items as [|x items IH] using rev_ind.
    - cbn [app]. unfold spec_toc, toc_of_elems. cbn [spec_elems fold_left].
      rewrite get_element_add.
      assert (K : keyb (di_group it) (di_name it) (spec_elem c 0 it) = true) by now apply keyb_spec.
      rewrite K. discriminate.
    - rewrite app_assoc, spec_toc_snoc, get_element_add.
      destruct (keyb _ _ _); [discriminate|exact IH]. }
  rewrite E in H. now apply H.
Qed.

(* ---------------------------------------------------------------- whole histories: inserts, crashes, restarts *)
Inductive cop :=
| OInsert (crc : Z) (t : toc)               (* insert completes *)
| OCrash (crc : Z) (t : toc) (k : nat)      (* the process dies after k bytes of the file were written *)
| OReopen (has_ro has_rw : bool).           (* a new TocCache object over the same directories *)

Definition cstep (ser : jdoc -> list Z) (sf : cstate * fsys (list Z)) (op : cop) : cstate * fsys (list Z) :=
  let '(st, fs) := sf in
  match op with
  | OInsert crc t => cinsert st fs crc (ser (jdoc_of t))
  | OCrash crc t k => if c_rw st then (st, cwrite fs crc (firstn k (ser (jdoc_of t)))) else (st, fs)
  | OReopen a b => (cinit a b fs, fs)
  end.

Definition crun (ser : jdoc -> list Z) (sf : cstate * fsys (list Z)) (ops : list cop) := fold_left (cstep ser) ops sf.

Definition op_ok (op : cop) : Prop :=
  match op with
  | OInsert c t | OCrash c t _ => 0 <= c < 2 ^ 32 /\ wf t
  | OReopen _ _ => True
  end.

Lemma crun_inv ser : forall ops st fs,
  fs_ok ser fs -> st_ok st -> Forall op_ok ops ->
  let '(st', fs') := crun ser (st, fs) ops in
  fs_ok ser fs' /\ st_ok st' /\ ro_files fs' = ro_files fs.
Proof.
  induction ops as [|op ops IH]; intros st fs Hfs Hst Hops; cbn [crun fold_left].
  - auto.
  - inversion Hops as [|? ? Hop Hrest]; subst.
    assert (Hstep : let '(st1, fs1) := cstep ser (st, fs) op in
                    fs_ok ser fs1 /\ st_ok st1 /\ ro_files fs1 = ro_files fs).
    { destruct op as [crc t|crc t k|a b]; cbn [cstep].
      - destruct Hop as [Hc Hwf]. pose proof (st_ok_insert st fs crc (ser (jdoc_of t)) Hst Hc) as H1.
        pose proof (ro_never_written st fs crc (ser (jdoc_of t))) as H2.
        unfold cinsert in *. destruct (c_rw st); cbn [fst snd] in *; [|auto].
        split; [|auto].
        rewrite <- (firstn_all (ser (jdoc_of t))). now apply fs_ok_write.
      - destruct Hop as [Hc Hwf]. destruct (c_rw st); [|auto].
        split; [now apply fs_ok_write|auto].
      - split; [exact Hfs|split; [now apply (st_ok_init ser)|reflexivity]]. }
    destruct (cstep ser (st, fs) op) as [st1 fs1]. destruct Hstep as (H1 & H2 & H3).
    specialize (IH st1 fs1 H1 H2 Hrest). unfold crun in IH.
    destruct (fold_left (cstep ser) ops (st1, fs1)) as [st' fs']. destruct IH as (I1 & I2 & I3).
    split; [exact I1|split; [exact I2|congruence]].
Qed.

Definition json_ok (ser : jdoc -> list Z) (par : list Z -> option jdoc) : Prop :=
  (forall t, wf t -> par (ser (jdoc_of t)) = Some (jdoc_of t)) /\
  (forall t k, wf t -> (k < List.length (ser (jdoc_of t)))%nat -> par (firstn k (ser (jdoc_of t))) = None).

Definition empty_fs : fsys (list Z) := mkFs [] [].

Lemma fs_ok_empty ser : fs_ok ser empty_fs.
Proof. intros [|] nm ct []. Qed.

Lemma st_ok_empty a b : st_ok (cinit a b empty_fs).
Proof. intros d nm Hin. unfold cinit in Hin. cbn in Hin. destruct a, b; destruct Hin. Qed.

(* after ANY history of inserts, crashes at any byte and restarts with any directory combination,
   starting from directories that contain only files written by TocCache: *)
Lemma history_safe ser par : json_ok ser par ->
  forall ops st fs crc,
  fs_ok ser fs -> st_ok st -> Forall op_ok ops -> 0 <= crc < 2 ^ 32 ->
  let '(st', fs') := crun ser (st, fs) ops in
  ro_files fs' = ro_files fs /\
  match cfetch par st' fs' crc with
  | Loaded t' => exists d t, In (cache_name crc, ser (jdoc_of t)) (files d fs') /\ wf t /\ t' = reload t
  | LoadedOther => False
  | Miss => True
  end.
Proof.
  intros [H1 H2] ops st fs crc Hfs Hst Hops Hc.
  pose proof (crun_inv ser ops st fs Hfs Hst Hops) as H.
  destruct (crun ser (st, fs) ops) as [st' fs']. destruct H as (I1 & I2 & I3).
  split; [exact I3|].
  destruct (cfetch par st' fs' crc) as [t'| |] eqn:E; [| |exact I].
  - now apply (loaded_equals_stored ser par H1 H2 st' fs' crc t').
  - now apply (never_other ser par H1 H2 st' fs' crc).
Qed.

Lemma insert_then_fetch' ser par : json_ok ser par ->
  forall st fs crc t, c_rw st = true -> wf t -> class_free t = true ->
  let '(st', fs') := cinsert st fs crc (ser (jdoc_of t)) in
  cfetch par st' fs' crc = Loaded (reload t).
Proof. intros [H1 _]. exact (insert_then_fetch ser par H1). Qed.

Lemma truncation_is_miss' ser par : json_ok ser par ->
  forall st fs crc d nm t k,
  last_match (cache_name crc) (c_files st) None = Some (d, nm) ->
  dget nm (files d fs) = Some (firstn k (ser (jdoc_of t))) -> wf t ->
  (k < List.length (ser (jdoc_of t)))%nat ->
  cfetch par st fs crc = Miss.
Proof. intros [_ H2]. exact (truncation_is_miss ser par H2). Qed.

(* composition with the download of C03: with the cache as the fetcher's cache, a miss (no file, truncated
   file, unparsable file, table of the other class) ends in the downloaded device table, a hit in the
   stored one *)
Lemma miss_falls_back ser par : json_ok ser par ->
  forall ops st0 fs0 c ver items raw crc extra evs,
  fs_ok ser fs0 -> st_ok st0 -> Forall op_ok ops ->
  raw_items c items = Some raw -> Forall item_ok items -> 0 <= crc < 2 ^ 32 ->
  Z.of_nat (List.length items) < (if 4 <=? ver then 65536 else 256) -> admissible evs ->
  let '(st, fs) := crun ser (st0, fs0) ops in
  let '(s, o) := fetch c (cache_fun par st fs) ver (mkDev raw crc extra) evs in
  raised o = [] /\ (finished_count o <= 1)%nat /\
  (finished_count o = 1%nat ->
     (f_toc s = spec_toc c items /\ inserts o = [(crc, spec_toc c items)]) \/
     (exists d t, In (cache_name crc, ser (jdoc_of t)) (files d fs) /\ wf t /\ f_toc s = reload t /\
                  (forall e, In e (values (reload t)) -> e_cls e = c) /\ inserts o = [])).
Proof.
  intros Hj ops st0 fs0 c ver items raw crc extra evs Hfs Hst Hops Hraw Hok Hc Hn Hadm.
  pose proof (history_safe ser par Hj ops st0 fs0 crc Hfs Hst Hops Hc) as Hh.
  destruct (crun ser (st0, fs0) ops) as [st fs]. destruct Hh as [_ Hh].
  pose proof (fetch_exact c (cache_fun par st fs) ver items raw crc extra evs Hraw Hok Hc Hn Hadm) as Hf.
  destruct (fetch c (cache_fun par st fs) ver (mkDev raw crc extra) evs) as [s o].
  unfold fetch_result_ok in Hf. destruct Hf as (F1 & F2 & F3 & _). split; [exact F1|split; [exact F2|]].
  intros Hfin. destruct (F3 Hfin) as [_ F].
  destruct (cache_hit c (cache_fun par st fs crc)) as [t1|] eqn:Eh.
  - right. apply cache_hit_sound in Eh. destruct Eh as (E1 & _ & E3). unfold cache_fun in E1.
    destruct (cfetch par st fs crc) as [t'| |] eqn:Ef; try discriminate. injection E1 as ->.
    cbv iota in Hh. destruct Hh as (d & t & Hin & Hwf & ->). destruct F as (Ft & _ & Fi).
    exists d, t. split; [exact Hin|split; [exact Hwf|split; [exact Ft|split; [exact E3|exact Fi]]]].
  - left. destruct F as (Ft & _ & Fi). now split.
Qed.
