(* C11/Empty.v — the empty table in the cache.
   An empty table is stored as the file `{}`: it has no element, hence carries NO class information — the class
   check of a cached table (`all elements are of the fetcher's class`) is vacuous on it, for both classes.  The log
   and the parameter table share the cache; under a checksum collision a `{}` stored for one of them would pass as
   a table of the other.  HEAD's rule (non-empty AND all elements of the expected class) therefore treats `{}` as
   a miss; this costs nothing when the device table really is empty (the download of an empty table is the INFO
   request alone) and is the only sound choice when it is not. *)
From CF Require Import Common.Bytes C03.Model C03.ExtModel C03.Proofs C03.Fetch C03.Lookup C11.Model C11.Proofs.
Open Scope Z_scope.

(* the rule that also accepts the empty table ("an empty TOC is a valid cache entry too") *)
Definition cache_hit_accept_empty (c : cls) (cd : option toc) : option toc :=
  match cd with
  | Some t => if forallb (fun e => cls_eqb (e_cls e) c) (values t) then Some t else None
  | None => None
  end.

(* the class check is vacuous on the empty table: the same stored value is "valid" for both classes *)
Lemma empty_passes_for_both_classes :
  cache_hit_accept_empty LogCls (Some []) = Some [] /\ cache_hit_accept_empty ParamCls (Some []) = Some [].
Proof. split; reflexivity. Qed.

Lemma spec_toc_has_first c it items :
  get_element (di_group it) (di_name it) (spec_toc c (it :: items)) <> None.
Proof.
  change (it :: items) with ([it] ++ items).
  induction items as [|x items IH] using rev_ind.
  - cbn [app]. unfold spec_toc, toc_of_elems. cbn [spec_elems fold_left]. rewrite get_element_add.
    assert (K : keyb (di_group it) (di_name it) (spec_elem c 0 it) = true) by now apply keyb_spec.
    rewrite K. discriminate.
  - rewrite app_assoc, spec_toc_snoc, get_element_add. destruct (keyb _ _ _); [discriminate|exact IH].
Qed.

Lemma spec_toc_nonempty c items : items <> [] -> spec_toc c items <> [].
Proof.
  intros Hne E. destruct items as [|it items]; [now apply Hne|].
  pose proof (spec_toc_has_first c it items) as H. rewrite E in H. now apply H.
Qed.

(* refutation of the accepting rule: a `{}` left for the other (empty) table under a colliding checksum is taken
   for this table although this device's table is not empty *)
Lemma accept_empty_refuted c items :
  items <> [] ->
  exists t, cache_hit_accept_empty c (Some []) = Some t /\ t <> spec_toc c items.
Proof.
  intros Hne. exists []. split; [destruct c; reflexivity|]. intros E. now apply (spec_toc_nonempty c items Hne).
Qed.

(* HEAD's rule: `{}` is a miss for both classes *)
Lemma empty_cached_is_miss c : cache_hit c (Some []) = None.
Proof. reflexivity. Qed.

(* the collision table: what was downloaded for class c' from device entries `items`, stored and loaded again, is
   used by a fetcher of class c exactly when c = c' and the table is not empty; then it is that table *)
Lemma collision_rule c c' items :
  cache_hit c (Some (reload (spec_toc c' items))) =
  if cls_eqb c c' && match items with [] => false | _ => true end then Some (spec_toc c' items) else None.
Proof.
  destruct items as [|it items].
  - rewrite andb_false_r. reflexivity.
  - rewrite andb_true_r. destruct (cls_eqb c c') eqn:E.
    + assert (c = c') by (destruct c, c'; try reflexivity; discriminate). subst c'.
      apply valid_reload_is_hit. discriminate.
    + rewrite reload_spec_toc.
      pose proof (spec_toc_has_first c' it items) as Hf.
      destruct (get_element (di_group it) (di_name it) (spec_toc c' (it :: items))) as [e|] eqn:Eg; [|now elim Hf].
      apply (other_class_is_miss c _ e).
      * eapply get_element_In. exact Eg.
      * destruct (get_spec_inv c' (it :: items) _ _ e Eg) as (j & jt & _ & -> & _).
        intros Hc. destruct c, c'; cbn in *; try discriminate.
Qed.

(* treating `{}` as a miss is free when the device table really is empty: the download is the INFO request alone *)
Lemma empty_table_download_is_one_request : forall c cache ver crc extra evs,
  0 <= crc < 2 ^ 32 -> admissible evs ->
  let '(s, o) := fetch c cache ver (mkDev [] crc extra) evs in
  finished_count o = 1%nat -> cache_hit c (cache crc) = None ->
  f_toc s = [] /\ sends o = [info_req (4 <=? ver)] /\ inserts o = [(crc, [])].
Proof.
  intros c cache ver crc extra evs Hc Hadm.
  pose proof (fetch_exact c cache ver [] [] crc extra evs eq_refl (Forall_nil _) Hc) as H.
  assert (Hn : Z.of_nat (List.length (@nil ditem)) < (if 4 <=? ver then 65536 else 256)) by (destruct (4 <=? ver); cbn; lia).
  specialize (H Hn Hadm). destruct (fetch c cache ver (mkDev [] crc extra) evs) as [s o].
  unfold fetch_result_ok in H. destruct H as (_ & _ & H & _). intros Hf Hmiss.
  destruct (H Hf) as [_ H1]. rewrite Hmiss in H1. exact H1.
Qed.

(* ---------------------------------------------------------------- listed but gone: fetch is total *)

(* TocCache.fetch with exceptions explicit.  HEAD: every access to the file (open, read, parse, decode) is inside
   the try/except: a file that is listed in _cache_files but no longer exists (deleted, replaced by a directory,
   unreadable) is a miss.  `guarded = false` models a stat (os.path.getsize) placed before the guard: it raises
   for a file that is gone. *)
Inductive fres := FOk (r : lres) | FRaise.

Definition cfetch_x {C} (guarded : bool) (par : C -> option jdoc) (st : cstate) (fs : fsys C) (crc : Z) : fres :=
  match last_match (cache_name crc) (c_files st) None with
  | None => FOk Miss
  | Some (d, nm) =>
      match dget nm (files d fs) with
      | None => if guarded then FOk Miss else FRaise            (* FileNotFoundError *)
      | Some content =>
          match par content with
          | None => FOk Miss
          | Some doc => FOk (load doc)
          end
      end
  end.

(* HEAD's fetch never raises, in EVERY state of the object and of the file system (incl. "listed but gone"), and
   it is the cfetch of the model *)
Lemma fetch_total {C} (par : C -> option jdoc) st fs crc : cfetch_x true par st fs crc = FOk (cfetch par st fs crc).
Proof.
  unfold cfetch_x, cfetch. destruct (last_match (cache_name crc) (c_files st) None) as [[d nm]|]; [|reflexivity].
  destruct (dget nm (files d fs)) as [ct|]; [|reflexivity]. destruct (par ct); reflexivity.
Qed.

Lemma listed_but_gone_is_miss {C} (par : C -> option jdoc) st (fs : fsys C) crc d nm :
  last_match (cache_name crc) (c_files st) None = Some (d, nm) -> dget nm (files d fs) = None ->
  cfetch par st fs crc = Miss.
Proof. intros H1 H2. unfold cfetch. now rewrite H1, H2. Qed.

(* refutation of the stat outside the guard: the object stored a table itself, the file is deleted, the next fetch
   of that checksum raises instead of missing *)
Lemma stat_outside_guard_refuted :
  let st := mkC [(RW, cache_name 7)] true in
  let fs := @mkFs (list Z) [] [] in
  cfetch_x false (fun _ => None) st fs 7 = FRaise /\ cfetch_x true (fun _ => None) st fs 7 = FOk Miss.
Proof. split; reflexivity. Qed.
