#!/bin/bash
# usage: .c17_mut.sh name 'python-snippet editing files under /tmp/wt-c17m'
set -u
name=$1
rm -rf /tmp/wt-c17m; cp -r /tmp/wt-c17 /tmp/wt-c17m; rm -f /tmp/wt-c17m/.git
cd /tmp/wt-c17m && python3 -c "$2" || { echo "MUTATION $name: edit failed"; exit 1; }
t=$(cd /tmp/wt-c17m && /venv/bin/python -m pytest -q -p no:cacheprovider test/positioning 2>&1 | tail -1)
out=$(cd /verif && VERIF_REPO=/tmp/wt-c17m ./harness/check.py --property C17 2>&1 | grep -v KNOWN-FINDING)
echo "MUTATION $name | tests: $t"
echo "$out" | cut -c1-250
for f in $(echo "$out" | grep -o 'replay=[^ ]*' | cut -d= -f2); do python3 -c "
import json; d=json.load(open('$f')); print('   ->', d.get('class') or d.get('kind'), json.dumps(d.get('case'))[:300], (d.get('theorem_or_correspondence') or '')[:100])"; done
rm -rf /tmp/wt-c17m
