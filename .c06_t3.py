import random,time,sys,subprocess
from props import c06
rng=random.Random(0)
cases=[c06.gen_case(rng,'faulty') for _ in range(5)]
c=cases[4]
evs='[%s]'%'; '.join(c06.ev_term(e) for e in c['events'])
print(len(c['events']), sum(len(e[3]) for e in c['events'] if e[0]=='W'))
src=c06.HEADER+'From CF Require Import Common.Digest.\nDefinition evs := %s.\nDefinition pl := plan_of %s.\n'%(evs, __import__('core.coqrun').coqrun.zlist(c['plan']))
src+='Time Eval vm_compute in length (snd (sys_run true pl (sys_init test_mem) evs)).\n'
src+='Time Eval vm_compute in length (snd (sys_trace true pl (sys_init test_mem) evs)).\n'
src+='Time Eval vm_compute in digest (snd (sys_trace true pl (sys_init test_mem) evs)).\n'
src+='Time Eval vm_compute in length (s_log (fst (sys_run true pl (sys_init test_mem) evs))).\n'
src+='Time Eval vm_compute in digest (concat (map (fun x => snd x) (s_log (fst (sys_run true pl (sys_init test_mem) evs))))).\n'
open('/verif/coq/Tmp/tmp_c06b.v','w').write(src)
r=subprocess.run(['coqc','-Q','.','CF','Tmp/tmp_c06b.v'],cwd='/verif/coq',capture_output=True,text=True); print(r.stdout[-1500:], r.stderr[:300])
