import sys, random, time, json
sys.path.insert(0,'/verif/harness')
from fakes import c09_rooms as R
seed=int(sys.argv[1]); n=int(sys.argv[2]); exact=len(sys.argv)>3
rng=random.Random(seed)
bad={}
t0=time.time()
for i in range(n):
    case=R.gen_structured_room(rng)
    r=R.run_pipeline(case, exact=exact, jitter=(1e-7 if exact else 0.0))
    j=R.judge(case,r)
    if j:
        bad[j[0]]=bad.get(j[0],0)+1
        json.dump(case,open('/verif/.c09_sbad_%d_%d.json'%(seed,i),'w'))
        print(i,j[0],case['mode'],len(case['bs']),len(case['cf']),str(j[2])[:300])
print('bad',bad,'of',n,'wall',time.time()-t0)
