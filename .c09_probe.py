import sys, random, time, json
sys.path.insert(0,'/verif/harness')
from fakes import c09_rooms as R
seed=int(sys.argv[1]); n=int(sys.argv[2]); exact=len(sys.argv)>3
rng=random.Random(seed)
bad=0
t0=time.time()
for i in range(n):
    case=R.gen_room(rng)
    r=R.run_pipeline(case, exact=exact)
    j=R.judge(case,r)
    if j:
        bad+=1
        json.dump(case,open('/verif/.c09_bad_%d_%d.json'%(seed,i),'w'))
        print(i,j[0],case['mode'],len(case['bs']),len(case['cf']),j[2],j[3])
print('bad',bad,'of',n,'wall',time.time()-t0)
