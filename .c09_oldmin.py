import sys, json
sys.path.insert(0,'/verif/harness')
from fakes import c09_rooms as R
case=json.load(open('/verif/.c09_oldcrash.json'))
m=R.minimise(case,'pipeline_raises_ValueError',log=print)
r=R.run_pipeline(m); print(len(m['bs']),len(m['cf']),R.judge(m,r))
json.dump(m,open('/verif/.c09_oldcrash_min.json','w'))
