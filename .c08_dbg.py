import sys, os, json
sys.path.insert(0, '/verif/harness')
repo = os.environ.get('VERIF_REPO', '/repo')
sys.path.insert(0, repo)
from core import runner, coqrun
import importlib
mod = importlib.import_module('props.c08')
ctx = runner.Ctx('C08', os.environ.get('VERIF_TIER', 'quick'), int(os.environ.get('VERIF_SEED', '0')))
ctx.repo = repo
what = sys.argv[1]
if what == 'proof':
    mod.generate(ctx)
    pr = coqrun.proof_step(mod.PROPERTY_FILE)
    print(json.dumps(pr['errors'], indent=1)[:6000]); print(pr['obligations'], pr['discharged'], pr['wall_s'])
elif what == 'tie':
    mod.generate(ctx)
    t = mod.tie(ctx)
    for d in t['disagreements']:
        print(json.dumps(d, default=repr)[:1500])
    print(t['evaluations'], t['distinct_nontrivial'], t['distribution'])
elif what == 'oracle':
    o = mod.oracle(ctx, deep=len(sys.argv) > 2)
    for f in o['failures']:
        print(json.dumps(f, default=repr)[:1200])
    print(o['evaluations'])
