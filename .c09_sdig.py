import sys, json, glob
sys.path.insert(0,'/verif/harness')
import numpy as np
from fakes import c09_rooms as R
from cflib.localization.lighthouse_sample_matcher import LighthouseSampleMatcher
from cflib.localization.lighthouse_initial_estimator import LighthouseInitialEstimator as E
from cflib.localization.ippe_cf import IppeCf
from cflib.localization.lighthouse_types import LhDeck4SensorPositions
S=LhDeck4SensorPositions.positions
for f in sorted(glob.glob('/verif/.c09_sbad_1_*.json'))[:12]:
    case=json.load(open(f))
    ms=R.measurements(case)
    matched=LighthouseSampleMatcher.match(ms,max_time_diff=0.02,min_nr_of_bs_in_match=2)
    bs={int(b):R._pose(v) for b,v in case['bs'].items()}
    perms={}
    ippe_first_true=[]
    for k,s in enumerate(matched):
        sols={}
        for b,ang in s.angles_calibrated.items():
            est=E._convert_estimates_to_cf_reference_frame(IppeCf.solve(S,ang.projection_pair_list()))
            sols[b]=est
            kk=min(range(len(case['cf'])), key=lambda i: abs(case['t0'][i]-s.timestamp))
            true=R._pose(case['cf'][kk]).inv_rotate_translate_pose(bs[b])
            e=[R.pose_error(true,p)[0] for p in est]
            ippe_first_true.append(e[0]<1e-3)
        E._add_solution_permutations(sols, perms)
    out=[]
    for pair,pl in perms.items():
        true=bs[pair.bs1].inv_rotate_translate_pose(bs[pair.bs2]).translation
        refs=pl[0]; buckets=[[],[],[],[]]
        E._map_positions_to_ref(refs,pl,buckets)
        lens=[len(b) for b in buckets]
        win=max(range(4), key=lambda i:(lens[i],-i))
        ntrue=[sum(1 for p in b if np.linalg.norm(p-true)<1e-3) for b in buckets]
        out.append((tuple(pair),len(pl),lens,'win',win,'true-in-bucket',ntrue))
    print(f.split('sbad_')[1], case['mode'], len(case['cf']), 'ippe first=true: %d/%d'%(sum(ippe_first_true),len(ippe_first_true)), out[:3])
