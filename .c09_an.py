import sys, json, glob, math
sys.path.insert(0,'/verif/harness')
import numpy as np
from fakes import c09_rooms as R
for f in sorted(glob.glob('/verif/.c09_bad_*.json')):
    case=json.load(open(f))
    bs={int(k):R._pose(v) for k,v in case['bs'].items()}
    dmin=9;dmax=0;hmax=0;vmax=0;incmin=9;above=9
    for k,c in enumerate(case['cf']):
        pc=R._pose(c)
        for b in set(case['vis'][k]):
            p=bs[b].inv_rotate_translate(pc.translation)
            d=np.linalg.norm(p); dmin=min(dmin,d); dmax=max(dmax,d)
            h=abs(math.atan2(p[1],p[0])); v=abs(math.atan2(p[2],p[0])); hmax=max(hmax,h); vmax=max(vmax,v)
            q=pc.inv_rotate_translate(bs[b].translation); inc=math.asin(q[2]/np.linalg.norm(q)); incmin=min(incmin,inc)
            above=min(above,bs[b].translation[2]-pc.translation[2])
    print(f.split('/')[-1], case['mode'],len(case['bs']),len(case['cf']),'d %.2f..%.2f hmax %.0f vmax %.0f inc_min %.0f above_min %.2f'%(dmin,dmax,math.degrees(hmax),math.degrees(vmax),math.degrees(incmin),above))
